#!/usr/bin/env python3
"""tools/merge_builder.py Cxx [--apply]

Merge what a builder changed in its private copy /tmp/ag/Cxx/verif (a copy of /verif INCLUDING .git, so
`git status` there lists exactly its changes) into /verif:
  * file unchanged in /verif since the copy was taken  -> copied
  * changed on both sides                              -> `git merge-file` (3-way, base = the copy's HEAD); conflicts are listed
  * known_findings.json                                -> the builder's entries for Cxx replace / extend ours (others untouched)
  * tools/manifest_table.py                            -> the add("Cxx", ...) block is replaced
  * evidence/, replays/, MANIFEST.json, anchors.lock.json, sweep logs are ignored
"""
import json, os, re, shutil, subprocess, sys, tempfile
pid = sys.argv[1]
apply = "--apply" in sys.argv
src, dst = f"/tmp/ag/{pid}/verif", "/verif"
def git(*a, cwd=src):
    return subprocess.run(["git", *a], cwd=cwd, stdout=subprocess.PIPE, stderr=subprocess.PIPE, text=True)
st = git("status", "--porcelain", "--untracked-files=all").stdout.splitlines()
files = []
for l in st:
    f = l[3:].strip().strip('"')
    if " -> " in f:
        f = f.split(" -> ")[1]
    if f.startswith(("evidence/", "replays/", "sweep_")) or f in ("MANIFEST.json", "anchors.lock.json") or f.endswith(".pyc") or "/__pycache__/" in f:
        continue
    files.append((l[:2], f))
copied, merged, conflicts, special, deleted = [], [], [], [], []
for code, f in files:
    s, d = os.path.join(src, f), os.path.join(dst, f)
    if "D" in code and not os.path.exists(s):
        deleted.append(f); continue
    if f == "known_findings.json":
        special.append(f)
        if apply:
            a = json.load(open(s))["findings"]; k = json.load(open(d))
            mine = [x for x in a if x["property"] == pid]
            sigs = {x["signature"] for x in mine}
            base = json.loads(git("show", "HEAD:known_findings.json").stdout)["findings"]
            base_sigs = {x["signature"] for x in base if x["property"] == pid}
            out, done = [], set()
            for x in k["findings"]:
                if x["property"] == pid:
                    if x["signature"] in sigs:
                        y = next(m for m in mine if m["signature"] == x["signature"])
                        # keep a newer status of ours (e.g. fixed by the integrator meanwhile) unless the builder changed it
                        b = next((m for m in base if m["property"] == pid and m["signature"] == x["signature"]), None)
                        if b is not None and b["status"] == y["status"] and x["status"] != b["status"]:
                            y = dict(y, status=x["status"])
                        out.append(y); done.add(x["signature"])
                    elif x["signature"] in base_sigs:
                        pass            # the builder removed it
                    else:
                        out.append(x)   # added by the integrator meanwhile
                else:
                    out.append(x)
            out += [m for m in mine if m["signature"] not in done]
            k["findings"] = out
            json.dump(k, open(d, "w"), indent=1, ensure_ascii=False)
        continue
    if f == "tools/manifest_table.py":
        special.append(f)
        if apply:
            def block(text):
                m = re.search(r'^add\("%s",.*?(?=^add\("|\Z)' % pid, text, re.S | re.M)
                return m
            a, b = open(s).read(), open(d).read()
            ma, mb = block(a), block(b)
            if ma and mb:
                b = b[:mb.start()] + ma.group(0) + b[mb.end():]
            elif ma:
                b = b.rstrip("\n") + "\n" + ma.group(0)
            open(d, "w").write(b)
        continue
    if not os.path.exists(d):
        copied.append(f)
        if apply:
            os.makedirs(os.path.dirname(d), exist_ok=True); shutil.copy2(s, d)
        continue
    base = git("show", f"HEAD:{f}")
    if base.returncode != 0:            # new in the copy, exists in /verif too
        if open(s, "rb").read() == open(d, "rb").read():
            continue
        conflicts.append(f + " (new on both sides)"); continue
    if base.stdout == open(d, errors="replace").read():
        copied.append(f)
        if apply:
            shutil.copy2(s, d)
        continue
    if open(s, errors="replace").read() == open(d, errors="replace").read():
        continue
    with tempfile.NamedTemporaryFile("w", delete=False) as tb, tempfile.NamedTemporaryFile("w", delete=False) as tc:
        tb.write(base.stdout); tc.write(open(d, errors="replace").read())
    r = subprocess.run(["git", "merge-file", "-p", tc.name, tb.name, s], stdout=subprocess.PIPE, text=True)
    if r.returncode == 0:
        merged.append(f)
        if apply:
            open(d, "w").write(r.stdout)
    else:
        conflicts.append(f)
        if apply:
            open(d + ".merge_conflict", "w").write(r.stdout)
    os.unlink(tb.name); os.unlink(tc.name)
print("COPIED:", *copied, sep="\n  ")
print("MERGED 3-way:", *merged, sep="\n  ")
print("SPECIAL:", *special, sep="\n  ")
print("DELETED in copy (not applied):", *deleted, sep="\n  ")
print("CONFLICTS:", *conflicts, sep="\n  ")
