#!/usr/bin/env python3
"""tools/integrate.py Cxx — merge a sub-agent's private copy (/tmp/ag/Cxx/verif) into /verif.

Copies new files (and changed files whose name contains the property id), merges
known_findings.json entries, the manifest_table.py add("Cxx", …) block, the Cfdm.lean imports and
the Main.lean import + dispatch line.  Idempotent.  Shared files changed by the agent are listed."""
import json
import os
import re
import subprocess
import sys

pid = sys.argv[1]
src = f"/tmp/ag/{pid}/verif"
dst = "/verif"
out = subprocess.run([sys.executable, f"{dst}/tools/merge_agent.py", pid, "--apply"], stdout=subprocess.PIPE, text=True).stdout
print(out.split("---- diff")[0])

# known findings
k = json.load(open(f"{dst}/known_findings.json"))
ka = json.load(open(f"{src}/known_findings.json"))
have = {(x["property"], x["signature"]) for x in k["findings"]}
for x in ka["findings"]:
    if (x["property"], x["signature"]) not in have:
        k["findings"].append(x)
        print("finding added:", x["property"], x["signature"], x.get("status"))
json.dump(k, open(f"{dst}/known_findings.json", "w"), indent=1)

# manifest table
mt = open(f"{src}/tools/manifest_table.py").read()
cur = open(f"{dst}/tools/manifest_table.py").read()
if f'add("{pid}"' in mt and f'add("{pid}"' not in cur:
    i = mt.index(f'add("{pid}"')
    blk = mt[i:]
    m = re.search(r'\nadd\("C(?!%s)' % pid[1:], blk)
    if m:
        blk = blk[: m.start() + 1]
    open(f"{dst}/tools/manifest_table.py", "a").write(blk if blk.endswith("\n") else blk + "\n")
    print("manifest entry added")
elif f'add("{pid}"' not in mt:
    print("!! no manifest entry proposed by the agent")

# Cfdm.lean imports
a = [l for l in open(f"{src}/lean/Cfdm.lean").read().splitlines() if l.startswith("import")]
p = f"{dst}/lean/Cfdm.lean"
cur = open(p).read()
for l in a:
    if l not in cur.splitlines():
        cur += l + "\n"
        print("Cfdm.lean +", l)
open(p, "w").write(cur)

# Main.lean
am = open(f"{src}/lean/Main.lean").read()
p = f"{dst}/lean/Main.lean"
cur = open(p).read()
for l in am.splitlines():
    if l.startswith("import") and l not in cur.splitlines():
        # after the last import
        lines = cur.splitlines()
        last = max(i for i, x in enumerate(lines) if x.startswith("import"))
        lines.insert(last + 1, l)
        cur = "\n".join(lines) + "\n"
        print("Main.lean +", l)
    m = re.match(r'\s*\| \["(C\d+)", sub\] => ', l)
    if m and l.strip() not in [x.strip() for x in cur.splitlines()]:
        cur = cur.replace('      | _ => "bad-op"\n\npartial def loop', l.rstrip() + '\n      | _ => "bad-op"\n\npartial def loop')
        print("Main.lean +", l.strip())
open(p, "w").write(cur)
