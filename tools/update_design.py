#!/usr/bin/env python3
"""tools/update_design.py — regenerate the generated blocks of DESIGN.md.

Blocks are delimited by `<!-- BEGIN:<name> -->` / `<!-- END:<name> -->`:
  fixes    fix: commits in /repo matched with known_findings.json `fixed:` entries
  open     open known findings
  seeded   seeded breaking changes under seeded/ and which check caught them
  claimed  claimed properties with technique (from MANIFEST.json)
"""
import json
import os
import re
import subprocess

HERE = os.path.dirname(os.path.dirname(os.path.abspath(__file__)))


def esc(s):
    return s.replace("|", "\\|").replace("\n", " ")


def short(s, n=170):
    s = " ".join(s.split())
    return s if len(s) <= n else s[: n - 1] + "…"


kf = json.load(open(os.path.join(HERE, "known_findings.json")))["findings"]
log = subprocess.run(["git", "-C", "/repo", "log", "--format=%h %s"], stdout=subprocess.PIPE, text=True).stdout.splitlines()
commits = [(l.split(" ", 1)[0], l.split(" ", 1)[1]) for l in log if l.split(" ", 1)[1].startswith("fix:")]

by_commit = {}
for k in kf:
    m = re.match(r"fixed:\s*([0-9a-f]{7,})", k["status"])
    if m:
        by_commit.setdefault(m.group(1)[:7], []).append(k)

rows = ["| commit | property | finding signature(s) | subject |", "|---|---|---|---|"]
for h, subj in reversed(commits):
    ks = by_commit.get(h[:7], []) or [k for k in kf if h[:7] in k.get("description", "")]
    props = ",".join(sorted({k["property"] for k in ks})) or "?"
    sigs = "; ".join(k["signature"] for k in ks) or "(no entry)"
    rows.append(f"| {h} | {props} | {esc(short(sigs, 120))} | {esc(subj[5:])} |")
fixes = "\n".join(rows)

rows = ["| property | signature | what fails |", "|---|---|---|"]
for k in sorted((k for k in kf if k["status"] == "open"), key=lambda k: k["property"]):
    rows.append(f"| {k['property']} | {k['signature']} | {esc(short(k['description'], 260))} |")
open_tbl = "\n".join(rows)

rows = ["| id | property | needs, to manifest | caught by |", "|---|---|---|---|"]
sd = os.path.join(HERE, "seeded")
for d in sorted(os.listdir(sd)) if os.path.isdir(sd) else []:
    mf = os.path.join(sd, d, "meta.json")
    if not os.path.exists(mf):
        continue
    m = json.load(open(mf))
    caught = m.get("detected_by") if str(m.get("detected_by_check", "")).startswith("yes") else ("NOT caught: " + str(m.get("detected_by", m.get("detected_by_check"))))
    rows.append(f"| {d} | {m.get('property')} | {esc(short(str(m.get('needs_to_manifest')), 200))} | {esc(short(str(caught), 200))} |")
seeded = "\n".join(rows)

man = json.load(open(os.path.join(HERE, "MANIFEST.json")))
rows = ["| property | technique |", "|---|---|"]
for c in man["checks"]:
    rows.append(f"| {c['property_id']} | {esc(short(c.get('technique', ''), 400))} |")
claimed = "\n".join(rows)

blocks = dict(fixes=fixes, open=open_tbl, seeded=seeded, claimed=claimed)
p = os.path.join(HERE, "DESIGN.md")
txt = open(p).read()
for name, body in blocks.items():
    pat = re.compile(r"(<!-- BEGIN:%s -->\n).*?(<!-- END:%s -->)" % (name, name), re.S)
    if not pat.search(txt):
        print("block missing in DESIGN.md:", name)
        continue
    txt = pat.sub(lambda m: m.group(1) + body + "\n" + m.group(2), txt)
open(p, "w").write(txt)
print("DESIGN.md blocks updated:", {k: v.count("\n") - 1 for k, v in blocks.items()})
