#!/usr/bin/env python3
"""tools/merge_design_section.py Cxx — take the '### Cxx —' subsection of §4 from the builder's DESIGN.md."""
import re, sys
pid = sys.argv[1]
a = open(f"/tmp/ag/{pid}/verif/DESIGN.md").read(); b = open("/verif/DESIGN.md").read()
pat = re.compile(r"^### %s — .*?(?=^### |^## |^-{20,})" % pid, re.S | re.M)
ma, mb = pat.search(a), pat.search(b)
if not (ma and mb):
    sys.exit("section not found")
if ma.group(0) == mb.group(0):
    print("identical"); sys.exit(0)
b = b[:mb.start()] + ma.group(0) + b[mb.end():]
open("/verif/DESIGN.md", "w").write(b)
print(f"§4 {pid}: {len(mb.group(0))} -> {len(ma.group(0))} chars")
