#!/usr/bin/env python3
"""tools/keep_seeded.py <Cxx> <k> <detected: yes|no|partial> "<needs>" "<detected_by>"
Copy /tmp/mut/Cxx_out/{patch_k.diff,demo_k.py,notes_k.md} to /verif/seeded/Cxx-k/ with meta.json."""
import json, os, shutil, sys
pid, k, det, needs, by = sys.argv[1:6]
src = f"/tmp/mut/{pid}_out"
dst = f"/verif/seeded/{pid}-{k}"
os.makedirs(dst, exist_ok=True)
shutil.copy(f"{src}/patch_{k}.diff", f"{dst}/patch.diff")
shutil.copy(f"{src}/demo_{k}.py", f"{dst}/demo.py")
if os.path.exists(f"{src}/notes_{k}.md"):
    shutil.copy(f"{src}/notes_{k}.md", f"{dst}/notes.md")
meta = dict(property=pid, breaks=pid, needs_to_manifest=needs,
            confirmed=dict(demo_on_unchanged_repo="exit 0", demo_with_change="exit != 0",
                           baseline_with_change="215/215 stable tests pass",
                           how="tools/try_seeded.py <patch> %s --demo <demo> --baseline (scratch worktree of /repo HEAD), later re-run with --in-repo" % pid),
            detected_by_check=det, detected_by=by)
json.dump(meta, open(f"{dst}/meta.json", "w"), indent=1)
print("kept", dst)
