#!/usr/bin/env python3
"""tools/merge_agent.py Cxx [--apply]

Show (and with --apply copy) what a sub-agent produced in /tmp/ag/Cxx/verif
relative to /verif.  Files that need a manual merge are listed, not copied."""
import filecmp
import os
import shutil
import subprocess
import sys

pid = sys.argv[1]
apply = "--apply" in sys.argv
src = f"/tmp/ag/{pid}/verif"
dst = "/verif"
MANUAL = {"lean/Main.lean", "lean/Cfdm.lean", "known_findings.json", "tools/manifest_table.py", "MANIFEST.json",
          "DESIGN.md", "harness/fw.py", "check", "tools/AGENT_GUIDE.md", "lean/lakefile.toml", ".gitignore"}
SKIP_DIRS = {".lake", "evidence", "replays", "__pycache__", ".git"}
new, changed, manual = [], [], []
for root, dirs, files in os.walk(src):
    dirs[:] = [d for d in dirs if d not in SKIP_DIRS]
    for f in files:
        if f.endswith(".pyc"):
            continue
        p = os.path.join(root, f)
        rel = os.path.relpath(p, src)
        q = os.path.join(dst, rel)
        if rel in MANUAL:
            if not os.path.exists(q) or not filecmp.cmp(p, q, shallow=False):
                manual.append(rel)
            continue
        if not os.path.exists(q):
            new.append(rel)
        elif not filecmp.cmp(p, q, shallow=False):
            changed.append(rel)
print("NEW:", *new, sep="\n  ")
print("CHANGED (existing shared files!):", *changed, sep="\n  ")
print("MANUAL:", *manual, sep="\n  ")
if apply:
    todo = new + (changed if "--apply-changed" in sys.argv else [r for r in changed if pid in os.path.basename(r)])
    for rel in todo:
        os.makedirs(os.path.dirname(os.path.join(dst, rel)), exist_ok=True)
        shutil.copy2(os.path.join(src, rel), os.path.join(dst, rel))
    print("copied", len(todo), "files")
for rel in manual:
    if rel in ("lean/Main.lean", "lean/Cfdm.lean", "known_findings.json", "tools/manifest_table.py", "harness/fw.py", "check"):
        print(f"---- diff {rel}")
        subprocess.run(["diff", os.path.join(dst, rel), os.path.join(src, rel)])
