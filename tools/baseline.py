#!/venv/bin/python
"""Run the repository's pinned baseline (guard OFF) and compare with /root/.vp/BASELINE.json.
Exit 0 iff every stable_pass test still passes."""
import json, os, subprocess, sys, tempfile
import xml.etree.ElementTree as ET

base = json.load(open("/root/.vp/BASELINE.json"))
repo = sys.argv[1] if len(sys.argv) > 1 else "/repo"
env = dict(os.environ)
env.pop("NCAS_CMS_CFDM_VERIF", None)
if repo != "/repo":
    env["PYTHONPATH"] = repo
with tempfile.TemporaryDirectory() as d:
    xml = os.path.join(d, "r.xml")
    subprocess.run(
        ["/venv/bin/python", "-m", "pytest", "-ra", "-q", "-p", "no:cacheprovider", "--timeout=900",
         "--continue-on-collection-errors", f"--junitxml={xml}"],
        cwd=repo, env=env, stdout=subprocess.DEVNULL, stderr=subprocess.DEVNULL)
    passed = set()
    for tc in ET.parse(xml).getroot().iter("testcase"):
        if not any(ch.tag in ("failure", "error", "skipped") for ch in tc):
            passed.add(f"{tc.get('classname')}::{tc.get('name')}")
missing = [t for t in base["stable_pass"] if t not in passed]
print(f"baseline: {len(base['stable_pass']) - len(missing)}/{len(base['stable_pass'])} stable tests pass; newly passing: {len(passed - set(base['stable_pass']))}")
for t in missing:
    print("MISSING", t)
sys.exit(1 if missing else 0)
