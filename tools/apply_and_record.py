#!/usr/bin/env python3
"""tools/apply_and_record.py Cxx slug=sig1,sig2 [slug=sig ...]

Apply fixes/Cxx-<slug>.patch to /repo as one `fix:` commit each (message fixes/Cxx-<slug>.msg), run the pinned
baseline once at the end, mark the named known findings `fixed: <commit>` and refresh anchors.lock.json."""
import json, os, subprocess, sys
H = os.path.dirname(os.path.dirname(os.path.abspath(__file__)))
pid = sys.argv[1]
done = {}
for arg in sys.argv[2:]:
    slug, sigs = arg.split("=")
    patch, msg = f"{H}/fixes/{pid}-{slug}.patch", f"{H}/fixes/{pid}-{slug}.msg"
    assert open(msg).read().startswith("fix:"), msg
    subprocess.run(["git", "-C", "/repo", "apply", "--check", patch], check=True)
    subprocess.run(["git", "-C", "/repo", "apply", patch], check=True)
    subprocess.run(["git", "-C", "/repo", "commit", "-qa", "-F", msg], check=True)
    sha = subprocess.run(["git", "-C", "/repo", "rev-parse", "--short", "HEAD"], stdout=subprocess.PIPE, text=True).stdout.strip()
    print("committed", sha, slug)
    for s in sigs.split(","):
        if s:
            done[s] = sha
b = subprocess.run([f"{H}/tools/baseline.py"], stdout=subprocess.PIPE, text=True)
print(b.stdout.strip().splitlines()[0])
if b.returncode:
    sys.exit("BASELINE BROKEN - revert the commits")
k = json.load(open(f"{H}/known_findings.json"))
for f in k["findings"]:
    if f["property"] == pid and f["signature"] in done:
        f["status"] = "fixed: " + done.pop(f["signature"])
json.dump(k, open(f"{H}/known_findings.json", "w"), indent=1, ensure_ascii=False)
if done:
    print("WARNING: signatures not found in known_findings.json:", done)
subprocess.run([f"{H}/tools/update_anchor_lock.py"], check=True)
