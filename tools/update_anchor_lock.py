#!/venv/bin/python
"""tools/update_anchor_lock.py — record the docstring-insensitive digest of every cfdm source file at /repo HEAD.
Run after every commit to /repo (fix: commits); ./check compares the working tree with it and deepens the quick
tier when they differ (never a verdict)."""
import json, os, subprocess, sys
HERE = os.path.dirname(os.path.dirname(os.path.abspath(__file__)))
sys.path.insert(0, HERE)
from harness import fw
head = subprocess.run(["git", "-C", "/repo", "rev-parse", "--short", "HEAD"], stdout=subprocess.PIPE, text=True).stdout.strip()
dirty = subprocess.run(["git", "-C", "/repo", "status", "--porcelain", "--untracked-files=no"], stdout=subprocess.PIPE, text=True).stdout.strip()
if dirty:
    sys.exit("refusing: /repo has uncommitted changes to tracked files")
json.dump(dict(repo_head=head, digests=fw.source_digests("/repo")), open(os.path.join(HERE, "anchors.lock.json"), "w"), indent=1, sort_keys=True)
print("anchors.lock.json written for", head)
