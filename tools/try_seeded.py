#!/usr/bin/env python3
"""tools/try_seeded.py <patch.diff> <Cxx> [--demo demo.py] [--tier quick] [--in-repo]

Apply a seeded breaking change and run ./check Cxx against it.
Default: in a scratch git worktree of /repo (so that /repo itself is undisturbed);
--in-repo: `git -C /repo apply`, run, `git -C /repo checkout -- .` (the official way).
Prints the VIOLATION/KNOWN lines and the exit code.  Always cleans up."""
import os
import subprocess
import sys
import tempfile

patch = os.path.abspath(sys.argv[1])
pid = sys.argv[2]
demo = sys.argv[sys.argv.index("--demo") + 1] if "--demo" in sys.argv else None
tier = sys.argv[sys.argv.index("--tier") + 1] if "--tier" in sys.argv else "quick"
in_repo = "--in-repo" in sys.argv
env = dict(os.environ)


def run(cmd, **kw):
    return subprocess.run(cmd, stdout=subprocess.PIPE, stderr=subprocess.STDOUT, text=True, **kw)


if in_repo:
    wt = "/repo"
    r = run(["git", "-C", "/repo", "apply", patch])
    if r.returncode:
        print("patch does not apply:", r.stdout)
        sys.exit(2)
else:
    wt = tempfile.mkdtemp(prefix="seedtry_")
    os.rmdir(wt)
    run(["git", "-C", "/repo", "worktree", "add", "-q", "--detach", wt, "HEAD"])
    r = run(["git", "-C", wt, "apply", patch])
    if r.returncode:
        print("patch does not apply:", r.stdout)
        run(["git", "-C", "/repo", "worktree", "remove", "--force", wt])
        sys.exit(2)
    env["PYTHONPATH"] = wt
    env["CFDM_REPO"] = wt
try:
    if demo:
        d = run(["/venv/bin/python", demo], env=env, cwd=wt)
        print(f"demo with change: exit {d.returncode}: {d.stdout.strip().splitlines()[-1:] }")
    if demo:
        d0 = run(["/venv/bin/python", demo], cwd="/repo")
        print(f"demo on unchanged /repo: exit {d0.returncode}")
    if "--baseline" in sys.argv:
        b = run(["/verif/tools/baseline.py", wt])
        print(b.stdout.strip().splitlines()[0] if b.stdout.strip() else "baseline: no output", "-> exit", b.returncode)
    c = run(["/verif/check", pid, "--tier", tier], env=env, cwd="/verif")
    lines = [l for l in c.stdout.splitlines() if l.startswith(("VIOLATION", "HARNESS", pid + " "))]
    print("\n".join(lines[-6:]))
    print("check exit", c.returncode)
finally:
    if in_repo:
        run(["git", "-C", "/repo", "checkout", "--", "."])
    else:
        run(["git", "-C", "/repo", "worktree", "remove", "--force", wt])
sys.exit(0 if c.returncode == 1 else 3)
