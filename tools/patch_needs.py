#!/usr/bin/env python3
"""Fill needs_to_manifest of the round-2 seeded changes from tools/needs_round2.json."""
import json, os
H = os.path.dirname(os.path.dirname(os.path.abspath(__file__)))
n = json.load(open(os.path.join(H, "tools", "needs_round2.json")))
for sid, text in n.items():
    p = os.path.join(H, "seeded", sid, "meta.json")
    if os.path.exists(p):
        m = json.load(open(p)); m["needs_to_manifest"] = text; m["round"] = 2
        json.dump(m, open(p, "w"), indent=1)
