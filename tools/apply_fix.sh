#!/bin/bash
# tools/apply_fix.sh <patch> <msg-file>   — apply a proposed fix to /repo as one commit
set -e
cd /repo
git apply --check "$1"
git apply "$1"
git commit -qa -F "$2"
git log --oneline | head -1
/verif/tools/update_anchor_lock.py
