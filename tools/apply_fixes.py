#!/usr/bin/env python3
"""tools/apply_fixes.py Cxx [--no-baseline]

Apply every proposed repair fixes/Cxx-*.patch that is not yet in /repo as ONE `fix:` commit each
(message = fixes/Cxx-*.msg), run the pinned baseline once at the end (tools/baseline.py), and flip
the known_findings.json entries that name the patch file to `fixed: <commit>`.  Stops (and undoes
nothing) when a patch does not apply; reverts the new commits when the baseline fails."""
import glob
import json
import os
import re
import subprocess
import sys

HERE = os.path.dirname(os.path.dirname(os.path.abspath(__file__)))
pid = sys.argv[1]


def run(cmd, **kw):
    return subprocess.run(cmd, stdout=subprocess.PIPE, stderr=subprocess.STDOUT, text=True, **kw)


head0 = run(["git", "-C", "/repo", "rev-parse", "HEAD"]).stdout.strip()
done = {}
for patch in sorted(glob.glob(os.path.join(HERE, "fixes", f"{pid}-*.patch"))):
    msg = patch[:-6] + ".msg"
    name = os.path.basename(patch)
    if run(["git", "-C", "/repo", "apply", "--check", "--reverse", patch]).returncode == 0:
        print("already applied:", name)
        continue
    r = run(["git", "-C", "/repo", "apply", "--check", patch])
    if r.returncode and "--3way" not in sys.argv:
        print("DOES NOT APPLY (no --3way):", name, r.stdout.strip()[:200])
        continue
    if r.returncode:
        r3 = run(["git", "-C", "/repo", "apply", "--3way", patch])
        if r3.returncode:
            print("DOES NOT APPLY:", name, r.stdout.strip()[:300])
            run(["git", "-C", "/repo", "checkout", "--", "."])
            continue
        print("applied with --3way:", name)
    else:
        run(["git", "-C", "/repo", "apply", patch])
    text = open(msg).read()
    if not text.startswith("fix:"):
        print("message does not start with fix:", name)
        run(["git", "-C", "/repo", "checkout", "--", "."])
        continue
    st = run(["git", "-C", "/repo", "status", "--short"]).stdout
    if any(("test" in l.split()[-1]) for l in st.splitlines()):
        print("patch touches tests, refused:", name, st)
        run(["git", "-C", "/repo", "checkout", "--", "."])
        continue
    run(["git", "-C", "/repo", "add", "-A"])
    c = run(["git", "-C", "/repo", "commit", "-q", "-F", msg])
    h = run(["git", "-C", "/repo", "log", "--format=%h", "-1"]).stdout.strip()
    done[name] = h
    print("committed", h, name)

if done and "--no-baseline" not in sys.argv:
    b = run([os.path.join(HERE, "tools", "baseline.py")])
    print(b.stdout.strip().splitlines()[0] if b.stdout.strip() else "baseline: no output")
    if b.returncode:
        print(b.stdout[-2000:])
        print("BASELINE FAILED: resetting /repo to", head0)
        run(["git", "-C", "/repo", "reset", "--hard", head0])
        sys.exit(1)

kf_path = os.path.join(HERE, "known_findings.json")
kf = json.load(open(kf_path))
for name, h in done.items():
    hit = False
    for k in kf["findings"]:
        if (k["property"] == pid and name in k.get("description", "") and k["status"] == "open"
                and "no patch" not in k.get("description", "").lower()):
            k["status"] = f"fixed: {h}"
            hit = True
            print("finding fixed:", k["signature"], h)
    if not hit:
        print("!! no open finding names", name, "- flip it by hand")
json.dump(kf, open(kf_path, "w"), indent=1)
