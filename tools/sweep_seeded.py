#!/usr/bin/env python3
"""tools/sweep_seeded.py [ids...] [--seeds 1,2,3] [--tier quick]

For every kept seeded change (seeded/<id>/patch.diff) run its property's check against a scratch
worktree of /repo HEAD with the change applied, for several seeds, and print which runs reported a
VIOLATION.  Nothing under /verif/seeded is modified; evidence files are restored afterwards
(the checks rewrite them).  A patch that no longer applies to HEAD is reported as such."""
import json
import os
import subprocess
import sys
import tempfile

HERE = os.path.dirname(os.path.dirname(os.path.abspath(__file__)))
opt = lambda k, d: sys.argv[sys.argv.index(k) + 1] if k in sys.argv else d
_vals = {sys.argv[i + 1] for i, a in enumerate(sys.argv[:-1]) if a in ("--seeds", "--tier")}
args = [a for a in sys.argv[1:] if not a.startswith("--") and a not in _vals]
seeds = [int(s) for s in opt("--seeds", "1,2").split(",")]
tier = opt("--tier", "quick")
ids = args or sorted(d for d in os.listdir(os.path.join(HERE, "seeded")) if os.path.exists(os.path.join(HERE, "seeded", d, "patch.diff")))


def run(cmd, **kw):
    return subprocess.run(cmd, stdout=subprocess.PIPE, stderr=subprocess.STDOUT, text=True, **kw)


rows = []
for sid in ids:
    d = os.path.join(HERE, "seeded", sid)
    meta = json.load(open(os.path.join(d, "meta.json")))
    pid = meta["property"]
    if meta.get("detected_by_check") == "pending" or not os.path.exists(os.path.join(HERE, "harness", "corr", pid + ".py")):
        continue
    wt = tempfile.mkdtemp(prefix="seedsweep_")
    os.rmdir(wt)
    run(["git", "-C", "/repo", "worktree", "add", "-q", "--detach", wt, "HEAD"])
    try:
        r = run(["git", "-C", wt, "apply", os.path.join(d, "patch.diff")])
        if r.returncode:
            rows.append((sid, "patch does not apply to HEAD"))
            continue
        env = dict(os.environ, PYTHONPATH=wt, CFDM_REPO=wt)
        res = []
        for s in seeds:
            c = run([os.path.join(HERE, "check"), pid, "--tier", tier, "--seed", str(s)], env=env, cwd=HERE)
            v = sum(1 for l in c.stdout.splitlines() if l.startswith("VIOLATION"))
            res.append(f"seed {s}: exit {c.returncode}, {v} VIOLATION line(s)")
        rows.append((sid, "; ".join(res)))
    finally:
        run(["git", "-C", "/repo", "worktree", "remove", "--force", wt])
    print(rows[-1], flush=True)
run(["git", "-C", HERE, "checkout", "--", "evidence"])
missed = [r for r in rows if "exit 0" in r[1]]
print(f"{len(rows)} seeded changes x {len(seeds)} seeds; runs that missed: {len(missed)}")
for r in missed:
    print("MISSED", r)
