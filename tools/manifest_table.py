NOT_BUILT = {}
add("C03", "DESIGN.md §4 C03",
    "Lean 4 theorems on a model of _parse_indices/_index/_set_subspace + differential correspondence + numpy oracle",
    "Proved for all sizes/indices on the model: every selector picks in-range positions; applying list axes one at a time in ANY order equals the per-axis (orthogonal) take; the pairwise slice decomposition of _set_subspace reproduces sequential assignment on an axis for every in-range list (negative, unsorted, repeated); slice bounds-reversal rule = cells decreasing. The model is tied to /repo by running both on the same generated index expressions every run.",
    "Trusted: Lean kernel + 3 standard axioms; the hand model (policed by the sampled correspondence: get/set/bounds-reversal streams against Data, netcdf_indexer and file-backed data); numpy as reference semantics. N-d composition of the per-axis assignment theorem, dtypes and masks are covered by correspondence/oracle only.")
