#!/usr/bin/env python3
"""tools/eval_seeded.py <Cxx> <n> [--src /tmp/seed/out] [--tier quick] [--no-baseline] [--check Cyy]

Confirm and evaluate one seeded breaking change delivered by a sub-agent in
<src>/<Cxx>/<n>/{patch.diff,demo.py,notes.md}:

  1. demo on unchanged /repo            must exit 0
  2. scratch worktree of /repo HEAD + patch: demo must exit != 0
  3. the 215 stable tests must still pass there (tools/baseline.py)
  4. ./check <Cxx> against the scratch worktree (CFDM_REPO/PYTHONPATH) -> detected?

and keep it as /verif/seeded/<Cxx>-<n>/ (patch.diff, demo.py, notes.md, meta.json).
A change that fails 1-3 is not kept (reported only).  The scratch worktree is removed.
"""
import json
import os
import shutil
import subprocess
import sys
import tempfile

pid, n = sys.argv[1], sys.argv[2]
arg = lambda k, d=None: sys.argv[sys.argv.index(k) + 1] if k in sys.argv else d
src = os.path.join(arg("--src", "/tmp/seed/out"), pid, n)
tier = arg("--tier", "quick")
check_pid = arg("--check", pid)
patch, demo = os.path.join(src, "patch.diff"), os.path.join(src, "demo.py")


def run(cmd, **kw):
    return subprocess.run(cmd, stdout=subprocess.PIPE, stderr=subprocess.STDOUT, text=True, **kw)


res = {}
clean_env = dict(os.environ, PYTHONPATH="/repo")
d0 = run(["/venv/bin/python", demo], cwd=src, env=clean_env)
res["demo_on_unchanged_repo"] = f"exit {d0.returncode}"
wt = tempfile.mkdtemp(prefix="seedeval_")
os.rmdir(wt)
run(["git", "-C", "/repo", "worktree", "add", "-q", "--detach", wt, "HEAD"])
try:
    r = run(["git", "-C", wt, "apply", patch])
    if r.returncode:
        print("patch does not apply:", r.stdout)
        sys.exit(2)
    env = dict(os.environ, PYTHONPATH=wt, CFDM_REPO=wt)
    d1 = run(["/venv/bin/python", demo], cwd=src, env=env)
    res["demo_with_change"] = f"exit {d1.returncode}: " + " / ".join(d1.stdout.strip().splitlines()[-2:])[:300]
    if "--no-baseline" not in sys.argv:
        b = run(["/verif/tools/baseline.py", wt])
        res["baseline_with_change"] = (b.stdout.strip().splitlines() or ["no output"])[0] + f" (exit {b.returncode})"
        base_ok = b.returncode == 0
    else:
        res["baseline_with_change"] = "not re-run (sub-agent reported 215/215)"
        base_ok = True
    valid = d0.returncode == 0 and d1.returncode != 0 and base_ok
    print(json.dumps(res, indent=1))
    if not valid:
        print("NOT a valid seeded change (see above); not kept")
        sys.exit(3)
    c = run(["/verif/check", check_pid, "--tier", tier], env=env, cwd="/verif")
    lines = [l for l in c.stdout.splitlines() if l.startswith(("VIOLATION", "HARNESS", "KNOWN-FINDING", check_pid + " "))]
    print("\n".join(l[:400] for l in lines[-8:]))
    print("check exit", c.returncode)
    viol = [l for l in lines if l.startswith("VIOLATION")]
    detected = "yes" if c.returncode == 1 and viol else "no"
    replay_info = ""
    if viol:
        rp = viol[0].split("replay=")[1].split()[0]
        try:
            body = json.load(open(rp))
            replay_info = f"stream={body.get('stream')} signature={body.get('signature')} kind={body.get('kind')}: {str(body.get('detail'))[:300]}"
        except Exception:
            pass
    dst = f"/verif/seeded/{pid}-{n}"
    os.makedirs(dst, exist_ok=True)
    shutil.copy(patch, f"{dst}/patch.diff")
    shutil.copy(demo, f"{dst}/demo.py")
    if os.path.exists(os.path.join(src, "notes.md")):
        shutil.copy(os.path.join(src, "notes.md"), f"{dst}/notes.md")
    old = {}
    if os.path.exists(f"{dst}/meta.json"):
        old = json.load(open(f"{dst}/meta.json"))
    meta = dict(
        property=pid, breaks=pid,
        needs_to_manifest=old.get("needs_to_manifest", "see notes.md"),
        confirmed=dict(res, how=f"tools/eval_seeded.py {pid} {n} (scratch git worktree of /repo HEAD, removed afterwards)"),
        ran=f"./check {check_pid} --tier {tier} with CFDM_REPO/PYTHONPATH pointing at the patched worktree",
        detected_by_check=detected,
        detected_by=(viol[0][:200] + " | " + replay_info) if viol else f"check exit {c.returncode}, no VIOLATION line",
        check_summary=[l[:300] for l in lines[-3:]],
    )
    json.dump(meta, open(f"{dst}/meta.json", "w"), indent=1)
    print("kept", dst, "detected:", detected)
finally:
    run(["git", "-C", "/repo", "worktree", "remove", "--force", wt])
    shutil.rmtree(wt, ignore_errors=True)
