#!/usr/bin/env python3
"""tools/sweep_clean.py [--seeds 2,3,4,5] [--tier quick] [--boost] [ids...]

--boost forces the deepened quick tier (x4 budget, 16 workers) that ./check uses on a changed tree.

Run every claimed check on the UNCHANGED /repo for several seeds and list every run that did not
exit 0 (a VIOLATION on the unchanged tree is either a genuine defect or a false alarm and must be
triaged; exit 2 is a harness error / timeout).  Evidence files are restored afterwards.  Meant to be
started with `vp run -- python3 tools/sweep_clean.py` (builds the Lean project first when absent)."""
import json, os, subprocess, sys, time
HERE = os.path.dirname(os.path.dirname(os.path.abspath(__file__)))
opt = lambda k, d: sys.argv[sys.argv.index(k) + 1] if k in sys.argv else d
_vals = {sys.argv[i + 1] for i, a in enumerate(sys.argv[:-1]) if a in ("--seeds", "--tier")}
ids = [a for a in sys.argv[1:] if not a.startswith("--") and a not in _vals]
seeds = [int(s) for s in opt("--seeds", "2,3,4,5").split(",")]
tier = opt("--tier", "quick")
m = json.load(open(os.path.join(HERE, "MANIFEST.json")))
ids = ids or [c["property_id"] for c in m["checks"]]
if not os.path.exists(os.path.join(HERE, "lean", ".lake", "build", "bin", "cfdm_model")):
    subprocess.run(m["setup_cmd"], shell=True, cwd=HERE, check=True)
bad = []
for s in seeds:
    for pid in ids:
        t = time.time()
        env = dict(os.environ, VERIF_FORCE_BOOST="1") if "--boost" in sys.argv else None
        r = subprocess.run([os.path.join(HERE, "check"), pid, "--tier", tier, "--seed", str(s)], cwd=HERE, env=env,
                           stdout=subprocess.PIPE, stderr=subprocess.STDOUT, text=True)
        lines = [l for l in r.stdout.splitlines() if l.startswith(("VIOLATION", "HARNESS", pid + " "))]
        print(f"{pid} seed={s} exit={r.returncode} {time.time() - t:.0f}s | " + " | ".join(l[:260] for l in lines[-3:]), flush=True)
        if r.returncode != 0:
            bad.append((pid, s, r.returncode))
            with open(os.path.join(HERE, f"sweep_{pid}_{s}.log"), "w") as f:
                f.write(r.stdout)
subprocess.run(["git", "-C", HERE, "checkout", "--", "evidence"])
print("NOT CLEAN:", bad)
