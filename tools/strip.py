import ast, sys
src = open(sys.argv[1]).read()
tree = ast.parse(src)
names = set(sys.argv[2:])
class T(ast.NodeTransformer):
    def visit_FunctionDef(self, n):
        self.generic_visit(n)
        if n.body and isinstance(n.body[0], ast.Expr) and isinstance(getattr(n.body[0],'value',None), ast.Constant) and isinstance(n.body[0].value.value,str):
            n.body = n.body[1:] or [ast.Pass()]
        return n
    visit_ClassDef = visit_FunctionDef
    def visit_Expr(self, n):
        v = n.value
        if isinstance(v, ast.Call) and isinstance(v.func, ast.Attribute) and isinstance(v.func.value, ast.Name) and v.func.value.id == 'logger':
            return None
        return n
tree = T().visit(tree)
ast.fix_missing_locations(tree)
if not names:
    print(ast.unparse(tree))
else:
    for node in ast.walk(tree):
        if isinstance(node,(ast.FunctionDef,ast.ClassDef)) and node.name in names:
            print(ast.unparse(node)); print()
