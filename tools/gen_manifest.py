#!/usr/bin/env python3
"""Regenerate MANIFEST.json from the table below (run after adding a property check)."""
import json, os, subprocess
HERE = os.path.dirname(os.path.dirname(os.path.abspath(__file__)))
props = [json.loads(l) for l in open(os.path.join(HERE, "properties.jsonl"))]

# id -> (design section, technique, level text, level note)
CHECKS = {}
def add(pid, ref, technique, text, note):
    CHECKS[pid] = (ref, technique, text, note)

exec(open(os.path.join(HERE, "tools", "manifest_table.py")).read())

NOT_YET = {}
# checks that exist but are withheld from the manifest for the moment (id -> reason), tools/pending.json
_pf = os.path.join(HERE, "tools", "pending.json")
PENDING = json.load(open(_pf)) if os.path.exists(_pf) else {}
checks = []
for p in props:
    pid = p["id"]
    if pid not in CHECKS or pid in PENDING:
        continue
    ref, technique, text, note = CHECKS[pid]
    checks.append(dict(
        property_id=pid,
        quick_cmd=f"./check {pid} --tier quick",
        thorough_cmd=f"./check {pid} --tier thorough",
        evidence_file=f"evidence/{pid}.json",
        replay_cmd_template=f"./check {pid} --replay {{path}}",
        engine="lean4-proof+correspondence",
        level_claimed=dict(category="proof", text=text, design_ref=ref),
        level_note=note,
        technique=technique,
    ))
hooks_commits = []
m = dict(
    version=1,
    setup_cmd="cd lean && lake build Cfdm cfdm_model",
    hooks=dict(
        guard="NCAS_CMS_CFDM_VERIF",
        enable="no source hooks: the harness imports cfdm from /repo (editable install) and instruments it from outside; the variable is set by ./check for uniformity",
        baseline_off_cmd="/verif/tools/baseline.py",
        source_commits=hooks_commits,
        add_only=True,
    ),
    engines=[dict(name="lean4-proof+correspondence", path="check",
                  serves_properties=sorted(p for p in CHECKS if p not in PENDING),
                  kind_free_text="Lean 4 theorems about hand-written executable models (lean/Cfdm/Props), tied to /repo on every run by a differential correspondence check against the compiled model driver plus an independent oracle; tables regenerated from /repo")],
    checks=checks,
    notes="See DESIGN.md. Every check: lake build + axiom audit of Cfdm.Props.<id>, then correspondence (implementation vs Lean model driver on the same seeded inputs), then an independent oracle; known findings in known_findings.json.",
    not_applicable=[dict(property_id=p["id"], reason=PENDING.get(p["id"], NOT_BUILT.get(p["id"], "check not built yet in this session; see DESIGN.md §4 for the planned model"))) for p in props if p["id"] not in CHECKS or p["id"] in PENDING],
)
json.dump(m, open(os.path.join(HERE, "MANIFEST.json"), "w"), indent=1)
print("checks:", [c["property_id"] for c in checks], "not_applicable:", [n["property_id"] for n in m["not_applicable"]])
