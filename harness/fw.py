"""Common machinery for every property check.

A property check = (A) Lean obligations (build + axiom audit of Cfdm.Props.Cxx)
                 + (B) correspondence: same inputs through the real cfdm and
                       through the Lean model driver, diff on observables
                 + (C) a direct, independent oracle on every case
                 + failing-input search / shrinking / known-finding matching
                 + evidence/<id>.json.

Exit codes: 0 property held on everything explored; 1 violation (a line
``VIOLATION property=<id> replay=<path>`` was printed); 2 harness problem.
"""
import collections
import fcntl
import hashlib
import json
import os
import random
import re
import subprocess
import sys
import time
import traceback
from pathlib import Path

VERIF = Path(__file__).resolve().parent.parent
LEAN = VERIF / "lean"
REPO = Path(os.environ.get("CFDM_REPO", "/repo"))
EXE = LEAN / ".lake" / "build" / "bin" / "cfdm_model"
ALLOWED_AXIOMS = {"propext", "Classical.choice", "Quot.sound"}
FORBIDDEN = re.compile(
    r"\bsorry\b|\badmit\b|^axiom\s|native_decide|bv_decide|implemented_by|"
    r"\bunsafe\s|maxHeartbeats\s+0"
)
TRUSTED_BASE = [
    "Lean 4.33.0 kernel (thorough tier re-checks the .olean files with leanchecker)",
    "axioms: subset of {propext, Classical.choice, Quot.sound}; no native_decide, no bv_decide, no sorry, no own axioms (audited on every run)",
    "hand-written Lean model of the anchored code; tie to /repo is the correspondence check of this run (sampled, counts below) plus tables regenerated from /repo",
    "the Python harness: generators, canonicalisation, the independent oracle",
    "reference semantics used by oracles: numpy, netCDF4-python, HDF5/netCDF-C",
]


class HarnessError(Exception):
    pass


# --------------------------------------------------------------------------
# Lean side
# --------------------------------------------------------------------------
def _lock():
    LEAN.joinpath(".lake").mkdir(exist_ok=True)
    f = open(LEAN / ".lake" / "verif.lock", "w")
    fcntl.flock(f, fcntl.LOCK_EX)
    return f


def lake(args, timeout=1800):
    """Run lake under an exclusive lock; returns (rc, output)."""
    lk = _lock()
    try:
        p = subprocess.run(
            ["lake"] + list(args),
            cwd=LEAN,
            stdout=subprocess.PIPE,
            stderr=subprocess.STDOUT,
            text=True,
            timeout=timeout,
        )
        return p.returncode, p.stdout
    finally:
        lk.close()


def write_if_changed(path, text):
    path = Path(path)
    if path.exists() and path.read_text() == text:
        return False
    path.parent.mkdir(parents=True, exist_ok=True)
    path.write_text(text)
    return True


def lean_strip_comments(src):
    # remove /- ... -/ (non-nested is enough for our sources) and -- comments
    src = re.sub(r"/-.*?-/", "", src, flags=re.S)
    src = re.sub(r"--.*", "", src)
    return src


def forbidden_hits(files):
    hits = []
    for f in files:
        txt = lean_strip_comments(Path(f).read_text())
        for i, line in enumerate(txt.splitlines(), 1):
            if FORBIDDEN.search(line):
                hits.append(f"{f}:{i}:{line.strip()[:80]}")
    return hits


def lean_sources():
    return sorted(
        str(p)
        for p in LEAN.rglob("*.lean")
        if ".lake" not in p.parts
    )


def prop_theorems(pid):
    """Names of the theorems stated in Cfdm/Props/<pid>.lean."""
    f = LEAN / "Cfdm" / "Props" / f"{pid}.lean"
    if not f.exists():
        return []
    txt = lean_strip_comments(f.read_text())
    return re.findall(r"^theorem\s+([A-Za-z0-9_.']+)", txt, flags=re.M)


def build_and_audit(pid, required):
    """Build the property module + driver, audit axioms.

    Returns dict(ok, build_ok, log, theorems={name: [axioms]}, problems=[...]).
    """
    res = dict(ok=False, build_ok=False, log="", theorems={}, problems=[])
    rc, out = lake(["build", f"Cfdm.Props.{pid}", "cfdm_model"])
    res["log"] = out[-4000:]
    if rc != 0:
        res["problems"].append("lake build failed: " + _first_error(out))
        # does the driver alone still build?
        rc2, _ = lake(["build", "cfdm_model"])
        res["driver_ok"] = rc2 == 0
        return res
    res["build_ok"] = True
    res["driver_ok"] = True
    names = prop_theorems(pid)
    missing = [t for t in required if t not in names]
    if missing:
        res["problems"].append("required theorems missing: " + ", ".join(missing))
    hits = forbidden_hits(lean_sources())
    if hits:
        res["problems"].append("forbidden constructs: " + "; ".join(hits[:5]))
    # axiom audit through a generated file
    audit = LEAN / ".lake" / f"audit_{pid}.lean"
    ns = f"Cfdm.Props.{pid}"
    body = [f"import Cfdm.Props.{pid}"] + [f"#print axioms {ns}.{t}" for t in names]
    audit.write_text("\n".join(body) + "\n")
    rc, out = lake(["env", "lean", str(audit)])
    if rc != 0:
        res["problems"].append("audit failed: " + _first_error(out))
        return res
    cur = None
    blocks = re.split(r"(?=^'[^']+' )", out, flags=re.M)
    for b in blocks:
        m = re.match(r"'([^']+)' (depends on axioms: \[(.*?)\]|does not depend on any axioms)", b, flags=re.S)
        if not m:
            continue
        name = m.group(1).split(".")[-1]
        axs = [a.strip() for a in (m.group(3) or "").replace("\n", " ").split(",") if a.strip()]
        res["theorems"][name] = axs
        bad = [a for a in axs if a not in ALLOWED_AXIOMS]
        if bad:
            res["problems"].append(f"theorem {name} depends on {bad}")
    for t in names:
        if t not in res["theorems"]:
            res["problems"].append(f"no audit output for {t}")
    res["ok"] = not res["problems"]
    return res


def _first_error(out):
    for line in out.splitlines():
        if "error" in line:
            return line.strip()[:300]
    return out.strip()[-300:]


def leanchecker(pid):
    rc, out = lake(["env", "leanchecker", f"Cfdm.Props.{pid}"], timeout=3600)
    return rc == 0, out[-500:]


_model_proc = None


def model_run(lines):
    """Pipe lines through the model driver; returns the list of output lines."""
    if not lines:
        return []
    for l in lines:
        if "\n" in l:
            raise HarnessError("newline inside a protocol line")
    data = "\n".join(lines) + "\n"
    if EXE.exists():
        cmd = [str(EXE)]
        p = subprocess.run(cmd, input=data, stdout=subprocess.PIPE, stderr=subprocess.PIPE, text=True, timeout=3600)
    else:
        lk = _lock()
        try:
            p = subprocess.run(
                ["lake", "env", "lean", "--run", "Main.lean"],
                cwd=LEAN, input=data, stdout=subprocess.PIPE, stderr=subprocess.PIPE, text=True, timeout=3600,
            )
        finally:
            lk.close()
    if p.returncode != 0:
        raise HarnessError(f"model driver failed: {p.stderr[-400:]}")
    out = p.stdout.split("\n")
    if out and out[-1] == "":
        out.pop()
    if len(out) != len(lines):
        raise HarnessError(f"model driver returned {len(out)} lines for {len(lines)} inputs")
    return out


# --------------------------------------------------------------------------
# Cases and the runner
# --------------------------------------------------------------------------
class Case:
    """One generated case.

    stream   name of the correspondence stream (e.g. 'C03.get')
    payload  JSON-able full description (what the replay file stores)
    line     the protocol line for the Lean driver (may be None: oracle only)
    key      hashable identity for distinctness counting
    nontrivial  by the module's stated rule
    tags     strings counted into the input distribution
    """

    __slots__ = ("stream", "payload", "line", "key", "nontrivial", "tags", "impl_out", "model_out", "oracle_fail", "extra")

    def __init__(self, stream, payload, line=None, key=None, nontrivial=True, tags=()):
        self.stream = stream
        self.payload = payload
        self.line = line
        self.key = key if key is not None else json.dumps(payload, sort_keys=True, default=str)
        self.nontrivial = nontrivial
        self.tags = tuple(tags)
        self.impl_out = None
        self.model_out = None
        self.oracle_fail = None
        self.extra = None


def exc_enum(e):
    for t in (KeyError, IndexError, ValueError, TypeError, AttributeError, NotImplementedError, OSError):
        if isinstance(e, t):
            return t.__name__
    return "other:" + type(e).__name__


def known_findings():
    f = VERIF / "known_findings.json"
    if not f.exists():
        return []
    return json.loads(f.read_text())["findings"]


MAX_VIOLATION_LINES = 10


class Run:
    def __init__(self, pid, module, tier, seed, replay=None):
        self.pid = pid
        self.mod = module
        self.tier = tier
        self.seed = seed
        self.t0 = time.time()
        self.evaluations = 0
        self.distinct = set()
        self.dist = collections.Counter()
        self.samples = []
        self.failures = []  # (case, kind, detail)
        self.drift = []
        self.notes = []
        self.lean = None

    # ---- correspondence + oracle over a batch of cases
    def process(self, cases, use_model=True):
        cases = list(cases)
        for c in cases:
            try:
                c.impl_out = self.mod.impl(c)
            except HarnessError:
                raise
            except Exception as e:  # the implementation raised where the harness did not expect it
                c.impl_out = "raised:" + exc_enum(e)
                c.extra = traceback.format_exc()[-1500:]
        lines = [(i, c.line) for i, c in enumerate(cases) if c.line is not None]
        if use_model and lines:
            outs = model_run([l for _, l in lines])
            for (i, _), o in zip(lines, outs):
                cases[i].model_out = o
        for c in cases:
            self.evaluations += 1
            if c.nontrivial:
                self.distinct.add(hashlib.sha1(c.key.encode()).hexdigest())
            self.dist[c.stream] += 1
            for t in c.tags:
                self.dist[t] += 1
            if len(self.samples) < 6 and c.nontrivial:
                self.samples.append(dict(stream=c.stream, input=c.line or c.payload, impl=_short(c.impl_out), model=_short(c.model_out)))
            if c.model_out == "bad-op":
                raise HarnessError(f"model rejected a protocol line: {c.line}")
            try:
                c.oracle_fail = self.mod.oracle(c)
            except HarnessError:
                raise
            except Exception as e:
                c.oracle_fail = "oracle raised " + repr(e)[:200]
            mismatch = c.model_out is not None and not self.mod.agree(c)
            if c.oracle_fail:
                self.failures.append((c, "oracle", c.oracle_fail))
            elif mismatch:
                # implementation ≠ model, oracle content: model drift or an
                # observable outside the oracle.  Decided below.
                self.drift.append(c)
        return cases

    # ---- final decision
    def finish(self, required_theorems, rule, assumptions=(), extra_cov=None, search=None):
        pid = self.pid
        lean = self.lean or dict(ok=False, build_ok=False, theorems={}, problems=["not built"])
        violations = []
        known_printed = []
        kf = [k for k in known_findings() if k["property"] == pid]
        open_sigs = {k["signature"]: k for k in kf if k.get("status") == "open"}

        # shrink + classify each failure; group by signature
        by_sig = collections.OrderedDict()
        more_sigs = more_cases = 0
        for c, kind, detail in self.failures:
            sig = None
            try:
                sig = self.mod.classify(c)
            except Exception:
                sig = None
            if not sig:
                sig = "unclassified:" + hashlib.sha1(c.key.encode()).hexdigest()[:10]
            by_sig.setdefault(sig, []).append((c, kind, detail))
        for sig, items in by_sig.items():
            if sig in open_sigs:
                known_printed.append((sig, open_sigs[sig], len(items)))
                continue
            if len(violations) >= MAX_VIOLATION_LINES:
                more_sigs += 1
                more_cases += len(items)
                continue
            c, kind, detail = items[0]
            if hasattr(self.mod, "shrink"):
                try:
                    c2 = self.mod.shrink(c, self)
                    if c2 is not None:
                        c = c2
                        detail = c.oracle_fail or detail
                except Exception:
                    pass
            path = self.write_replay(c, kind, detail, sig, count=len(items))
            violations.append((path, ""))

        # broken obligation / drift without a failing input
        broken = []
        if not lean.get("ok"):
            broken += lean.get("problems", ["lean obligations not discharged"])
        if self.drift:
            broken.append(f"correspondence stream(s) {sorted(set(c.stream for c in self.drift))}: implementation and model differ on {len(self.drift)} case(s)")
        if broken and not violations:
            found = None
            if search is not None:
                found = search()
            if found:
                for c, kind, detail in found[:1]:
                    sig = self.mod.classify(c) or "unclassified"
                    if sig in open_sigs:
                        continue
                    path = self.write_replay(c, kind, detail, sig, count=len(found), broken=broken)
                    violations.append((path, ""))
            if not violations:
                c = self.drift[0] if self.drift else None
                path = self.write_replay(c, "broken-obligation", "; ".join(broken), "no-failing-input", count=len(self.drift), broken=broken)
                violations.append((path, " no-failing-input-found"))

        for sig, k, n in known_printed:
            print(f"KNOWN-FINDING: property={pid} {sig}: {k['description']} ({n} case(s) this run)")
        for path, suffix in violations:
            print(f"VIOLATION property={pid} replay={path}{suffix}")
        if more_sigs:
            print(f"({more_sigs} further failing signature(s) covering {more_cases} case(s) not listed: only the first {MAX_VIOLATION_LINES} are written as replays)")
            self.notes.append(f"{more_sigs} further failing signatures ({more_cases} cases) not written as replays")

        thms = lean.get("theorems", {})
        cov = dict(
            obligations=max(len(required_theorems), len(thms), 1),
            discharged=(len(thms) if lean.get("ok") else 0),
            checker_cmd=f"cd lean && lake build Cfdm.Props.{pid} && lake env lean .lake/audit_{pid}.lean  (# print axioms of every theorem)",
            trusted_base=TRUSTED_BASE,
            theorems={k: v for k, v in thms.items()},
            lean_problems=lean.get("problems", []),
            evaluations=self.evaluations,
            distinct_nontrivial=len(self.distinct),
            rule=rule,
            samples=self.samples or [dict(note="no correspondence cases in this run")],
            input_distribution=dict(self.dist),
            correspondence_disagreements=len(self.drift),
            oracle_failures=len(self.failures),
            known_findings_seen=[dict(signature=s, cases=n) for s, _, n in known_printed],
            notes=self.notes,
        )
        if cov["discharged"] == 0:
            # keep the file schema-valid for level "proof": fall back to the generic keys
            cov.pop("obligations"); cov.pop("discharged")
            cov["obligations_note"] = "lean obligations NOT discharged in this run"
        if extra_cov:
            cov.update(extra_cov)
        ev = dict(
            property_id=pid,
            tier=self.tier,
            seed=self.seed,
            level="proof",
            coverage=cov,
            assumptions=list(assumptions),
            wall_s=round(time.time() - self.t0, 2),
            violations=len(violations),
        )
        (VERIF / "evidence").mkdir(exist_ok=True)
        (VERIF / "evidence" / f"{pid}.json").write_text(json.dumps(ev, indent=1, default=str) + "\n")
        print(f"{pid} {self.tier} seed={self.seed}: theorems={len(thms)} lean_ok={lean.get('ok')} cases={self.evaluations} "
              f"distinct_nontrivial={len(self.distinct)} oracle_failures={len(self.failures)} drift={len(self.drift)} "
              f"known={len(known_printed)} violations={len(violations)} wall={ev['wall_s']}s")
        return 1 if violations else 0

    def write_replay(self, c, kind, detail, sig, count=1, broken=None):
        (VERIF / "replays").mkdir(exist_ok=True)
        body = dict(
            property=self.pid,
            kind=kind,
            signature=sig,
            seed=self.seed,
            tier=self.tier,
            cases_with_this_signature=count,
            detail=detail,
        )
        if broken:
            body["broken_obligation"] = broken
        if c is not None:
            body.update(stream=c.stream, input=c.payload, line=c.line, impl_output=c.impl_out,
                        model_output=c.model_out, oracle_verdict=c.oracle_fail, traceback=c.extra)
        h = hashlib.sha1(json.dumps(body, sort_keys=True, default=str).encode()).hexdigest()[:10]
        path = VERIF / "replays" / f"{self.pid}-{h}.json"
        path.write_text(json.dumps(body, indent=1, default=str) + "\n")
        return str(path)


def _short(x, n=300):
    if x is None:
        return None
    s = str(x)
    return s if len(s) <= n else s[:n] + "…"


def rng_for(seed, *salt):
    h = hashlib.sha256(("|".join([str(seed)] + [str(s) for s in salt])).encode()).digest()
    return random.Random(int.from_bytes(h[:8], "big"))


def fmt_list(xs):
    return "[" + ",".join(str(x) for x in xs) + "]"

# ---------------------------------------------------------------------------
# anchored-source digest: has the code a property is anchored in changed since the
# model was last validated against it (anchors.lock.json, regenerated by
# tools/update_anchor_lock.py after every commit to /repo)?  A change never alters a
# verdict: it only makes the quick tier spend a larger case budget on that tree.
# ---------------------------------------------------------------------------
def _source_digest(path):
    import ast
    import hashlib
    try:
        tree = ast.parse(Path(path).read_text())
    except Exception:
        return "unparsable"
    for node in ast.walk(tree):
        body = getattr(node, "body", None)
        if isinstance(body, list) and body and isinstance(body[0], ast.Expr) and isinstance(
                getattr(body[0], "value", None), ast.Constant) and isinstance(body[0].value.value, str):
            node.body = body[1:] or [ast.Pass()]
    return hashlib.sha256(ast.dump(tree, include_attributes=False).encode()).hexdigest()[:16]


def source_digests(repo=None):
    repo = Path(repo or REPO)
    out = {}
    for f in sorted((repo / "cfdm").rglob("*.py")):
        rel = str(f.relative_to(repo))
        if "/test/" in rel or rel.startswith("cfdm/test"):
            continue
        out[rel] = _source_digest(f)
    return out


def anchors_changed(pid):
    """(anchored files of `pid` that changed, other cfdm files that changed) relative to anchors.lock.json"""
    lock_file = VERIF / "anchors.lock.json"
    if not lock_file.exists():
        return [], []
    lock = json.loads(lock_file.read_text())["digests"]
    now = source_digests()
    changed = sorted(f for f in set(lock) | set(now) if lock.get(f) != now.get(f))
    anchored = set()
    for line in (VERIF / "properties.jsonl").read_text().splitlines():
        if line.strip():
            d = json.loads(line)
            if d["id"] == pid:
                anchored = set(d.get("anchors", {}).get("files", []))
    return [f for f in changed if f in anchored], [f for f in changed if f not in anchored]
