"""C17 — driving the real cfdm through a scenario of appends, in a forked child process.

A child process is used because the environment's libnetcdf/HDF5 can die with SIGSEGV while
cfdm re-reads a dataset it holds open for appending; the parent turns that into the
observable ``crashed`` instead of losing the worker.

`run_scenario(spec)` → dict (JSON-able):
  e        : status of the creation of E ('ok' | 'raised:<enum>')
  steps[i] : for every append
      status      'ok' | 'raised:<enum>' | 'crashed'
      sha_same    sha256 of the file unchanged by the call
      view0/view1 netCDF4-only view of the dataset before / after (dims, vars, globals)
      before/after  list of read fields: fingerprint (with names), fingerprint modulo names,
                  nc_global_attributes, ncvar
      twins       fingerprints (modulo names) of the batch written alone with mode 'w' and read
                  back, or None when that control write/read fails
      twin_ok     every appended construct is equal to its twin (the C01 precondition)
"""
import hashlib
import json
import os
import pickle
import shutil
import signal
import tempfile
import traceback
import warnings

import numpy as np

from . import fingerprint as FP
from . import fw
from .gen import fields_C17 as G
from .gen import abstract_C17 as AB


def cfdm():
    return G.cfdm()


def sha_file(fn):
    h = hashlib.sha256()
    with open(fn, "rb") as f:
        for b in iter(lambda: f.read(1 << 20), b""):
            h.update(b)
    return h.hexdigest()


def _attr(v):
    if isinstance(v, np.ndarray):
        return ["a", str(v.dtype), v.tolist()]
    if isinstance(v, np.generic):
        return ["s", str(np.asarray(v).dtype), v.item()]
    return v


def nc_view(fn):
    """What an independent reader (netCDF4 only) sees."""
    import netCDF4

    nc = netCDF4.Dataset(fn, "r")
    try:
        nc.set_auto_maskandscale(False)
        nc.set_auto_chartostring(False)
        out = dict(
            fmt=nc.file_format,
            groups=sorted(nc.groups),
            g={a: _attr(nc.getncattr(a)) for a in nc.ncattrs()},
            d={k: [len(d), bool(d.isunlimited())] for k, d in nc.dimensions.items()},
            v={},
        )
        for k, v in nc.variables.items():
            try:
                a = v[...]
                if isinstance(a, np.ndarray) and a.dtype.kind in "fiuSb":
                    h = hashlib.sha1(np.ascontiguousarray(a).tobytes()).hexdigest()[:16]
                else:
                    h = hashlib.sha1(repr(np.asarray(a).tolist()).encode()).hexdigest()[:16]
            except Exception as e:  # pragma: no cover
                h = "unreadable:" + type(e).__name__
            # shape: the current length of every dimension of the variable (an unlimited dimension that got longer is a
            # change to every variable on it)
            out["v"][k] = dict(dims=list(v.dimensions), shape=[int(n) for n in v.shape], dtype=str(v.dtype),
                               attrs={a: _attr(v.getncattr(a)) for a in v.ncattrs()}, sha=h)
        return out
    finally:
        nc.close()


def _drop_fill(x):
    """Remove Data.fill_value entries (an attribute of the Data object, set by the reader)."""
    if isinstance(x, dict):
        return {k: _drop_fill(v) for k, v in x.items() if k != "fill_value"}
    if isinstance(x, list):
        return [_drop_fill(v) for v in x]
    if isinstance(x, str) and x.startswith("{") and "fill_value" in x:
        try:
            return json.dumps(_drop_fill(json.loads(x)), sort_keys=True, default=str)
        except Exception:
            return x
    return x


def fp_full(f):
    return json.dumps(FP.fingerprint(f, names=True), sort_keys=True, default=str)


def fp_nonames(f):
    """Fingerprint modulo netCDF names and Data.fill_value; field-level properties kept apart."""
    d = _drop_fill(FP.fingerprint(f, names=False))
    props = d.pop("props", [])
    return dict(props=props, rest=json.dumps(d, sort_keys=True, default=str))


def read_fields(fn, mark=None):
    """`mark(f)`: optional extra flag per construct read (stored as 'eq')."""
    C = cfdm()
    out = []
    fs = C.read(fn)
    try:
        ds = C.read(fn, domain=True)
    except Exception:
        ds = []
    for f in list(fs) + list(ds):
        try:
            ga = {k: (None if v is None else json.dumps(FP._pval(v), default=str)) for k, v in f.nc_global_attributes().items()}
        except Exception:
            ga = {}
        try:
            full, nn = fp_full(f), fp_nonames(f)
        except Exception as e:
            # e.g. a 0-d char variable read as a field (its data cannot be fetched in this environment)
            full = f"unfingerprintable:{f.nc_get_variable(None)}:{type(e).__name__}"
            nn = dict(props=[], rest=full)
        rec = dict(full=full, nn=nn, ga=ga, ncvar=f.nc_get_variable(None), kind=type(f).__name__)
        if mark is not None:
            try:
                rec["eq"] = bool(mark(f))
            except Exception:
                rec["eq"] = False
        out.append(rec)
    return out


def _features(f):
    """Input features of an appended construct used by the oracle's refusal rule and by classify."""
    C = cfdm()
    ga = f.nc_global_attributes()
    ft = ga.get("featureType")  # a forced value, else the property (always a candidate global attribute)
    if ft is None:
        ft = f.get_property("featureType", None)
    has_da = bool(f.domain_ancillaries(todict=True)) if hasattr(f, "domain_ancillaries") else False
    has_ft_ref = any(r.coordinate_conversion.get_parameter("standard_name", None) is not None
                     for r in f.coordinate_references(todict=True).values())
    strs = any(c.get_data(None) is not None and c.data.dtype.kind in "SUO"
               for c in f.constructs.filter_by_data(todict=True).values())
    bases = [str(c.nc_get_variable(None) or c.get_property("standard_name", "")) for c in f.constructs.filter_by_data(todict=True).values()]
    ext = [c.nc_get_variable(None) for c in f.cell_measures(todict=True).values() if c.nc_get_external()] if hasattr(f, "cell_measures") else []
    # dimension coordinates that will be named after the netCDF dimension of their axis (no variable name, no standard name)
    anon = []
    try:
        da = f.constructs.data_axes()
        for k, c in f.dimension_coordinates(todict=True).items():
            if c.nc_get_variable(None) is None and c.get_property("standard_name", None) is None:
                d = f.domain_axes(todict=True)[da[k][0]].nc_get_dimension(None)
                if d is not None:
                    anon.append(d)
    except Exception:
        pass
    # scalar parameters of formula-terms references (Data values, written by _write_scalar_data)
    scalar_terms = []
    try:
        for r in f.coordinate_references(todict=True).values():
            cc = r.coordinate_conversion
            if cc.get_parameter("standard_name", None) is None:
                continue
            scalar_terms += [t for t, v in cc.parameters().items() if v is not None and t not in ("standard_name", "computed_standard_name")]
    except Exception:
        pass
    return dict(scalar_terms=scalar_terms, anon_dc=anon, ext=ext, bases=bases, groups=list(f.nc_variable_groups()), ft_global="featureType" in ga, ft=ft, kind=type(f).__name__,
                domain_ancillaries=has_da, formula_terms=has_ft_ref, strings=bool(strs),
                props={k: json.dumps(FP._pval(v), default=str) for k, v in f.properties().items()},
                ga={k: (None if v is None else json.dumps(FP._pval(v), default=str)) for k, v in ga.items()})


def _scenario(spec, d, emit):
    """Emits ('e', …), then per append ('pre', step) before the call and ('post', step) after it."""
    C = cfdm()
    out = dict(e=None, steps=[])
    cids = AB.Cids()
    batches = G.build_scenario(spec)
    fmt = spec.get("fmt", "NETCDF4")
    kw = {}
    if "string" in spec:
        kw["string"] = spec["string"]
    fn = os.path.join(d, "E.nc")
    try:
        C.write(batches[0], fn, fmt=fmt, **kw)
        out["e"] = "ok"
    except Exception as e:
        out["e"] = "raised:" + fw.exc_enum(e)
        emit(("e", dict(e=out["e"])))
        return
    emit(("e", dict(e="ok", s0=[_features(f) for f in batches[0]])))
    for bi, batch in enumerate(batches[1:], 1):
        step = dict(n=len(batch), feats=[_features(f) for f in batch])

        def ext_kw(tag, bi=bi):
            return {"external": os.path.join(d, f"external_{tag}{bi}.nc")} if spec.get("external") else {}

        # control: the batch alone, mode 'w'
        ctl = os.path.join(d, f"ctl{bi}.nc")
        try:
            step["twin_stage"] = "write"
            C.write([f.copy() for f in batch], ctl, fmt=fmt, **kw, **ext_kw("ctl"))
            step["twin_stage"] = "read"
            tw = read_fields(ctl)
            step["twin_stage"] = "done"
            step["twins"] = [t["nn"] for t in tw]
            step["twin_kinds"] = [t["kind"] for t in tw]
            step["selfs"] = [fp_nonames(f) for f in batch]
            mine = sorted(json.dumps(x, sort_keys=True) for x in step["selfs"])
            theirs = sorted(json.dumps(t["nn"], sort_keys=True) for t in tw)
            step["twin_ok"] = mine == theirs
            if not step["twin_ok"] and len(tw) == len(batch):
                # fall back on cfdm's own equality for the precondition (never for the verdict)
                left = list(tw_f for tw_f in list(C.read(ctl)) + list(C.read(ctl, domain=True)))
                ok = True
                for f in batch:
                    hit = [g for g in left if type(g) is type(f) and f.equals(g) and g.equals(f)]
                    if not hit:
                        ok = False
                        break
                    left.remove(hit[0])
                step["twin_ok"] = ok
        except Exception as e:
            step["twins"] = None
            step["twin_ok"] = False
            step["twin_error"] = fw.exc_enum(e)
        sha0 = sha_file(fn)
        try:
            step["view0"] = nc_view(fn)
            step["before"] = read_fields(fn)
        except Exception as e:
            # the dataset cannot be read before the append: nothing for the property to say
            emit(("stop", dict(reason="unreadable before append: " + type(e).__name__)))
            return
        # the model's inputs: the dataset as netCDF4 sees it, the fields the append will read back, the batch
        try:
            string = spec.get("string", True)
            rb = list(C.read(fn))
            RB = [AB.abstract_field(g, cids, fmt, string, AB.batch_candidates(rb)) for g in rb]
            S = [AB.abstract_field(g, cids, fmt, string, AB.batch_candidates(batch)) for g in batch]
            if any(x is None for x in RB + S):
                step["abs"] = None
            else:
                step["abs"] = dict(E=AB.abstract_dataset(step["view0"]), RB=RB, S=S)
        except Exception as e:
            step["abs"] = None
            step["abs_error"] = type(e).__name__ + ": " + str(e)[:200]
        emit(("pre", step))
        step = dict(step)
        try:
            C.write([f.copy() for f in batch] if len(batch) > 1 or spec.get("aslist") else batch[0].copy(), fn, fmt=fmt,
                    mode=spec.get("mode", "a"), **kw, **ext_kw("E"))
            step["status"] = "ok"
        except Exception as e:
            step["status"] = "raised:" + fw.exc_enum(e)
            step["message"] = str(e)[:160]
        step["sha_same"] = sha_file(fn) == sha0
        try:
            step["view1"] = nc_view(fn)
            # second witness for new constructs only (used to clear a fingerprint mismatch, never to raise one):
            # cfdm's own equality with an appended construct, ignoring the properties the dataset holds as globals
            old_vars = set(step["view0"]["v"])
            gprops = list(step["view0"]["g"]) + [k for f in batch for k, v in f.nc_global_attributes().items() if v is not None]

            def mark(g, batch=batch, old_vars=old_vars, gprops=gprops):
                if g.nc_get_variable(None) in old_vars:
                    return False
                return any(type(s_) is type(g) and s_.equals(g, ignore_properties=gprops) and g.equals(s_, ignore_properties=gprops)
                           for s_ in batch)

            step["after"] = read_fields(fn, mark)
        except Exception as e:
            step["view1"] = None
            step["after"] = None
            step["unreadable"] = type(e).__name__ + ": " + str(e)[:120]
        emit(("post", step))


def _snapshot(fn):
    out = {}
    try:
        out["view1"] = nc_view(fn)
        out["after"] = read_fields(fn)
    except Exception as e:
        out["view1"] = None
        out["after"] = None
        out["unreadable"] = type(e).__name__ + ": " + str(e)[:120]
    return out


def _fork(fn_child, timeout):
    """Run fn_child(emit) in a forked child; returns (messages, crash-or-None)."""
    r, w = os.pipe()
    pid = os.fork()
    if pid == 0:  # child
        code = 0
        try:
            os.close(r)
            warnings.filterwarnings("ignore")
            signal.alarm(timeout)
            f = os.fdopen(w, "wb")

            def emit(msg):
                pickle.dump(msg, f)
                f.flush()

            try:
                fn_child(emit)
            except BaseException as e:
                emit(("exc", type(e).__name__ + ": " + str(e)[:300] + "\n" + traceback.format_exc()[-1500:]))
            f.close()
        except BaseException:
            code = 3
        finally:
            os._exit(code)
    os.close(w)
    msgs = []
    with os.fdopen(r, "rb") as f:
        while True:
            try:
                msgs.append(pickle.load(f))
            except EOFError:
                break
            except Exception:
                break
    _, st = os.waitpid(pid, 0)
    crash = None
    if os.WIFSIGNALED(st):
        sig = os.WTERMSIG(st)
        crash = "SIGALRM" if sig == signal.SIGALRM else f"signal{sig}"
    elif os.WEXITSTATUS(st) != 0:
        crash = f"exit{os.WEXITSTATUS(st)}"
    return msgs, crash


def run_scenario(spec, timeout=180):
    """Run in a forked child; a crash of the child is an observable (status 'crashed')."""
    d = tempfile.mkdtemp(prefix="c17_")
    try:
        msgs, crash = _fork(lambda emit: _scenario(spec, d, emit), timeout)
        out = dict(e=None, steps=[])
        pre = None
        for kind, body in msgs:
            if kind == "exc":
                return dict(harness_exc=body)
            if kind == "e":
                out.update(body)
            elif kind == "stop":
                out["stopped"] = body["reason"]
            elif kind == "pre":
                pre = body
            elif kind == "post":
                out["steps"].append(body)
                pre = None
        if crash:
            if crash == "SIGALRM":
                return dict(harness_exc="timeout")
            if out["e"] is None:
                out["e"] = "crashed"
            elif pre is not None:
                step = dict(pre)
                step["status"] = "crashed"
                step["signal"] = crash
                fn = os.path.join(d, "E.nc")
                snap, crash2 = _fork(lambda emit: emit(("snap", dict(sha=sha_file(fn), **_snapshot(fn)))), timeout)
                if snap and snap[0][0] == "snap":
                    body = snap[0][1]
                    step["sha_same"] = None
                    step.update({k: body[k] for k in body if k != "sha"})
                else:
                    step.update(view1=None, after=None, unreadable="snapshot crashed")
                out["steps"].append(step)
            else:
                out["stopped"] = "child died outside an append: " + crash
        return out
    finally:
        shutil.rmtree(d, ignore_errors=True)
