"""Hand-encoded readable netCDF-4 files for C12 (written with netCDF4 only, never with cfdm).

gen_spec(rng, kind)      -> JSON-able description of a dataset
write_spec(spec, path)   -> writes it (format NETCDF4)
infer_roles(path)        -> {ncvar: (logical shape, role)} by an independent reading of the CF
                            attributes with netCDF4 (also used for files written by cfdm.write and
                            for the seed files of cfdm/test/create_test_files.py)
reference(path)          -> {ncvar: numpy (masked) array as netCDF4-python presents it}

Variable values are `base + flat offset` so that a value identifies the element it came from.
"""
import numpy as np

KINDS = ["plain", "plain", "plain", "groups", "dsg_contig", "dsg_indexed", "gathered", "geometry", "geometry_parts",
         "ugrid"]

INT_DT = ["i4", "i2", "i8", "i1", "u1", "u2", "u4"]
FLT_DT = ["f8", "f4"]
FILL = {"i1": -99, "i2": -99, "i4": -99, "i8": -99, "u1": 250, "u2": 65000, "u4": 4000000000,
        "f4": -999.0, "f8": -999.0}


def _var(name, dtype, dims, attrs=None, base=0, mask=(), fill=None, group="", strs=None, step=1, explicit=None):
    return dict(name=name, dtype=dtype, dims=list(dims), attrs=dict(attrs or {}), base=base, mask=sorted(mask),
                fill=fill, group=group, strs=strs, step=step, explicit=explicit)


def _pick_mask(rng, n, p=0.5):
    if n < 2 or rng.random() > p:
        return []
    return sorted(rng.sample(range(n), rng.randint(1, max(1, n // 3))))


def _size(dims, sizes):
    n = 1
    for d in dims:
        n *= sizes[d]
    return n


# ------------------------------------------------------------------ plain / groups
def gen_plain(rng, grouped=False):
    nd = rng.choice([0, 1, 1, 2, 2, 2, 3])
    dims = []
    sizes = {}
    for i in range(nd):
        n = rng.randint(1, 5)
        unl = i == 0 and rng.random() < 0.25
        if unl and rng.random() < 0.2:
            n = 0  # zero-length unlimited dimension
        name = ["t", "y", "x"][i] if not unl else "time"
        dims.append(dict(name=name, size=n, unlimited=unl, group=""))
        sizes[name] = n
    dnames = [d["name"] for d in dims]
    zero = any(d["size"] == 0 for d in dims)
    vs = []
    g = "g1" if grouped else ""
    base = [0]

    def nb():
        base[0] += 7
        return base[0] % 40

    # data variable
    dt = rng.choice(FLT_DT + INT_DT)
    attrs = {"standard_name": "air_temperature", "units": "K"}
    n = _size(dnames, sizes)
    fill = None
    mask = []
    if rng.random() < 0.5:
        fill = FILL[dt]
        mask = _pick_mask(rng, n, 0.8)
    packed = dt in ("i2", "i4", "u1", "i1") and rng.random() < 0.4
    if packed:
        sdt = rng.choice(["f4", "f8"])
        attrs["scale_factor"] = ("arr", sdt, [0.5])
        attrs["add_offset"] = ("arr", sdt, [10.0])
    if fill is None and rng.random() < 0.3 and dt in ("i2", "i4", "f4", "f8"):
        attrs["missing_value"] = ("arr", dt, [-77])
    if rng.random() < 0.25 and dt in ("i2", "i4", "f4", "f8", "i8"):
        attrs["valid_range"] = ("arr", dt, [-50, 120])
    elif rng.random() < 0.2 and dt in ("i2", "i4", "f4", "f8", "i8"):
        attrs["valid_min"] = ("arr", dt, [-50])
    coords = []
    v = _var("v", dt, dnames, attrs, nb(), mask, fill, g)
    vs.append(v)
    # coordinate variables
    for d in list(dims[:nd]):
        if rng.random() < 0.75:
            cdt = rng.choice(["f8", "f4", "i4"])
            nm = d["name"]
            cat = {"t": ("time", "days since 2000-01-01"), "time": ("time", "days since 2000-01-01"),
                   "y": ("latitude", "degrees_north"), "x": ("longitude", "degrees_east")}[nm]
            a = {"standard_name": cat[0], "units": cat[1]}
            if rng.random() < 0.4:
                a["bounds"] = nm + "_bnds"
            vs.append(_var(nm, cdt, [nm], a, nb(), group=""))
            if "bounds" in a:
                if "bnd2" not in sizes:
                    sizes["bnd2"] = 2
                    dims.append(dict(name="bnd2", size=2, unlimited=False, group=""))
                vs.append(_var(nm + "_bnds", cdt, [nm, "bnd2"], {}, nb(), group=""))
    multi = [d["name"] for d in dims[:nd] if d["size"] > 0]
    # auxiliary coordinates
    if multi and rng.random() < 0.5:
        d = rng.choice(multi)
        a = {"long_name": "aux one", "units": "1"}
        am = []
        af = None
        if rng.random() < 0.3:
            af = -999.0
            am = _pick_mask(rng, sizes[d], 0.9)
        vs.append(_var("aux1", "f8", [d], a, nb(), am, af, g))
        coords.append("aux1")
    if len(multi) >= 2 and rng.random() < 0.4:
        dd = rng.sample(multi, 2)
        vs.append(_var("aux2", "f4", dd, {"long_name": "aux two", "units": "m"}, nb(), group=g))
        coords.append("aux2")
    if multi and rng.random() < 0.35:
        d = rng.choice(multi)
        if "strlen" not in sizes:
            sizes["strlen"] = 4
            dims.append(dict(name="strlen", size=4, unlimited=False, group=""))
        vs.append(_var("label", "S1", [d, "strlen"], {"long_name": "label"}, group=g,
                       strs=[f"s{k}"[:4] for k in range(sizes[d])]))
        coords.append("label")
    if multi and rng.random() < 0.25:
        d = rng.choice(multi)
        vs.append(_var("vlabel", "str", [d], {"long_name": "vlen label"}, group=g,
                       strs=[f"name{k}" for k in range(sizes[d])]))
        coords.append("vlabel")
    # scalar coordinate variables
    if rng.random() < 0.5:
        a = {"standard_name": "height", "units": "m"}
        if rng.random() < 0.4:
            a["bounds"] = "height_bnds"
            if "bnd2" not in sizes:
                sizes["bnd2"] = 2
                dims.append(dict(name="bnd2", size=2, unlimited=False, group=""))
        vs.append(_var("height", rng.choice(["f8", "f4", "i4"]), [], a, nb(), group=g))
        if "bounds" in a:
            vs.append(_var("height_bnds", "f8", ["bnd2"], {}, nb(), group=g))
        coords.append("height")
    if rng.random() < 0.3:
        if "strlen" not in sizes:
            sizes["strlen"] = 4
            dims.append(dict(name="strlen", size=4, unlimited=False, group=""))
        vs.append(_var("station", "S1", ["strlen"], {"long_name": "station"}, group=g, strs=["abc"]))
        coords.append("station")
    if rng.random() < 0.2:
        vs.append(_var("vstation", "str", [], {"long_name": "vlen station"}, group=g, strs=["hello"]))
        coords.append("vstation")
    if coords:
        v["attrs"]["coordinates"] = " ".join(coords)
    # cell measure / ancillary
    if multi and rng.random() < 0.3:
        dd = rng.sample(multi, min(len(multi), rng.randint(1, 2)))
        vs.append(_var("areavar", "f8", dd, {"units": "km2", "long_name": "cell area"}, nb(), group=g))
        v["attrs"]["cell_measures"] = "area: areavar"
    if dnames and rng.random() < 0.3:
        vs.append(_var("anc", "f4", dnames, {"standard_name": "air_temperature standard_error", "units": "K"}, nb(),
                       group=g))
        v["attrs"]["ancillary_variables"] = "anc"
    # a second data variable, a 0-d data variable
    if dnames and rng.random() < 0.35:
        vs.append(_var("w", rng.choice(FLT_DT + INT_DT), dnames[::-1] if rng.random() < 0.4 else dnames,
                       {"standard_name": "eastward_wind", "units": "m s-1"}, nb(), group=g))
    if rng.random() < 0.2:
        vs.append(_var("z0", rng.choice(["f4", "i4"]), [], {"standard_name": "surface_altitude", "units": "m"}, nb(),
                       group=g))
    if grouped and rng.random() < 0.5 and nd:
        # move the last data dimension (and its coordinate variable) into the group
        last = dims[nd - 1]
        last["group"] = g
        for q in vs:
            if q["name"] == last["name"] or q["name"] == last["name"] + "_bnds":
                q["group"] = g
    return dict(kind="groups" if grouped else "plain", dims=dims, vars=vs, gattrs={"Conventions": "CF-1.11"}, zero=zero)


# ------------------------------------------------------------------ discrete sampling geometries
def gen_dsg(rng, indexed=False):
    ns = rng.randint(1, 4)
    counts = [rng.randint(0 if rng.random() < 0.15 else 1, 4) for _ in range(ns)]
    if sum(counts) == 0:
        counts[0] = 2
    nobs = sum(counts)
    dims = [dict(name="station", size=ns, unlimited=False, group=""), dict(name="obs", size=nobs, unlimited=False, group="")]
    vs = []
    if indexed:
        idx = []
        for i, c in enumerate(counts):
            idx += [i] * c
        rng.shuffle(idx)
        # every instance below the largest present one should have samples (C06 finding otherwise)
        vs.append(_var("stationIndex", "i4", ["obs"], {"long_name": "which station", "instance_dimension": "station"},
                       explicit=idx))
    else:
        vs.append(dict(_var("row_size", "i4", ["station"], {"long_name": "number of obs", "sample_dimension": "obs"}),
                       explicit=counts))
    vs.append(_var("lat", "f8", ["station"], {"standard_name": "latitude", "units": "degrees_north"}, 10))
    vs.append(_var("lon", "f8", ["station"], {"standard_name": "longitude", "units": "degrees_east"}, 20))
    vs.append(_var("time", "f8", ["obs"], {"standard_name": "time", "units": "days since 2000-01-01"}, 30))
    fill = -99.0 if rng.random() < 0.4 else None
    vs.append(_var("humidity", rng.choice(["f8", "f4"]), ["obs"],
                   {"standard_name": "specific_humidity", "units": "1", "coordinates": "time lat lon"}, 40,
                   _pick_mask(rng, nobs, 0.8) if fill is not None else [], fill))
    return dict(kind="dsg_indexed" if indexed else "dsg_contig", dims=dims, vars=vs,
                gattrs={"Conventions": "CF-1.11", "featureType": "timeSeries"}, counts=counts)


# ------------------------------------------------------------------ compression by gathering
def gen_gathered(rng):
    nt, ny, nx = rng.randint(1, 3), rng.randint(2, 3), rng.randint(2, 4)
    pts = sorted(rng.sample(range(ny * nx), rng.randint(1, ny * nx - 1)))
    dims = [dict(name=n, size=s, unlimited=False, group="") for n, s in
            (("t", nt), ("y", ny), ("x", nx), ("landpoint", len(pts)))]
    vs = [
        _var("t", "f8", ["t"], {"standard_name": "time", "units": "days since 2000-01-01"}, 0),
        _var("y", "f8", ["y"], {"standard_name": "latitude", "units": "degrees_north"}, 10),
        _var("x", "f8", ["x"], {"standard_name": "longitude", "units": "degrees_east"}, 20),
        dict(_var("landpoint", "i4", ["landpoint"], {"compress": "y x"}), explicit=pts),
        _var("soil", rng.choice(["f8", "f4", "i4"]), ["t", "landpoint"],
             {"standard_name": "soil_temperature", "units": "K"}, 40),
    ]
    return dict(kind="gathered", dims=dims, vars=vs, gattrs={"Conventions": "CF-1.11"})


# ------------------------------------------------------------------ geometries
def gen_geometry(rng, parts=False):
    ninst = rng.randint(1, 3)
    nt = rng.randint(1, 3)
    if parts:
        npart = [rng.randint(1, 2) for _ in range(ninst)]
        pnc = [rng.randint(3, 4) for _ in range(sum(npart))]
        nc = []
        k = 0
        for q in npart:
            nc.append(sum(pnc[k:k + q]))
            k += q
    else:
        nc = [rng.randint(3, 4) for _ in range(ninst)]
    nnode = sum(nc)
    dims = [dict(name="instance", size=ninst, unlimited=False, group=""), dict(name="time", size=nt, unlimited=False, group=""),
            dict(name="node", size=nnode, unlimited=False, group="")]
    gatt = {"geometry_type": "polygon", "node_count": "node_count", "node_coordinates": "x y"}
    vs = [
        _var("time", "f8", ["time"], {"standard_name": "time", "units": "days since 2000-01-01"}, 0),
        _var("lat", "f8", ["instance"], {"standard_name": "latitude", "units": "degrees_north", "nodes": "y"}, 10),
        _var("lon", "f8", ["instance"], {"standard_name": "longitude", "units": "degrees_east", "nodes": "x"}, 20),
        _var("x", "f8", ["node"], {"units": "degrees_east", "standard_name": "longitude", "axis": "X"}, 30),
        _var("y", "f8", ["node"], {"units": "degrees_north", "standard_name": "latitude", "axis": "Y"}, 60),
        dict(_var("node_count", "i4", ["instance"], {"long_name": "nodes per geometry"}), explicit=nc),
    ]
    if parts:
        dims.append(dict(name="part", size=len(pnc), unlimited=False, group=""))
        gatt["part_node_count"] = "part_node_count"
        vs.append(dict(_var("part_node_count", "i4", ["part"], {"long_name": "nodes per part"}), explicit=pnc))
        if rng.random() < 0.6:
            gatt["interior_ring"] = "interior_ring"
            ring = []
            for q in npart:
                ring += [0] + [rng.choice([0, 1]) for _ in range(q - 1)]
            vs.append(dict(_var("interior_ring", "i4", ["part"], {"long_name": "interior ring"}), explicit=ring))
    vs.append(_var("geom", "i4", [], gatt, 0))
    vs.append(_var("pr", rng.choice(["f8", "f4"]), ["instance", "time"],
                   {"standard_name": "precipitation_amount", "units": "kg m-2", "coordinates": "lat lon",
                    "geometry": "geom"}, 5))
    return dict(kind="geometry_parts" if parts else "geometry", dims=dims, vars=vs, gattrs={"Conventions": "CF-1.11"})


# ------------------------------------------------------------------ UGRID
def gen_ugrid(rng):
    # a strip of `nf` triangles over nf + 2 nodes
    nf = rng.randint(2, 4)
    nn = nf + 2
    faces = [[k, k + 1, k + 2] for k in range(nf)]
    edges = sorted({tuple(sorted(e)) for f in faces for e in ((f[0], f[1]), (f[1], f[2]), (f[0], f[2]))})
    ne = len(edges)
    edge_T = rng.random() < 0.5      # edge connectivity stored (2, nEdges)
    face_T = rng.random() < 0.3      # face connectivity stored (3, nFaces)
    start = rng.choice([0, 0, 1])
    loc = rng.choice(["face", "edge", "node"])
    dims = [dict(name=n, size=s, unlimited=False, group="") for n, s in
            (("nNodes", nn), ("nFaces", nf), ("nEdges", ne), ("Two", 2), ("Three", 3), ("time", 2))]
    matt = {"cf_role": "mesh_topology", "topology_dimension": ("arr", "i4", [2]), "node_coordinates": "nx ny",
            "face_node_connectivity": "face_nodes", "edge_node_connectivity": "edge_nodes",
            "face_dimension": "nFaces", "edge_dimension": "nEdges"}
    fn = np.array(faces) + start
    en = np.array(edges) + start
    vs = [
        _var("mesh", "i4", [], matt, 0),
        _var("nx", "f8", ["nNodes"], {"standard_name": "longitude", "units": "degrees_east"}, 10),
        _var("ny", "f8", ["nNodes"], {"standard_name": "latitude", "units": "degrees_north"}, 30),
        dict(_var("face_nodes", "i4", ["Three", "nFaces"] if face_T else ["nFaces", "Three"],
                  {"long_name": "face nodes", "cf_role": "face_node_connectivity", "start_index": ("arr", "i4", [start])}),
             explicit=(fn.T if face_T else fn).flatten().tolist()),
        dict(_var("edge_nodes", "i4", ["Two", "nEdges"] if edge_T else ["nEdges", "Two"],
                  {"long_name": "edge nodes", "cf_role": "edge_node_connectivity", "start_index": ("arr", "i4", [start])}),
             explicit=(en.T if edge_T else en).flatten().tolist()),
        _var("time", "f8", ["time"], {"standard_name": "time", "units": "days since 2000-01-01"}, 0),
        _var("d", "f8", ["time", {"face": "nFaces", "edge": "nEdges", "node": "nNodes"}[loc]],
             {"standard_name": "air_pressure", "units": "Pa", "mesh": "mesh", "location": loc}, 50),
    ]
    return dict(kind="ugrid", dims=dims, vars=vs, gattrs={"Conventions": "CF-1.11 UGRID-1.0"})


# ------------------------------------------------------------------ external variables
def gen_external(rng):
    """A parent dataset naming external cell measure variables + 0-3 external files that hold all / some / none
    of them (possibly the same variable twice, possibly a variable that no file holds) + the list handed to
    `cfdm.read(external=)` (possibly naming a file twice)."""
    ny, nx = rng.randint(2, 4), rng.randint(2, 4)
    names = ["areacello"] if rng.random() < 0.5 else ["areacello", "volcello"]
    dims = [dict(name="y", size=ny, unlimited=False, group=""), dict(name="x", size=nx, unlimited=False, group="")]
    measures = {"areacello": "area", "volcello": "volume"}
    parent = dict(kind="external", dims=dims, vars=[
        _var("y", "f8", ["y"], {"standard_name": "projection_y_coordinate", "units": "m"}, 0),
        _var("x", "f8", ["x"], {"standard_name": "projection_x_coordinate", "units": "m"}, 10),
        _var("tas", rng.choice(["f8", "f4"]), ["y", "x"],
             {"standard_name": "air_temperature", "units": "K",
              "cell_measures": " ".join(f"{measures[n]}: {n}" for n in names)}, 20),
    ], gattrs={"Conventions": "CF-1.11", "external_variables": " ".join(names)})
    nfiles = rng.choice([0, 1, 2, 2, 2, 3, 3])
    files = []
    for k in range(nfiles):
        r = rng.random()
        if r < 0.35:
            held = []                                   # holds none of the named variables
        elif r < 0.7:
            held = [rng.choice(names)]                  # holds some
        else:
            held = list(names)                          # holds all
        vs = [_var(n, "f8", ["y", "x"], {"units": "m2" if n == "areacello" else "m3",
                                          "standard_name": "cell_area" if n == "areacello" else "ocean_volume"},
                   40 + 30 * k + 5 * i) for i, n in enumerate(held)]
        vs.append(_var(f"other{k}", "f4", ["y", "x"], {"long_name": f"something else {k}"}, 7 + k))
        files.append(dict(kind="external_file", dims=[dict(d) for d in dims], vars=vs,
                          gattrs={"Conventions": "CF-1.11"}, held=held))
    order = list(range(nfiles))
    rng.shuffle(order)
    if nfiles and rng.random() < 0.2:
        order.append(rng.choice(order))                 # a file listed twice
    parent["ext_files"] = files
    parent["ext_list"] = order
    parent["ext_names"] = names
    return parent


def gen_spec(rng, kind):
    if kind == "external":
        return gen_external(rng)
    if kind == "plain":
        return gen_plain(rng)
    if kind == "groups":
        return gen_plain(rng, grouped=True)
    if kind == "dsg_contig":
        return gen_dsg(rng)
    if kind == "dsg_indexed":
        return gen_dsg(rng, indexed=True)
    if kind == "gathered":
        return gen_gathered(rng)
    if kind == "geometry":
        return gen_geometry(rng)
    if kind == "geometry_parts":
        return gen_geometry(rng, parts=True)
    if kind == "ugrid":
        return gen_ugrid(rng)
    raise ValueError(kind)


# ------------------------------------------------------------------ writer
def _attr_value(a):
    if isinstance(a, (tuple, list)) and len(a) == 3 and a[0] == "arr":
        arr = np.array(a[2], dtype=a[1])
        return arr[0] if arr.size == 1 else arr
    return a


def _chars(strs, n):
    a = np.zeros((len(strs), n), "S1")
    for i, s in enumerate(strs):
        for j, ch in enumerate(s[:n]):
            a[i, j] = ch.encode()
    return a


def var_values(v, sizes):
    """The stored (packed, unmasked) values and the mask, as flat lists."""
    shape = [sizes[d] for d in v["dims"]]
    n = int(np.prod(shape)) if shape else 1
    if v.get("explicit") is not None:
        vals = list(v["explicit"])
    else:
        vals = [v["base"] + j * v.get("step", 1) for j in range(n)]
    return vals, shape


def write_spec(spec, path):
    import netCDF4
    ds = netCDF4.Dataset(path, "w", format="NETCDF4")
    try:
        for k, a in spec.get("gattrs", {}).items():
            ds.setncattr(k, _attr_value(a))
        groups = {"": ds}

        def grp(g):
            if g not in groups:
                groups[g] = ds.createGroup(g)
            return groups[g]

        sizes = {}
        for d in spec["dims"]:
            grp(d["group"]).createDimension(d["name"], None if d["unlimited"] else d["size"])
            sizes[d["name"]] = d["size"]
        for v in spec["vars"]:
            G = grp(v["group"])
            dt = v["dtype"]
            kw = {}
            if v["fill"] is not None:
                kw["fill_value"] = np.array(v["fill"], dtype=dt)[()]
            var = G.createVariable(v["name"], str if dt == "str" else dt, tuple(v["dims"]), **kw)
            for k, a in v["attrs"].items():
                var.setncattr(k, _attr_value(a))
            var.set_auto_maskandscale(False)
            shape = [sizes[d] for d in v["dims"]]
            if dt == "S1":
                strlen = shape[-1]
                arr = _chars(v["strs"], strlen).reshape(shape)
                if any(s == 0 for s in shape):
                    continue
                var[...] = arr
            elif dt == "str":
                if any(s == 0 for s in shape):
                    continue
                if not shape:
                    var[...] = v["strs"][0]
                else:
                    arr = np.array(v["strs"], dtype=object).reshape(shape)
                    var[...] = arr
            else:
                vals, shape = var_values(v, sizes)
                if any(s == 0 for s in shape):
                    continue
                arr = np.array(vals).astype(dt).reshape(shape)
                if v["mask"]:
                    flat = arr.reshape(-1)
                    flat[v["mask"]] = np.array(v["fill"], dtype=dt)
                    arr = flat.reshape(shape)
                var[...] = arr
    finally:
        ds.close()


# ------------------------------------------------------------------ independent reading
def _walk(ds, prefix=""):
    for name, var in ds.variables.items():
        yield (prefix + "/" + name if prefix else name), var, ds
    for gname, g in ds.groups.items():
        yield from _walk(g, prefix + "/" + gname)


def _resolve(name, holder_path, names):
    """Resolve a variable reference made from the variable `holder_path` (search its group, then upwards)."""
    if not name:
        return None
    if name.startswith("/"):
        return name if name in names else None
    parts = holder_path.split("/")[:-1]  # '/g1/v' -> ['', 'g1']; 'v' -> []
    while True:
        grp = "/".join(parts)
        cand = (grp + "/" + name) if grp else name
        if cand in names:
            return cand
        if len(parts) <= 1:
            break
        parts = parts[:-1]
    return name if name in names else None


def _is_char(var):
    return var.dtype == np.dtype("S1") if var.dtype is not str else False


def logical_shape(var):
    shape = tuple(int(s) for s in var.shape)
    if _is_char(var) and len(shape) >= 1:
        shape = shape[:-1]
    return shape


def infer_roles(path):
    """{ncvar path: (logical shape, role)} from the CF attributes alone."""
    import netCDF4
    ds = netCDF4.Dataset(path, "r")
    try:
        allv = {p: (var, holder) for p, var, holder in _walk(ds)}
        names = set(allv)
        role = {}
        dims_of = {p: tuple(var.dimensions) for p, (var, _) in allv.items()}

        def attr(var, k):
            return var.getncattr(k) if k in var.ncattrs() else None

        def setrole(p, r, force=False):
            if p is None:
                return
            if force or p not in role:
                role[p] = r

        sample_dims = set()
        containers = set()
        for p, (var, _) in allv.items():
            if attr(var, "sample_dimension") is not None:
                setrole(p, "count", True)
                sample_dims.add(attr(var, "sample_dimension"))
            if attr(var, "instance_dimension") is not None:
                setrole(p, "index", True)
                sample_dims.add(var.dimensions[0])
            if attr(var, "compress") is not None:
                setrole(p, "listVar", True)
                sample_dims.add(var.dimensions[0])
            if attr(var, "geometry_type") is not None:
                containers.add(p)
                has_parts = attr(var, "part_node_count") is not None
                setrole(_resolve(attr(var, "node_count") or "", p, names), "count", True)
                if has_parts:
                    setrole(_resolve(attr(var, "part_node_count"), p, names), "count", True)
                if attr(var, "interior_ring") is not None:
                    setrole(_resolve(attr(var, "interior_ring"), p, names), "sample", True)
                for q in str(attr(var, "node_coordinates") or "").split():
                    setrole(_resolve(q, p, names), "sample" if has_parts else "nodesFlat", True)
            if attr(var, "cf_role") == "mesh_topology":
                containers.add(p)
                for loc in ("edge", "face", "volume"):
                    cn = attr(var, f"{loc}_node_connectivity")
                    if cn is None:
                        continue
                    q = _resolve(cn, p, names)
                    if q is None:
                        continue
                    cdim = attr(var, f"{loc}_dimension")
                    qd = dims_of[q]
                    transposed = cdim is not None and len(qd) == 2 and qd[1] == cdim and qd[0] != cdim
                    try:
                        si = attr(allv[q][0], "start_index")
                        shifted = si is not None and int(np.asarray(si).flatten()[0]) != 0
                    except Exception:
                        shifted = False
                    # (stored cell dimension last: transposed by the reader; one-based: shifted by the reader - 7759b57)
                    setrole(q, "connT" if transposed else "connS" if shifted else "conn", True)
                for q in str(attr(var, "node_coordinates") or "").split():
                    setrole(_resolve(q, p, names), "coord")
                for loc in ("edge", "face"):
                    for q in str(attr(var, f"{loc}_coordinates") or "").split():
                        setrole(_resolve(q, p, names), "coord")
            if attr(var, "grid_mapping_name") is not None:
                containers.add(p)
        for p, (var, _) in allv.items():
            for q in str(attr(var, "coordinates") or "").split():
                r = _resolve(q, p, names)
                if r is None:
                    continue
                v2 = allv[r][0]
                if not logical_shape(v2) and not (set(v2.dimensions) & sample_dims):
                    if len(v2.dimensions) == 0 or _is_char(v2):
                        setrole(r, "scalarCoord")
                        b = attr(v2, "bounds") or attr(v2, "climatology")
                        if b:
                            setrole(_resolve(b, r, names), "scalarBounds", True)
                        continue
                setrole(r, "coord")
            for k in ("bounds", "climatology"):
                b = attr(var, k)
                if b:
                    setrole(_resolve(b, p, names), "bounds")
            for k in ("cell_measures", "formula_terms"):
                s = attr(var, k)
                if s:
                    toks = str(s).split()
                    for t in toks[1::2]:
                        setrole(_resolve(t, p, names), "measure")
            s = attr(var, "ancillary_variables")
            if s:
                for t in str(s).split():
                    setrole(_resolve(t, p, names), "measure")
            b = attr(var, "nodes")
            # coordinate variable: 1-d with the name of its dimension
            if len(var.dimensions) == 1 and var.dimensions[0] == p.split("/")[-1] and p not in role:
                setrole(p, "coord")
        out = {}
        for p, (var, _) in allv.items():
            if p in containers:
                continue
            r = role.get(p)
            if r in (None, "coord", "bounds", "measure") and set(var.dimensions) & sample_dims:
                r = "sample"
            if r is None:
                r = "data"
            out[p] = (logical_shape(var), r)
        return out
    finally:
        ds.close()


def reference(path):
    """{ncvar: array as netCDF4-python presents it (auto mask and scale)}; strings as str arrays."""
    import netCDF4
    ds = netCDF4.Dataset(path, "r")
    out = {}
    try:
        for p, var, _ in _walk(ds):
            try:
                if var.dtype is str:
                    a = np.array(var[...], dtype=object)
                    out[p] = np.array(a, dtype=str) if a.shape else np.array(str(a[()]))
                elif _is_char(var):
                    var.set_auto_mask(False)
                    raw = var[...]
                    if raw.ndim == 0:
                        out[p] = np.array(raw.tobytes().decode().rstrip("\x00"))
                    else:
                        flat = raw.reshape(-1, raw.shape[-1])
                        strs = [b"".join(r.tolist()).decode().rstrip("\x00") for r in flat]
                        out[p] = np.array(strs, dtype=str).reshape(raw.shape[:-1])
                else:
                    out[p] = var[...]
            except Exception as e:  # the reference library cannot present this variable
                out[p] = e
        return out
    finally:
        ds.close()
