"""C17 — abstraction of a live cfdm Field/Domain into the emission requests of the Lean model
(lean/Cfdm/Model/Append.lean, `FieldReq`).

Only the analysis that does not depend on what is already in the dataset is done here, through
the public API: which axis has a dimension coordinate, scalar coordinate or not, default name
bases, which properties exist (values enter as short hashes), identity of contents (`cid`, from
the structural fingerprint — never from cfdm's `equals`).  Every decision that depends on the
writer's registry (sharing, names, dimensions) is the model's.

`abstract_field` returns None for features outside the model (compression, geometries,
variables, scalar formula-term parameters, UGRID); such scenarios are judged by the oracle alone.
"""
import hashlib
import json
import re

import numpy as np

from .. import fingerprint as FP

KIND = {"dimension_coordinate": 0, "auxiliary_coordinate": 1, "domain_ancillary": 2, "cell_measure": 3,
        "field_ancillary": 4, "ref": 5, "bounds": 6, "field": 7, "domain": 8}
DESCR = ("comment", "Conventions", "featureType", "history", "institution", "references", "source", "title")


class Unmodelled(Exception):
    pass


def _vnorm(v):
    """Values that cfdm's equality regards as equal get one text: numbers of any numeric type as floats."""
    if isinstance(v, np.ndarray):
        if v.dtype.kind in "fiub":
            return [_vnorm(x) for x in v.flatten().tolist()] if v.size != 1 else _vnorm(v.flatten().tolist()[0])
        return [str(x) for x in v.flatten().tolist()]
    if isinstance(v, np.generic):
        return _vnorm(v.item())
    if isinstance(v, bool):
        return repr(float(v))
    if isinstance(v, (int, float)):
        return "nan" if v != v else repr(float(v))
    if isinstance(v, (list, tuple)):
        return [_vnorm(x) for x in v]
    if hasattr(v, "array") and type(v).__name__ == "Data":
        return ["data", _vnorm(np.asanyarray(v.array)), str(getattr(v, "get_units", lambda d: None)(None))]
    return str(v)


def vhash(v):
    return hashlib.sha1(json.dumps(_vnorm(v), sort_keys=True, default=str).encode()).hexdigest()[:10]


class Cids:
    """fingerprint → small integer, stable within a scenario."""

    def __init__(self):
        self.m = {}

    def __call__(self, s):
        return self.m.setdefault(s, len(self.m) + 1)


def _drop(x, keys=("fill_value", "type", "nc")):
    if isinstance(x, dict):
        return {k: _drop(v, keys) for k, v in x.items() if k not in keys}
    if isinstance(x, list):
        return [_drop(v, keys) for v in x]
    return x


def _num(key):
    m = re.search(r"(\d+)$", key)
    if not m:
        raise Unmodelled("key " + key)
    return int(m.group(1))


def _is_string(c):
    d = c.get_data(None)
    return d is not None and d.dtype.kind in "SUO"


def _strlen(c, char):
    if not char or not _is_string(c):
        return None
    a = np.ma.compressed(np.ma.asanyarray(c.data.array))
    return max([len(str(x)) for x in a.flatten().tolist()] or [0])


def _shape(x):
    """Shape of the data that the writer hands to netCDF (without the char dimension)."""
    d = x.get_data(None) if hasattr(x, "get_data") else None
    return [int(n) for n in d.shape] if d is not None else []


class FieldAbs:
    def __init__(self, f, cids, char, keyno):
        self.f = f
        self.cids = cids
        self.char = char
        self.keyno = keyno  # construct key → number (unique per field)

    def key(self, k):
        return self.keyno.setdefault(k, len(self.keyno))

    def cons(self, c, kind, squeeze=False):
        x = c
        if squeeze:
            x = c.squeeze(0) if hasattr(c, "squeeze") else c
        fp = _drop(FP.fp_construct(x, names=False))
        cid = self.cids(json.dumps(fp, sort_keys=True, default=str))
        attrs = [[k, vhash(v)] for k, v in sorted(x.properties().items())]
        return [cid, kind, _strlen(c, self.char), attrs, _shape(x)]

    def breq(self, c, squeeze=False):
        b = c.get_bounds(None)
        if b is None or b.get_data(None) is None:
            return None
        if c.get_geometry(None) is not None:
            raise Unmodelled("geometry")
        x = b.squeeze(0) if squeeze else b
        fp = _drop(dict(props=FP.fp_props(x), data=FP.fp_data(x.get_data(None))))
        cid = self.cids("B" + json.dumps(fp, sort_keys=True, default=str))
        attrs = [[k, vhash(v)] for k, v in sorted(x.properties().items())]
        size = b.data.shape[-1]
        clim = False
        try:
            clim = bool(c.is_climatology()) if hasattr(c, "is_climatology") else False
        except Exception:
            clim = False
        return [[cid, KIND["bounds"], None, attrs, _shape(x)], size, b.nc_get_dimension(f"bounds{size}"), b.nc_get_variable(None), clim]


def _base(c, default):
    v = c.nc_get_variable(None)
    if v is None:
        try:
            v = c.get_property("standard_name", default)
        except AttributeError:
            v = default
    return v


def _cm_rest(cm):
    """str(cell method) without the leading 'axis: axis:' part."""
    s = str(cm)
    axes = cm.get_axes(())
    prefix = " ".join(f"{a}:" for a in axes)
    if axes and s.startswith(prefix):
        return s[len(prefix):]
    return " " + s if not axes else s


def abstract_field(f0, cids, fmt="NETCDF4", string=True, cand=()):
    """FieldReq JSON of one construct, or None when outside the model.  `cand`: names of the
    candidate global attributes of the whole batch."""
    try:
        return _abstract(f0, cids, fmt, string, cand)
    except Unmodelled:
        return None


def _abstract(f0, cids, fmt, string, cand):
    f = f0.copy()
    is_domain = type(f).__name__ == "Domain"
    char = (fmt != "NETCDF4") or not string
    A = FieldAbs(f, cids, char, {})
    if not is_domain:
        d = f.get_data(None)
        if d is not None and d.get_compression_type():
            raise Unmodelled("compression")
    for c in f.constructs.filter_by_data(todict=True).values():
        if c.get_data(None) is not None and c.data.get_compression_type():
            raise Unmodelled("compression")
    if f.constructs.filter_by_type("domain_topology", "cell_connectivity", todict=True):
        raise Unmodelled("ugrid")
    axes = f.domain_axes(todict=True)
    da = f.constructs.data_axes()
    data_axes = list(f.get_data_axes(default=())) if not is_domain else list(axes)
    field_axes = list(data_axes)  # the data dimensions of the field's variable (insertions go to position 0)
    refs = f.coordinate_references(todict=True)
    coords = f.coordinates(todict=True)

    # formula terms: owning coordinates get a computed_standard_name (before anything is written)
    ft_refs = [r for r in refs.values() if r.coordinate_conversion.get_parameter("standard_name", None)]
    gm_refs = [r for r in refs.values() if r.coordinate_conversion.get_parameter("grid_mapping_name", None)]
    last = None
    owners = []
    for r in ft_refs:
        sn = r.coordinate_conversion.get_parameter("standard_name", None)
        csn = r.coordinate_conversion.get_parameter("computed_standard_name", None)
        ck = None
        if sn is not None and csn is not None:
            for k in r.coordinates():
                c = coords[k]
                last = c
                if not (c.data.ndim == 1 and c.get_property("standard_name", None) == sn):
                    continue
                if ck is not None:
                    ck = None
                    break
                ck = k
        owners.append((ck, csn))
    for ck, csn in owners:
        if ck is None:
            continue
        x = last.get_property("computed_standard_name", None) if last is not None else None
        if x is None:
            coords[ck].set_property("computed_standard_name", csn)
        elif x != csn:
            raise Unmodelled("computed standard name clash")

    reqs = []
    dimc = f.dimension_coordinates(todict=True)
    for axis in sorted(axes):
        ax = axes[axis]
        ncdim = ax.nc_get_dimension(None)
        size = ax.get_size()
        unlim = bool(ax.nc_is_unlimited())
        found = False
        for k, c in dimc.items():
            if tuple(da.get(k, ())) != (axis,):
                continue
            spanning = [kk for kk, aa in da.items() if axis in aa]
            if axis in data_axes:
                reqs.append(["dc", A.key(k), _num(axis), A.cons(c, 0), _base(c, None), ncdim, size, unlim, A.breq(c)])
            elif len(spanning) >= 2:
                reqs.append(["dc", A.key(k), _num(axis), A.cons(c, 0), _base(c, None), ncdim, size, unlim, A.breq(c)])
                if not is_domain:
                    field_axes.insert(0, axis)
            else:
                reqs.append(["sc", A.key(k), _num(axis), A.cons(c, 0, squeeze=True), _base(c, "scalar"), A.breq(c, squeeze=True)])
            found = True
            break
        if not found:
            spanning = {kk: aa for kk, aa in da.items() if axis in aa}
            span_aux = {kk: aa for kk, aa in spanning.items()
                        if f.constructs[kk].construct_type == "auxiliary_coordinate" and tuple(aa) == (axis,)}
            if axis not in data_axes and spanning and spanning != span_aux:
                if not is_domain:
                    field_axes.insert(0, axis)
                    data_axes.append(axis)
            if axis in data_axes:
                sp = []
                for kk, aa in spanning.items():
                    c = f.constructs[kk]
                    sp.append([A.cons(c, KIND.get(c.construct_type, 9))[0], KIND.get(c.construct_type, 9), list(aa).index(axis)])
                reqs.append(["ad", _num(axis), size, unlim, ax.nc_get_dimension("dim"), sp, ax.nc_get_dimension(None) is not None])
    for k, c in sorted(f.auxiliary_coordinates(todict=True).items()):
        aa = da[k]
        if c.get_geometry(None) is not None or c.get_data(None) is None:
            raise Unmodelled("geometry / data-less auxiliary coordinate")
        if len(aa) > 1 or aa[0] in data_axes:
            reqs.append(["ax", A.key(k), A.cons(c, 1), [_num(a) for a in aa], _base(c, "auxiliary"), A.breq(c)])
        else:
            reqs.append(["sc", A.key(k), _num(aa[0]), A.cons(c, 1, squeeze=True), _base(c, "scalar"), A.breq(c, squeeze=True)])
    for k, c in sorted(f.domain_ancillaries(todict=True).items()):
        default = None
        for r in refs.values():
            for term, dk in r.coordinate_conversion.domain_ancillaries().items():
                if dk == k:
                    default = term
                    break
            if default is not None:
                break
        if default is None:
            default = "domain_ancillary"
        if c.get_data(None) is None:
            raise Unmodelled("data-less domain ancillary")
        reqs.append(["da", A.key(k), A.cons(c, 2), [_num(a) for a in da[k]], _base(c, default), A.breq(c)])
    for k, c in sorted(f.cell_measures(todict=True).items()):
        ext = None
        if c.nc_get_external():
            # `_write_cell_measure`: an external measure needs a netCDF variable name (else ValueError)
            ext = c.nc_get_variable(None)
            if ext is None:
                raise Unmodelled("external cell measure without netCDF variable name")
        if c.get_measure(None) is None or (c.get_data(None) is None and ext is None):
            raise Unmodelled("cell measure without measure/data")
        reqs.append(["ms", A.key(k), A.cons(c, 3), [_num(a) for a in da[k]], _base(c, "cell_measure"), c.get_measure(), ext])
    gm_work = [r.copy() for r in gm_refs]
    for r in ft_refs:
        cc = r.coordinate_conversion
        sn = cc.get_parameter("standard_name", None)
        cs = [k for k in r.coordinates() if coords[k].get_property("standard_name", None) == sn]
        if len(cs) != 1:
            continue
        owner = cs[0]
        params = []
        for term, v in cc.parameters().items():
            if v is not None and term not in ("standard_name", "computed_standard_name"):
                # `_write_scalar_data`: a 0-d variable named after the term, written from the Data value (which has no
                # properties: the variable gets no attributes)
                if type(v).__name__ != "Data" or v.ndim != 0:
                    raise Unmodelled("scalar formula term that is not a 0-d Data")
                fp = _drop(dict(data=FP.fp_data(v)))
                params.append([term, [cids("D" + json.dumps(fp, sort_keys=True, default=str)), 9, None, [], []]])
        terms = []
        for term, dk in cc.domain_ancillaries().items():
            if dk is None:
                continue
            terms.append([term, A.key(dk), [_num(a) for a in da[dk]]])
        if terms or params:
            reqs.append(["ft", A.key(owner), _num(da[owner][0]), terms, params])
        # _create_vertical_datum
        if r.datum.parameters():
            hits = [g for g in gm_work if _drop(dict(p=sorted((k, vhash(v)) for k, v in g.datum.parameters().items()))) ==
                    _drop(dict(p=sorted((k, vhash(v)) for k, v in r.datum.parameters().items())))]
            if len(hits) == 1:
                hits[0].set_coordinate(owner)
            else:
                import cfdm
                g = cfdm.CoordinateReference(coordinates=[owner],
                                             coordinate_conversion=cfdm.CoordinateConversion(parameters={"grid_mapping_name": "latitude_longitude"}),
                                             datum=r.datum.copy())
                nv = r.datum.nc_get_variable(None) if hasattr(r.datum, "nc_get_variable") else None
                if nv is not None:
                    g.nc_set_variable(nv)
                gm_work.append(g)
    multiple = len(gm_work) > 1
    for g in gm_work:
        cc = g.coordinate_conversion
        params = dict(g.datum.parameters())
        if set(params) & set(cc.parameters()):
            raise Unmodelled("parameter both datum and conversion")
        params.update(cc.parameters())
        params = {k: v for k, v in params.items() if v is not None}
        # CoordinateReference.equals: the *number* of coordinates, the parameters, which terms are None, the datum
        fp = dict(coords=len(g.coordinates()), conv=sorted((k, vhash(v)) for k, v in cc.parameters().items()),
                  anc=sorted((k, v is None) for k, v in cc.domain_ancillaries().items()),
                  datum=sorted((k, vhash(v)) for k, v in g.datum.parameters().items()))
        cid = cids("R" + json.dumps(fp, sort_keys=True, default=str))
        attrs = [[k, vhash(v)] for k, v in sorted(params.items())]
        base = g.nc_get_variable(None) or cc.get_parameter("grid_mapping_name", "grid_mapping")
        reqs.append(["gm", [cid, 5, None, attrs, []], base, [A.key(k) for k in g.coordinates()], multiple])
    if not is_domain:
        for k, c in f.field_ancillaries(todict=True).items():
            if c.get_data(None) is None:
                raise Unmodelled("data-less field ancillary")
            reqs.append(["fa", A.key(k), A.cons(c, 4), [_num(a) for a in da[k]], _base(c, "ancillary_data")])
    # the data / domain variable
    fp = _drop(FP.fingerprint(f0, names=False))
    cid = cids("F" + json.dumps(fp, sort_keys=True, default=str))
    attrs = [[k, vhash(v)] for k, v in sorted(f0.properties().items())]
    strlen = None
    if not is_domain and f.get_data(None) is not None and char and f.data.dtype.kind in "SUO":
        raise Unmodelled("string field data")
    cms = []
    if not is_domain:
        for cm in f.cell_methods(todict=True).values():
            axs = []
            for a in cm.get_axes(()):
                axs.append(_num(a) if a in axes else a)
            cms.append([axs, _cm_rest(cm)])
    # the data as written: size-one axes that the writer inserts are part of its shape
    dshape = [] if is_domain else [int(axes[a].get_size()) for a in field_axes]
    reqs.append(["dv", [cid, 8 if is_domain else 7, strlen, attrs, dshape], _base(f0, "domain" if is_domain else "data"),
                 [_num(a) for a in (field_axes if not is_domain else data_axes)], cms, is_domain])
    ga = f0.nc_global_attributes() if hasattr(f0, "nc_global_attributes") else {}
    ftf = ga.get("featureType")
    ft = ftf if ftf is not None else f0.get_property("featureType", None)
    props = f0.properties()
    gc = [[k, vhash(props[k])] for k in sorted(cand) if k in props]
    return dict(groups=bool(f0.nc_variable_groups()), ft=ft, ftf=ftf, gc=gc, reqs=reqs)


def batch_candidates(fields):
    """Names that `_write_global_attributes` considers for the batch: the description-of-file-contents
    attributes and every nc_global_attributes key whose value is None; forced ones are left out."""
    cand = set(DESCR)
    forced = {}
    for f in fields:
        ga = f.nc_global_attributes() if hasattr(f, "nc_global_attributes") else {}
        for k, v in ga.items():
            if v is None:
                cand.add(k)
            else:
                forced.setdefault(k, []).append(v)
    for k, vs in forced.items():
        if len(vs) == len(fields) and len(set(map(str, vs))) == 1:
            cand.discard(k)
    return sorted(cand)


def abstract_dataset(view):
    """The model's view of E from the netCDF4-only view."""
    g = [[k, vhash(_unattr(v))] for k, v in sorted(view["g"].items())]
    ft = view["g"].get("featureType")
    return dict(dims=[[k, d[0], bool(d[1])] for k, d in view["d"].items()], vars=list(view["v"]), g=g,
                ft=ft if isinstance(ft, str) else None)


def _unattr(v):
    if isinstance(v, list) and v and v[0] in ("a", "s"):
        return np.array(v[2], dtype=v[1]) if v[0] == "a" else np.array(v[2], dtype=v[1])[()]
    return v
