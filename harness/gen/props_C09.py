"""C09 — families of fields that differ in their *properties* (stream C09.gp).

A case is JSON-able::

    {"fields": [{"props": {name: token}, "ncg": {name: None | token}, "sn": standard_name,
                 "path": [group, ...], "gattrs": {name: None}}, ...],          (path / gattrs optional)
     "global_attributes": None | name | [names], "variable_attributes": None | [names],
     "file_descriptors": None | {name: token}, "shape": "line" | "scalar", "orders": [[...], ...]}

Values travel as *tokens* (``sA``, ``i1`` …) whose Python values are in ``VAL``; every candidate property
(the description-of-file-contents attributes of ``NetCDFWrite.cf_description_of_file_contents_attributes``, free
names made candidates by ``global_attributes=`` or by ``nc_set_global_attribute``) is put, field by field, in one of
the states value A / value B / absent — in particular "the first field has it and a later one lacks it entirely" and
its mirror image —, crossed with ``variable_attributes=``, ``file_descriptors=`` and forced global values.  A quarter
of the cases put the fields into netCDF groups (all in one group, group + sub-group, root + group, two groups) and flag
properties as *group* attributes (``nc_set_group_attribute(name)``).
"""
import itertools
import json

import numpy as np

from . import fields as F

VAL = {
    "sA": "value A", "sB": "value B", "sC": "2019-01-01 created", "sD": "d",
    "i1": 7, "i2": 42, "f1": 2.5, "f2": -3.25,
    "a1": np.array([1, 2, 4], dtype="i4"), "a2": np.array([1.5, 2.0], dtype="f8"),
}
FREE = ["project", "experiment_id", "realization", "foo"]
STD = ["air_temperature", "eastward_wind", "northward_wind", "air_pressure", "specific_humidity"]
# attributes of a data variable that are not properties of the field in the sense of this stream
STRUCT = {"standard_name", "units", "Conventions", "coordinates", "cell_methods", "_FillValue", "missing_value",
          "grid_mapping", "ancillary_variables", "cell_measures"}


def cfdm():
    return F.cfdm()


def canon(v):
    """canonical text of a property / attribute value (numeric types normalised)"""
    if isinstance(v, bytes):
        v = v.decode(errors="ignore")
    if isinstance(v, np.ndarray):
        if v.ndim == 0 or v.size == 1:
            return canon(v.reshape(-1)[0])
        return json.dumps(["a"] + [float(x) for x in v.tolist()])
    if isinstance(v, np.generic):
        v = v.item()
    if isinstance(v, bool):
        return json.dumps(["b", v])
    if isinstance(v, (int, float)):
        return json.dumps(["n", float(v)])
    if isinstance(v, (list, tuple)):
        return json.dumps(["a"] + [float(x) for x in v])
    return json.dumps(["s", str(v)])


_CANON = None


def token_of(v):
    """the token of a value seen in a file / on a construct (``x…`` when it is none of ours)"""
    global _CANON
    if _CANON is None:
        _CANON = {canon(x): t for t, x in VAL.items()}
    c = canon(v)
    if c in _CANON:
        return _CANON[c]
    import hashlib
    return "x" + hashlib.sha1(c.encode()).hexdigest()[:8]


def descr():
    C = cfdm()
    return sorted(C.read_write.netcdf.NetCDFWrite.cf_description_of_file_contents_attributes(None))


def aslist(x):
    if x is None:
        return []
    if isinstance(x, str):
        return [x]
    return list(x)


# ------------------------------------------------------------------------------------------------ generation
PATTERNS = ["all", "all", "first_only", "last_only", "one_only", "all_but_first", "all_but_last", "one_differs",
            "first_differs", "random", "random"]


def states(rng, n, pattern):
    """per-field state of one property: 'A', 'B' or None (absent)"""
    if pattern == "all":
        return ["A"] * n
    if pattern == "first_only":
        return ["A"] + [None] * (n - 1)
    if pattern == "last_only":
        return [None] * (n - 1) + ["A"]
    if pattern == "one_only":
        k = rng.randrange(n)
        return ["A" if i == k else None for i in range(n)]
    if pattern == "all_but_first":
        return [None] + ["A"] * (n - 1)
    if pattern == "all_but_last":
        return ["A"] * (n - 1) + [None]
    if pattern == "one_differs":
        k = rng.randrange(n)
        return ["B" if i == k else "A" for i in range(n)]
    if pattern == "first_differs":
        return ["B"] + ["A"] * (n - 1)
    return [rng.choice(["A", "A", "B", None]) for _ in range(n)]


def pair(rng):
    """two different tokens of one kind"""
    kind = rng.choice(["s", "s", "s", "i", "f", "a"])
    ts = sorted(t for t in VAL if t[0] == kind)
    a = rng.choice(ts)
    b = rng.choice([t for t in ts if t != a])
    return a, b


def gen_case(rng, tier):
    n = rng.choice([2, 2, 2, 3, 3, 3, 4] if tier != "quick" else [2, 2, 2, 3, 3, 3])
    d = [x for x in descr() if x != "Conventions"]
    names = rng.sample(d, rng.choice([1, 1, 2, 2, 3]))
    free = rng.sample(FREE, rng.choice([0, 1, 1, 2]))
    fields = [dict(props={}, ncg={}, sn=STD[i % len(STD)]) for i in range(n)]
    tags = []
    for nm in names + free:
        a, b = pair(rng)
        pat = rng.choice(PATTERNS)
        tags.append("gp:" + pat)
        for f, st in zip(fields, states(rng, n, pat)):
            if st is not None:
                f["props"][nm] = a if st == "A" else b
    ga = []
    for nm in free:
        r = rng.random()
        if r < 0.25:
            ga.append(nm)                      # global_attributes=
            tags.append("gp:free:option")
        elif r < 0.55:
            for f in fields:                   # flagged by every field that has it
                if nm in f["props"]:
                    f["ncg"][nm] = None
            tags.append("gp:free:flag_all")
        elif r < 0.7:
            rng.choice(fields)["ncg"][nm] = None   # flagged by one field (whether or not it has the property)
            tags.append("gp:free:flag_one")
        elif r < 0.8:
            t = rng.choice(["sC", "sD"])
            for f in fields:                   # one value forced by every field
                f["ncg"][nm] = t
            tags.append("gp:free:forced_all")
        elif r < 0.86:
            rng.choice(fields)["ncg"][nm] = "sC"   # forced by one field only (open finding when others do not)
            tags.append("gp:free:forced_one")
        else:
            tags.append("gp:free:plain")
    if rng.random() < 0.1:
        # a description attribute flagged as well / forced by all
        nm = rng.choice(names)
        if rng.random() < 0.6:
            for f in fields:
                f["ncg"][nm] = None
        else:
            for f in fields:
                f["ncg"][nm] = "sD"
            tags.append("gp:descr:forced_all")
    if rng.random() < 0.06:
        for f in fields:
            if rng.random() < 0.7:
                f["props"]["Conventions"] = "sD"
        tags.append("gp:Conventions-property")
    pool = names + free
    va = None
    if rng.random() < 0.2:
        va = rng.sample(pool, 1)
        tags.append("gp:variable_attributes")
    fd = None
    if rng.random() < 0.25:
        fd = {rng.choice(pool + ["creator"]): rng.choice(["sC", "sD", "i2"])}
        tags.append("gp:file_descriptors")
    g = None
    if ga:
        g = ga[0] if len(ga) == 1 and rng.random() < 0.5 else ga
    elif rng.random() < 0.08:
        g = rng.choice(pool)
        tags.append("gp:global_attributes-on-descr")
    if rng.random() < 0.25:
        tags += add_groups(rng, fields, names + free)
    perms = [list(p) for p in itertools.permutations(range(n))]
    if n > 3:
        rest = perms[1:]
        rng.shuffle(rest)
        perms = [perms[0], list(reversed(range(n)))] + rest[:4]
    p = dict(fields=fields, global_attributes=g, variable_attributes=va, file_descriptors=fd,
             shape=rng.choice(["line", "line", "scalar"]), orders=perms)
    return p, sorted(set(tags)) + [f"gp:n={n}"]


LAYOUTS = ["same", "same", "sub", "sub", "root+group", "two", "deep"]


def add_groups(rng, fields, names):
    """put the fields into groups and flag properties as group attributes (flags only: a group attribute with a
    value of its own replaces the property for every construct of the group by design)"""
    n = len(fields)
    lay = rng.choice(LAYOUTS)
    if lay == "same":
        paths = [["m"]] * n
    elif lay == "sub":      # the first in /m, the others in /m or /m/sub (at least one in the sub-group)
        paths = [["m"]] + [rng.choice([["m"], ["m", "sub"]]) for _ in range(n - 1)]
        paths[rng.randrange(1, n)] = ["m", "sub"]
    elif lay == "root+group":
        paths = [[]] + [["m"]] * (n - 1)
    elif lay == "two":
        paths = [["a"]] + [rng.choice([["a"], ["b"]]) for _ in range(n - 1)]
        paths[rng.randrange(1, n)] = ["b"]
    else:
        paths = [["m", "sub", "deep"]] + [rng.choice([["m"], ["m", "sub"]]) for _ in range(n - 1)]
    if rng.random() < 0.5:
        order = list(range(n))
        rng.shuffle(order)
        paths = [paths[i] for i in order]
    for f, pth in zip(fields, paths):
        f["path"] = list(pth)
        f["gattrs"] = {}
    tags = ["gp:groups:" + lay]
    # flags: mostly where everything below the group agrees (the attribute is written), sometimes anywhere
    mode = rng.choice(["agree", "agree", "any", "any"])
    for nm in names:
        for i, f in enumerate(fields):
            if not f["path"] or nm not in f["props"] or rng.random() < 0.5:
                continue
            below = [g for g in fields if g.get("path", [])[: len(f["path"])] == f["path"]]
            agree = all(g["props"].get(nm) == f["props"][nm] for g in below)
            if mode == "agree" and not agree:
                continue
            f["gattrs"][nm] = None
            tags.append("gp:groupflag:" + ("agree" if agree else "disagree"))
    roots = [f for f in fields if not f["path"]]
    tops = sorted({f["path"][0] for f in fields if f["path"]})
    if roots and tops and rng.random() < 0.15:
        # a root-group variable pinned to the name of a group of the dataset (legal for either construct alone)
        roots[0]["ncvar"] = tops[0]
        tags.append("gp:ncvar-named-like-group")
    return tags


def ncvar_of(p, i):
    return p["fields"][i].get("ncvar") or f"f{i}"


# ------------------------------------------------------------------------------------------------ construction
def build(p):
    """the cfdm fields of a case (field i is netCDF variable ``f<i>``)"""
    C = cfdm()
    out = []
    for i, fd in enumerate(p["fields"]):
        props = {"standard_name": fd["sn"], "units": "K"}
        for k, t in fd["props"].items():
            props[k] = VAL[t]
        f = C.Field(properties=props)
        f.nc_set_variable(fd.get("ncvar") or f"f{i}")
        if p.get("shape") == "scalar":
            at = f.set_construct(C.DomainAxis(1))
        ax = f.set_construct(C.DomainAxis(3))
        f.set_data(C.Data(np.arange(3.0) + i), axes=[ax])
        x = C.DimensionCoordinate(properties={"standard_name": "longitude", "units": "degrees_east"},
                                  data=C.Data(np.array([0.0, 120.0, 240.0])))
        f.set_construct(x, axes=[ax])
        if p.get("shape") == "scalar":
            t = C.DimensionCoordinate(properties={"standard_name": "time", "units": "days since 2000-01-01"},
                                      data=C.Data(np.array([15.0])))
            f.set_construct(t, axes=[at])
            f.set_construct(C.CellMethod(axes=[at], method="mean"))
        for k, t in fd["ncg"].items():
            if t is None:
                f.nc_set_global_attribute(k)
            else:
                f.nc_set_global_attribute(k, VAL[t])
        if fd.get("path"):
            f.nc_set_variable_groups(fd["path"])
        for k, t in (fd.get("gattrs") or {}).items():
            if t is None:
                f.nc_set_group_attribute(k)
            else:
                f.nc_set_group_attribute(k, VAL[t])
        out.append(f)
    return out


def write_kwargs(p):
    kw = {}
    if p["global_attributes"] is not None:
        kw["global_attributes"] = p["global_attributes"]
    if p["variable_attributes"] is not None:
        kw["variable_attributes"] = p["variable_attributes"]
    if p["file_descriptors"] is not None:
        kw["file_descriptors"] = {k: VAL[t] for k, t in p["file_descriptors"].items()}
    return kw


def line(p):
    """protocol line for the model"""
    def d(x):
        return ",".join(f"{k}~{'_' if v is None else v}" for k, v in x.items()) or "_"
    fs = "|".join(d(f["props"]) + "/" + d(f["ncg"]) + "/" + ("+".join(f.get("path") or []) or "_") + "/" + d(f.get("gattrs") or {})
                  for f in p["fields"])
    lst = lambda x: ",".join(x) or "_"
    return ("C09.gp descr=" + lst(descr()) + " glob=" + lst(aslist(p["global_attributes"])) + " var=" + lst(aslist(p["variable_attributes"]))
            + " fd=" + d(p["file_descriptors"] or {}) + " fields=" + fs + " orders=" + ",".join("+".join(map(str, o)) for o in p["orders"]))
