"""Seeded recipes for instances of every public cfdm class that C04 ranges over.

A *recipe* is a small JSON-able dict ``{"src": ..., "seed": n, "pick": k, ...}``;
``build(recipe)`` rebuilds exactly the same object every time (all random
choices come from ``fw.rng_for(seed)``), so a replay needs only the recipe.

Sources
  ex     cfdm.example_field(i), i in 0..11, one of its components picked
  rnd    harness.gen.fields.random_field (shared generator, used read-only)
  comp   a field whose data are a ragged / gathered array built ab initio
  geom   example field 6 (geometry, interior ring, node counts attached)
  sub    a coordinate whose data (and bounds) are SubsampledArray objects
  mesh   data held in the three UGRID mesh array classes
  file   example field written with cfdm.write and read back lazily
         (NetCDF4Array / H5netcdfArray)
  new    a stand-alone instance of one class built through its constructor

Classes outside the property ("construct, data object or constructs
collection") are listed in OUT_OF_SCOPE with the reason.
"""
import atexit
import inspect
import os
import shutil
import tempfile

import numpy as np

from .. import fw
from . import fields as genfields


def cfdm():
    return genfields.cfdm()


OUT_OF_SCOPE = {
    "CFDMImplementation": "reader/writer plumbing, not a construct, data object or collection",
    "Implementation": "reader/writer plumbing",
    "Configuration": "global settings dictionary (C20)",
    "Constant": "global settings value (C20)",
    "ConstantAccess": "global settings accessor (C20)",
    "atol": "global settings accessor (C20)",
    "rtol": "global settings accessor (C20)",
    "log_level": "global settings accessor (C20)",
    "Version": "packaging.version re-export",
    "netcdf_indexer": "indexing wrapper without copy(); C03/C07",
    "NetCDFArray": "deprecated alias that cannot be instantiated",
    "Container": "abstract base without state of its own",
    "Array": "abstract base",
    "CompressedArray": "abstract base",
    "RaggedArray": "abstract base",
    "Subarray": "abstract base",
    "SubsampledSubarray": "abstract base",
    "InterpolationSubarray": "abstract base",
}


def public_classes():
    C = cfdm()
    out = []
    for n in sorted(dir(C)):
        if n.startswith("_"):
            continue
        k = getattr(C, n)
        if inspect.isclass(k):
            out.append(n)
    return out


def in_scope_classes():
    return [n for n in public_classes() if n not in OUT_OF_SCOPE]


# --------------------------------------------------------------------------- scratch files
_scratch = None


def scratch():
    global _scratch
    if _scratch is None:
        _scratch = tempfile.mkdtemp(prefix="verif_c04_")
        atexit.register(shutil.rmtree, _scratch, True)
    return _scratch


_file_cache = {}


def file_field(i, backend):
    """example field i written by cfdm.write and read back (lazy file arrays); None when that fails here."""
    C = cfdm()
    key = (i, os.getpid())
    if key not in _file_cache:
        path = os.path.join(scratch(), f"ex{i}_{os.getpid()}.nc")
        try:
            C.write(C.example_field(i), path)
            _file_cache[key] = path if len(C.read(path)) >= 1 else None
        except Exception:
            _file_cache[key] = None
    path = _file_cache[key]
    if path is None:
        return None
    try:
        return C.read(path, netcdf_backend=backend)[0]
    except Exception:
        return None


# --------------------------------------------------------------------------- small random pieces
NAMES = ["lat", "lon", "time", "x", "y", "z", "ta", "q", "p0", "orog", "area2", "bnds", "v1", "v_2", "T"]
TERMS = ["a", "b", "orog", "p0"]


def rand_data(rng, kind=None, shape=None):
    C = cfdm()
    if shape is None:
        shape = [rng.randint(1, 4) for _ in range(rng.choice([0, 1, 1, 1, 2, 2, 3]))]
    n = int(np.prod(shape)) if shape else 1
    kind = kind or rng.choice(["f", "f", "f", "i", "str", "bool", "f4", "reftime", "fmask"])
    if kind == "str":
        a = np.array([rng.choice(["a", "bc", "xyz", "station 1", ""]) for _ in range(n)]).reshape(shape)
        d = C.Data(a)
    elif kind == "bool":
        d = C.Data(np.array([rng.random() < 0.5 for _ in range(n)]).reshape(shape))
    elif kind == "i":
        d = C.Data(np.array([rng.randint(-5, 50) for _ in range(n)]).reshape(shape), units=rng.choice([None, "m", "1"]))
    elif kind == "f4":
        d = C.Data(np.array([rng.randint(-50, 50) / 4 for _ in range(n)], dtype="f4").reshape(shape), units="K")
    elif kind == "reftime":
        d = C.Data(np.array([float(rng.randint(0, 4000)) for _ in range(n)]).reshape(shape),
                   units=rng.choice(["days since 2000-01-01", "hours since 1970-01-01 00:00:00"]),
                   calendar=rng.choice([None, "gregorian", "360_day", "noleap"]))
    else:
        a = np.array([rng.randint(-500, 500) / 8 for _ in range(n)]).reshape(shape)
        if (kind == "fmask" or rng.random() < 0.3) and n > 0:
            m = np.array([rng.random() < 0.4 for _ in range(n)]).reshape(shape)
            a = np.ma.array(a, mask=m)
        d = C.Data(a, units=rng.choice([None, "m", "K", "degrees_north"]), fill_value=rng.choice([None, None, -999.0]))
    if rng.random() < 0.3:
        d.nc_set_hdf5_chunksizes(rng.choice(["contiguous", 1024, [max(1, s - 1) for s in d.shape]]))
    return d


def rand_props(rng):
    p = {}
    if rng.random() < 0.6:
        p["standard_name"] = rng.choice(["air_temperature", "latitude", "time", "altitude"])
    if rng.random() < 0.4:
        p["long_name"] = rng.choice(["a long name", "x", "something else"])
    if rng.random() < 0.4:
        p["units"] = rng.choice(["K", "m", "degrees_east", "days since 2000-01-01"])
        if "since" in p["units"] and rng.random() < 0.6:
            p["calendar"] = rng.choice(["gregorian", "360_day"])
    if rng.random() < 0.25:
        # mutable property values: numpy arrays and lists (deep-copied by pickle)
        p["flag_values"] = np.array([1, 2, 4], dtype="i4")
        p["flag_meanings"] = "a b c"
    if rng.random() < 0.15:
        p["valid_range"] = [0.0, 10.0]
    if rng.random() < 0.15:
        p["_FillValue"] = np.float64(-999.0)
    return p


def params(rng):
    C = cfdm()
    p = {}
    if rng.random() < 0.6:
        p["earth_radius"] = rng.choice([6371007, 6371007.0])
    if rng.random() < 0.4:
        p["grid_mapping_name"] = "rotated_latitude_longitude"
    if rng.random() < 0.35:
        p["semi_major_axis"] = C.Data(6378137.0, "m")
    if rng.random() < 0.35:
        p["standard_parallel"] = rng.choice([[25.0, 30.0], np.array([25.0, 30.0]), np.float64(25.0), C.Data([25.0, 30.0], "degrees_north")])
    return p


def nc_decorate(x, rng):
    """Set a random selection of the netCDF names/attributes the class offers."""
    def tryit(name, *a):
        fn = getattr(x, name, None)
        if fn is not None:
            try:
                fn(*a)
            except Exception:
                pass
    if rng.random() < 0.6:
        tryit("nc_set_variable", rng.choice(NAMES))
    if rng.random() < 0.4:
        tryit("nc_set_dimension", rng.choice(NAMES))
    if rng.random() < 0.3:
        tryit("nc_set_sample_dimension", rng.choice(NAMES))
    if rng.random() < 0.3:
        tryit("nc_set_global_attributes", {"history": None, "comment": "global comment", "flags": np.array([1, 2])})
    if rng.random() < 0.2:
        tryit("nc_set_group_attributes", {"institution": "x", "vec": [1, 2]})
    if rng.random() < 0.2:
        tryit("nc_set_variable_groups", ["forecast", "model"])
    if rng.random() < 0.15:
        tryit("nc_set_unlimited", True)
    if rng.random() < 0.15:
        tryit("nc_set_external", True)
    if rng.random() < 0.2:
        tryit("nc_set_geometry_variable", "geom1")
    if rng.random() < 0.15:
        tryit("nc_set_unlimited_axis", "domainaxis0")
    if rng.random() < 0.15:
        tryit("set_mesh_id", 12345)
    return x


def masking_props(x, rng, p=0.45):
    """Give x (a construct with numeric data) valid_*/fill properties that bite on its own values."""
    try:
        d = x.get_data(None)
        if d is None or d.dtype.kind not in "fiu" or not d.size:
            return x
        vals = np.ma.compressed(d.array)
        if not vals.size or rng.random() > p:
            return x
        v = vals[rng.randrange(vals.size)].item()
        kind = rng.choice(["valid_min", "valid_max", "_FillValue", "missing_value", "valid_range"])
        if kind == "valid_range":
            x.set_property("valid_range", [float(min(vals)), float(v)])
        else:
            x.set_property(kind, v)
    except fw.HarnessError:
        raise
    except Exception:
        pass
    return x


def masking_props_field(f, rng):
    masking_props(f, rng, 0.3)
    for c in f.constructs.filter_by_data(todict=True).values():
        masking_props(c, rng, 0.4)
    return f


# --------------------------------------------------------------------------- composite sources
def compressed_array(kind, rng):
    C = cfdm()
    if kind == "contiguous":
        counts = [rng.randint(1, 3) for _ in range(rng.randint(1, 3))]
        n, m = len(counts), max(counts)
        cv = C.Count(data=C.Data(np.array(counts)), properties={"long_name": "number of obs"})
        cv.nc_set_variable("row_size")
        cv.nc_set_sample_dimension("obs")
        return C.RaggedContiguousArray(compressed_array=np.arange(sum(counts), dtype=float), shape=(n, m), count_variable=cv), (n, m)
    if kind == "indexed":
        n = rng.randint(1, 3)
        idx = list(range(n)) + [rng.randrange(n) for _ in range(rng.randint(0, 3))]
        rng.shuffle(idx)
        m = max(idx.count(i) for i in range(n))
        iv = C.Index(data=C.Data(np.array(idx)), properties={"long_name": "which station"})
        iv.nc_set_variable("station_index")
        return C.RaggedIndexedArray(compressed_array=np.arange(len(idx), dtype=float), shape=(n, m), index_variable=iv), (n, m)
    if kind == "indexed_contiguous":
        n = rng.randint(1, 2)
        pidx = sorted(list(range(n)) + [rng.randrange(n) for _ in range(rng.randint(0, 2))])
        counts = [rng.randint(1, 3) for _ in pidx]
        p = max(pidx.count(i) for i in range(n))
        m = max(counts)
        cv = C.Count(data=C.Data(np.array(counts)))
        iv = C.Index(data=C.Data(np.array(pidx)))
        iv.nc_set_variable("profile_index")
        return C.RaggedIndexedContiguousArray(compressed_array=np.arange(sum(counts), dtype=float), shape=(n, p, m),
                                              count_variable=cv, index_variable=iv), (n, p, m)
    a, b, c = rng.randint(1, 2), rng.randint(1, 3), rng.randint(1, 3)
    k = rng.randint(1, b * c)
    lst = sorted(rng.sample(range(b * c), k))
    lv = C.List(data=C.Data(np.array(lst)), properties={"long_name": "list"})
    lv.nc_set_variable("landpoint")
    return C.GatheredArray(compressed_array=np.arange(a * k, dtype=float).reshape(a, k), shape=(a, b, c),
                           compressed_dimensions={1: (1, 2)}, list_variable=lv), (a, b, c)


COMP_KINDS = ["contiguous", "indexed", "indexed_contiguous", "gathered"]


def compressed_field(kind, rng):
    C = cfdm()
    f = C.Field(properties={"standard_name": "air_temperature", "units": "K"})
    arr, shape = compressed_array(kind, rng)
    axes = [f.set_construct(C.DomainAxis(s)) for s in shape]
    f.set_data(C.Data(arr), axes=axes)
    aux = C.AuxiliaryCoordinate(properties={"long_name": "obs coordinate"}, data=C.Data(arr))
    if kind == "contiguous" and rng.random() < 0.6:
        # bounds held in a ragged array too (uncompress is then effective on the bounds)
        try:
            cv = arr.get_count()
            nobs = int(cv.data.array.sum())
            barr = C.RaggedContiguousArray(compressed_array=np.arange(2.0 * nobs).reshape(nobs, 2), shape=tuple(shape) + (2,),
                                           count_variable=cv.copy())
            aux.set_bounds(C.Bounds(data=C.Data(barr)))
        except Exception:
            pass
    f.set_construct(aux, axes=axes)
    if rng.random() < 0.5:
        f.set_construct(C.CellMethod(axes=[axes[0]], method="mean", qualifiers={"interval": [C.Data(1, "hour")]}))
    return f


def subsampled_arrays(rng):
    """(coordinate array, bounds array) as SubsampledArray objects (linear or quadratic, 1-d)."""
    C = cfdm()
    if rng.random() < 0.25:
        # two subsampled dimensions, bi_linear
        ts = []
        for _ in range(2):
            t = [0]
            for _ in range(rng.randint(1, 2)):
                t.append(t[-1] + rng.randint(1, 3))
            ts.append(t)
        tp = np.array([[float(10 * i + j + rng.randint(0, 2)) for j in ts[1]] for i in ts[0]])
        tpi = {d: C.TiePointIndex(data=C.Data(np.array(t, dtype="i4"))) for d, t in enumerate(ts)}
        shape = (ts[0][-1] + 1, ts[1][-1] + 1)
        return C.SubsampledArray(compressed_array=C.Data(tp), shape=shape, interpolation_name="bi_linear",
                                 tie_point_indices=tpi), shape[0]
    nsub = rng.randint(1, 3)
    t = [0]
    for _ in range(nsub):
        t.append(t[-1] + rng.randint(1, 4))
    n = t[-1] + 1
    tp = np.array([float(10 * i + rng.randint(0, 3)) for i in t])
    tpi = {0: C.TiePointIndex(data=C.Data(np.array(t, dtype="i4")), properties={"long_name": "tie point index"})}
    tpi[0].nc_set_variable("tp_index")
    kwargs = dict(interpolation_name="linear", tie_point_indices=tpi)
    if rng.random() < 0.5:
        kwargs["interpolation_name"] = "quadratic"
        w = C.InterpolationParameter(data=C.Data(np.array([rng.randint(0, 3) / 2 for _ in range(nsub)])))
        w.nc_set_variable("w")
        kwargs["parameters"] = {"w": w}
        kwargs["parameter_dimensions"] = {"w": (0,)}
    coord = C.SubsampledArray(compressed_array=C.Data(tp), shape=(n,), **kwargs)
    return coord, n


def subsampled_coordinate(rng):
    C = cfdm()
    arr, n = subsampled_arrays(rng)
    c = C.AuxiliaryCoordinate(properties={"standard_name": "longitude", "units": "degrees_east"}, data=C.Data(arr, units="degrees_east"))
    nc_decorate(c, rng)
    return c


def mesh_array(kind, rng):
    C = cfdm()
    # two triangles sharing an edge, plus possibly a third
    faces = [[0, 1, 2], [1, 2, 3]]
    if rng.random() < 0.5:
        faces.append([2, 3, 4])
    nn = 1 + max(max(f) for f in faces)
    si = rng.choice([0, 1])
    conn = np.array(faces) + si
    if kind == "bounds":
        return C.BoundsFromNodesArray(node_connectivity=conn, shape=conn.shape,
                                      node_coordinates=np.array([float(rng.randint(0, 50)) for _ in range(nn)]),
                                      start_index=si, cell_dimension=0)
    if kind == "cellconn":
        nf = len(faces)
        ff = np.ma.masked_all((nf, 3), dtype=int)
        for i in range(nf):
            nb = [j for j in range(nf) if j != i and len(set(faces[i]) & set(faces[j])) == 2]
            for k, j in enumerate(nb):
                ff[i, k] = j + si
        return C.CellConnectivityArray(cell_connectivity=ff, start_index=si, cell_dimension=0)
    return C.PointTopologyArray(shape=(nn, float("nan")), start_index=si, cell_dimension=0, face_node_connectivity=conn)


MESH_KINDS = ["bounds", "cellconn", "point"]

GEO_CLASSES = ["AuxiliaryCoordinate", "AuxiliaryCoordinate", "DomainAncillary", "DimensionCoordinate"]
GEO_CELLS = [(1,), (1,), (1, 2), (2, 1), (1, 1), (3,), (2, 3), (1, 3)]


def geometry_coordinate(rng, cls=None, cells=None):
    """A coordinate-like construct with geometry, node bounds (cells…, parts, nodes), an interior ring
    (cells…, parts), node-count and part-node-count variables and netCDF names; the cell axes include
    size-1 axes (so that squeeze is effective), two cell axes (transpose) and a size-1 part axis."""
    C = cfdm()
    cls = cls or rng.choice(GEO_CLASSES)
    cells = tuple(cells) if cells is not None else rng.choice(GEO_CELLS)
    if cls == "DimensionCoordinate":
        cells = (cells[0] * (cells[1] if len(cells) > 1 else 1),)
    parts = rng.choice([1, 2, 2])
    nodes = rng.choice([3, 4])
    n = int(np.prod(cells))
    vals = np.array([float(10 * i + rng.randint(0, 5)) for i in range(n)]).reshape(cells)
    bvals = np.array([float(rng.randint(0, 60)) for _ in range(n * parts * nodes)]).reshape(cells + (parts, nodes))
    if rng.random() < 0.4 and parts > 1:
        bvals = np.ma.array(bvals)
        bvals[..., -1, nodes - 1:] = np.ma.masked
    rvals = np.array([rng.randint(0, 1) for _ in range(n * parts)]).reshape(cells + (parts,))
    c = getattr(C, cls)(properties={"standard_name": rng.choice(["longitude", "latitude"]), "units": "degrees"})
    c.set_data(C.Data(vals, "degrees"))
    b = C.Bounds(data=C.Data(bvals, "degrees"))
    if rng.random() < 0.5:
        b.nc_set_variable("nodes_x")
    c.set_bounds(b)
    c.set_geometry(rng.choice(["polygon", "polygon", "line"]))
    ir = C.InteriorRing(data=C.Data(rvals), properties={"long_name": "interior ring"})
    if rng.random() < 0.6:
        ir.nc_set_variable("interior_ring")
        ir.nc_set_dimension("part")
    c.set_interior_ring(ir)
    if rng.random() < 0.7:
        c.set_node_count(nc_decorate(C.NodeCountProperties(properties={"long_name": "node count"}), rng))
    if rng.random() < 0.7:
        c.set_part_node_count(nc_decorate(C.PartNodeCountProperties(properties={"long_name": "part node count"}), rng))
    if rng.random() < 0.5:
        # a valid_* / fill property of the parent that bites on the node values (bounds inherit it in apply_masking)
        flat = np.ma.compressed(bvals)
        v = float(flat[rng.randrange(flat.size)])
        c.set_property(rng.choice(["valid_min", "valid_max", "missing_value", "_FillValue"]), v)
    if rng.random() < 0.4:
        c.nc_set_variable(rng.choice(NAMES))
    return c


def geometry_field(rng):
    """A field whose auxiliary coordinates are geometry coordinates over its (partly size-1) axes."""
    C = cfdm()
    cells = rng.choice([(1, 2), (2, 1), (1, 1), (2, 3), (1, 3)])
    f = C.Field(properties={"standard_name": "air_temperature", "units": "K"})
    axes = [f.set_construct(C.DomainAxis(s)) for s in cells]
    f.set_data(C.Data(np.array([float(rng.randint(0, 40)) for _ in range(int(np.prod(cells)))]).reshape(cells), "K"), axes=axes)
    f.set_construct(geometry_coordinate(rng, "AuxiliaryCoordinate", cells), axes=axes)
    if rng.random() < 0.5:
        f.set_construct(geometry_coordinate(rng, "AuxiliaryCoordinate", (cells[0],)), axes=[axes[0]])
    if rng.random() < 0.4:
        f.set_property("valid_max", 20.0)
    return f


def square_field(rng):
    """A field whose data have two axes of the same size (so that swapping them is silent as far as shapes go), a third
    one of another size, and possibly an unused size-1 axis; dimension coordinates, a 2-d auxiliary coordinate over
    the two equal axes, a cell method."""
    C = cfdm()
    n = rng.choice([2, 3])
    m = rng.choice([k for k in (1, 2, 3, 4) if k != n])
    sizes = [n, n, m]
    rng.shuffle(sizes)
    if rng.random() < 0.4:
        sizes = sizes[:2] if sizes[0] == sizes[1] else [n, n]
    f = C.Field(properties={"standard_name": "air_temperature", "units": "K"})
    axes = [f.set_construct(C.DomainAxis(s)) for s in sizes]
    if rng.random() < 0.5:
        f.set_construct(C.DomainAxis(1))
    f.set_data(C.Data(np.arange(float(np.prod(sizes))).reshape(sizes), "K"), axes=axes)
    for i, (a, s) in enumerate(zip(axes, sizes)):
        if rng.random() < 0.8:
            d = C.DimensionCoordinate(properties={"long_name": f"axis {i}", "units": "m"}, data=C.Data(np.arange(float(s)) + i, "m"))
            f.set_construct(d, axes=[a])
    eq = [a for a, s in zip(axes, sizes) if s == n]
    if len(eq) >= 2 and rng.random() < 0.7:
        aux = C.AuxiliaryCoordinate(properties={"long_name": "aux 2d"}, data=C.Data(np.arange(float(n * n)).reshape(n, n)))
        f.set_construct(aux, axes=eq[:2])
    if rng.random() < 0.5:
        f.set_construct(C.CellMethod(axes=[axes[0]], method="mean"))
    return f


def first_subarray(arr, which=0):
    """A Subarray object exactly as the array's own __getitem__ builds it (None when the class has none)."""
    try:
        Sub = arr.get_Subarray()
        kw = {**arr.conformed_data(), **arr.subarray_parameters()}
        rows = list(zip(*arr.subarrays()))
    except Exception:
        return None
    if not rows:
        return None
    row = rows[which % len(rows)]
    try:
        if len(row) >= 6:
            u_indices, u_shape, c_indices, subarea_indices, first, _ = row[:6]
            return Sub(indices=c_indices, shape=u_shape, first=first, subarea_indices=subarea_indices, **kw)
        u_indices, u_shape, c_indices = row[:3]
        return Sub(indices=c_indices, shape=u_shape, **kw)
    except Exception:
        return None

STANDALONE = ["DimensionCoordinate", "AuxiliaryCoordinate", "CellMeasure", "DomainAncillary", "FieldAncillary", "DomainTopology",
              "CellConnectivity", "Bounds", "InteriorRing", "Count", "Index", "List", "Data", "CellMethod", "CoordinateReference",
              "DomainAxis", "Datum", "CoordinateConversion", "Field", "Domain", "NodeCountProperties", "PartNodeCountProperties",
              "InterpolationParameter", "TiePointIndex", "NumpyArray", "SparseArray", "Constructs"]


def standalone(cls, rng):
    C = cfdm()
    K = getattr(C, cls)
    if cls == "Data":
        return rand_data(rng)
    if cls == "NumpyArray":
        a = np.array([rng.randint(0, 9) for _ in range(rng.randint(1, 5))], dtype=rng.choice(["f8", "i4"]))
        if rng.random() < 0.4:
            a = np.ma.array(a, mask=[rng.random() < 0.5 for _ in range(a.size)])
        return K(a)
    if cls == "SparseArray":
        from scipy.sparse import csr_array
        return K(csr_array(np.array([[0, rng.randint(1, 5), 0], [rng.randint(1, 5), 0, 0]])))
    if cls == "Constructs":
        return genfields.random_field(rng).constructs
    if cls == "DomainAxis":
        x = K(rng.choice([None, 1, 7]))
        return nc_decorate(x, rng)
    if cls == "CellMethod":
        x = K()
        if rng.random() < 0.8:
            x.set_axes(rng.choice([["domainaxis0"], ["area"], ["domainaxis1", "domainaxis0"], []]))
        if rng.random() < 0.8:
            x.set_method(rng.choice(["mean", "maximum", "point", "sum"]))
        for q in rng.sample(["within", "where", "over", "comment"], rng.randint(0, 2)):
            x.set_qualifier(q, rng.choice(["years", "land", "days", "a comment"]))
        if rng.random() < 0.5:
            x.set_qualifier("interval", [C.Data(rng.randint(1, 9), rng.choice(["hour", "days", None]))
                                         for _ in range(rng.randint(1, 2))])
        return x
    if cls == "Datum":
        return K(parameters=params(rng))
    if cls == "CoordinateConversion":
        return K(parameters=params(rng), domain_ancillaries={t: rng.choice([None, "domainancillary0"])
                                                            for t in rng.sample(TERMS, rng.randint(0, 2))})
    if cls == "CoordinateReference":
        x = K(coordinates=rng.sample(["dimensioncoordinate0", "auxiliarycoordinate1", "dimensioncoordinate2"], rng.randint(0, 3)),
              datum=C.Datum(parameters=params(rng)),
              coordinate_conversion=C.CoordinateConversion(parameters=params(rng), domain_ancillaries={
                  t: rng.choice([None, "domainancillary0"]) for t in rng.sample(TERMS, rng.randint(0, 2))}))
        return nc_decorate(x, rng)
    if cls in ("Field", "Domain"):
        f = genfields.random_field(rng)
        nc_decorate(f, rng)
        if rng.random() < 0.6:
            masking_props_field(f, rng)
        if cls == "Domain":
            d = f.domain.copy()
            nc_decorate(d, rng)
            return d
        return f
    if cls in ("NodeCountProperties", "PartNodeCountProperties"):
        x = K(properties=rand_props(rng))
        return nc_decorate(x, rng)
    x = K(properties=rand_props(rng))
    if rng.random() < 0.9:
        if cls in ("Count", "Index", "List", "TiePointIndex", "InteriorRing"):
            x.set_data(rand_data(rng, "i", [rng.randint(1, 4) for _ in range(2 if cls == "InteriorRing" else 1)]))
        elif cls in ("DomainTopology", "CellConnectivity"):
            shp = [rng.randint(1, 3), rng.randint(2, 4)]
            a = np.array([rng.randint(0, 5) for _ in range(shp[0] * shp[1])]).reshape(shp)
            a[:, 0] = np.arange(shp[0]) + 10
            x.set_data(C.Data(a))
        elif cls == "DimensionCoordinate":
            x.set_data(rand_data(rng, rng.choice(["f", "i", "reftime"]), [rng.randint(1, 4)]))
        else:
            x.set_data(rand_data(rng))
    if cls == "CellMeasure" and rng.random() < 0.8:
        x.set_measure(rng.choice(["area", "volume"]))
    if cls == "DomainTopology" and rng.random() < 0.9:
        x.set_cell(rng.choice(["face", "edge", "point"]))
    if cls == "CellConnectivity" and rng.random() < 0.9:
        x.set_connectivity(rng.choice(["edge", "node"]))
    if cls in ("DimensionCoordinate", "AuxiliaryCoordinate", "DomainAncillary") and rng.random() < 0.6:
        b = C.Bounds(properties=rand_props(rng) if rng.random() < 0.3 else {})
        if x.has_data() and rng.random() < 0.9:
            shp = list(x.data.shape) + [rng.choice([2, 2, 4])]
            b.set_data(rand_data(rng, "f", shp))
        nc_decorate(b, rng)
        x.set_bounds(b)
        if cls != "DomainAncillary" and rng.random() < 0.3:
            x.set_geometry(rng.choice(["polygon", "line", "point"]))
            if x.has_data() and b.has_data() and rng.random() < 0.7:
                ir = C.InteriorRing(data=C.Data(np.array([rng.randint(0, 1) for _ in range(int(np.prod(b.data.shape[:-1]) or 1))]
                                                         ).reshape(b.data.shape[:-1] or (1,))))
                nc_decorate(ir, rng)
                try:
                    x.set_interior_ring(ir)
                except Exception:
                    pass
            if rng.random() < 0.6:
                x.set_node_count(nc_decorate(C.NodeCountProperties(properties={"long_name": "node count"}), rng))
            if rng.random() < 0.6:
                x.set_part_node_count(nc_decorate(C.PartNodeCountProperties(properties={"long_name": "part node count"}), rng))
        if cls != "DomainAncillary" and rng.random() < 0.15:
            try:
                x.set_climatology(True)
            except Exception:
                pass
    masking_props(x, rng, 0.35)
    x = nc_decorate(x, rng)
    # (drawn last, so that older recipes keep building the same objects) data held in a compressed array:
    # uncompress / to_memory are then not no-ops on stand-alone constructs either
    if cls in ("Bounds", "CellMeasure", "FieldAncillary", "DomainAncillary", "AuxiliaryCoordinate", "InterpolationParameter") \
            and rng.random() < 0.12 and not (hasattr(x, "has_bounds") and x.has_bounds()):
        try:
            x.set_data(C.Data(compressed_array(rng.choice(COMP_KINDS), rng)[0]))
        except Exception:
            pass
    return x


def components(f):
    """[(label, object)] — the field, its domain, its constructs collection and every nested component."""
    C = cfdm()
    out = [("Field", f), ("Field", f), ("Domain", f.domain.copy()), ("Constructs", f.constructs),
           ("Constructs", f.domain.copy().constructs)]
    flt = f.constructs.filter_by_type("dimension_coordinate", "auxiliary_coordinate")
    out.append(("Constructs", flt))

    def add_data(d):
        out.append(("Data", d))
        try:
            a = d.source()
            out.append((type(a).__name__, a))
            sa = first_subarray(a, len(out))
            if sa is not None:
                out.append((type(sa).__name__, sa))
        except Exception:
            pass
        for g in ("get_count", "get_index", "get_list"):
            try:
                v = getattr(d, g)(None)
            except Exception:
                v = None
            if v is not None:
                out.append((type(v).__name__, v))
        for g in ("get_tie_point_indices", "get_interpolation_parameters", "get_dependent_tie_points"):
            try:
                vs = getattr(d, g)({})
            except Exception:
                vs = {}
            for v in vs.values():
                out.append((type(v).__name__, v))

    if f.has_data():
        add_data(f.data)
    for k, c in f.constructs.todict().items():
        out.append((type(c).__name__, c))
        if hasattr(c, "has_data") and c.has_data():
            add_data(c.data)
        if hasattr(c, "has_bounds") and c.has_bounds():
            out.append(("Bounds", c.bounds))
            if c.bounds.has_data():
                add_data(c.bounds.data)
        if hasattr(c, "has_interior_ring") and c.has_interior_ring():
            out.append(("InteriorRing", c.interior_ring))
        for g in ("get_node_count", "get_part_node_count"):
            fn = getattr(c, g, None)
            if fn is not None:
                v = fn(None)
                if v is not None:
                    out.append((type(v).__name__, v))
        if isinstance(c, C.CoordinateReference):
            out.append(("Datum", c.datum))
            out.append(("CoordinateConversion", c.coordinate_conversion))
    return out


SOURCES = ["ex", "rnd", "comp", "geom", "sub", "mesh", "file", "new", "geoc", "geof"]
WEIGHTS = [22, 14, 10, 6, 6, 5, 7, 30, 6, 5]


def gen_recipe(rng):
    src = rng.choices(SOURCES, WEIGHTS)[0]
    r = dict(src=src, seed=rng.randrange(1 << 40), pick=rng.randrange(1 << 20))
    if src == "ex":
        r["idx"] = rng.randrange(12)
    elif src == "file":
        r["idx"] = rng.choice([0, 1, 2, 3, 5, 6, 7])
        r["backend"] = rng.choice(["netCDF4", "h5netcdf"])
    elif src == "comp":
        r["kind"] = rng.choice(COMP_KINDS)
    elif src == "mesh":
        r["kind"] = rng.choice(MESH_KINDS)
    elif src == "new":
        r["cls"] = rng.choice(STANDALONE)
    return r


def all_components(r):
    """[(label, object)] that a recipe offers (the recipe's `pick` selects one)."""
    C = cfdm()
    rng = fw.rng_for(r["seed"], "C04obj")
    src = r["src"]
    if src == "new":
        return [(r["cls"], standalone(r["cls"], rng))]
    if src == "geoc":
        c = geometry_coordinate(rng, r.get("cls"))
        comps = [(type(c).__name__, c), ("Data", c.data), ("Bounds", c.bounds), ("Data", c.bounds.data),
                 ("InteriorRing", c.interior_ring), ("Data", c.interior_ring.data)]
        for g in ("get_node_count", "get_part_node_count"):
            v = getattr(c, g)(None)
            if v is not None:
                comps.append((type(v).__name__, v))
        return comps
    if src == "geof":
        return components(geometry_field(rng))
    if src == "sq":
        return components(square_field(rng))
    if src == "sub":
        c = subsampled_coordinate(rng)
        comps = [("AuxiliaryCoordinate", c), ("Data", c.data), (type(c.data.source()).__name__, c.data.source())]
        for w in range(3):
            sa = first_subarray(c.data.source(), w)
            if sa is not None:
                comps.append((type(sa).__name__, sa))
        for v in c.data.get_tie_point_indices({}).values():
            comps.append((type(v).__name__, v))
        for v in c.data.get_interpolation_parameters({}).values():
            comps.append((type(v).__name__, v))
        return comps
    if src == "mesh":
        a = mesh_array(r["kind"], rng)
        d = C.Data(a)
        sa = first_subarray(a, 0)
        if r["kind"] == "bounds":
            b = C.Bounds(data=d)
            c = C.AuxiliaryCoordinate(properties={"standard_name": "longitude"}, bounds=b)
            comps = [(type(a).__name__, a), ("Data", d), ("Bounds", b), ("AuxiliaryCoordinate", c)]
        elif r["kind"] == "cellconn":
            c = C.CellConnectivity(data=d, connectivity="edge")
            comps = [(type(a).__name__, a), ("Data", d), ("CellConnectivity", c)]
        else:
            c = C.DomainTopology(data=d, cell="point")
            comps = [(type(a).__name__, a), ("Data", d), ("DomainTopology", c)]
        if sa is not None:
            comps.append((type(sa).__name__, sa))
        return comps
    if src == "ex":
        f = C.example_field(r["idx"])
    elif src == "rnd":
        f = genfields.random_field(rng)
    elif src == "comp":
        f = compressed_field(r["kind"], rng)
    elif src == "geom":
        f = C.example_field(6)
        if rng.random() < 0.5:
            for c in f.auxiliary_coordinates(todict=True).values():
                if c.has_geometry():
                    c.set_node_count(C.NodeCountProperties(properties={"long_name": "node count"}))
                    c.set_part_node_count(nc_decorate(C.PartNodeCountProperties(properties={"long_name": "part node count"}), rng))
    elif src == "file":
        f = file_field(r["idx"], r["backend"])
        if f is None:
            f = C.example_field(r["idx"])
    else:
        raise fw.HarnessError("unknown source " + str(src))
    if rng.random() < 0.4:
        nc_decorate(f, rng)
    if src != "file" and rng.random() < 0.6:
        masking_props_field(f, rng)
    return components(f)


def build(r):
    """(label, object) for a recipe.  Built afresh on every call (deterministic in the recipe)."""
    comps = all_components(r)
    label, x = comps[r["pick"] % len(comps)]
    return type(x).__name__, x


# where instances of the rarer classes come from
HINT = {
    "RaggedSubarray": ["comp"], "GatheredSubarray": ["comp"], "GatheredArray": ["comp"], "RaggedContiguousArray": ["comp"],
    "RaggedIndexedArray": ["comp"], "RaggedIndexedContiguousArray": ["comp"], "Count": ["comp", "new"], "Index": ["comp", "new"],
    "List": ["comp", "new"], "SubsampledArray": ["sub"], "LinearSubarray": ["sub"], "QuadraticSubarray": ["sub"], "BiLinearSubarray": ["sub"],
    "TiePointIndex": ["sub", "new"], "InterpolationParameter": ["sub", "new"], "BoundsFromNodesArray": ["mesh"],
    "BoundsFromNodesSubarray": ["mesh"], "CellConnectivityArray": ["mesh"], "CellConnectivitySubarray": ["mesh"],
    "PointTopologyArray": ["mesh"], "PointTopologyFromFacesSubarray": ["mesh"], "NetCDF4Array": ["file"], "H5netcdfArray": ["file"],
    "InteriorRing": ["geom", "new"], "NodeCountProperties": ["geom", "new"], "PartNodeCountProperties": ["geom", "new"],
    "SparseArray": ["new"], "NumpyArray": ["new", "ex", "rnd"], "Constructs": ["ex", "rnd", "new"], "Domain": ["ex", "rnd", "new"],
    "DomainTopology": ["ex", "new", "mesh"], "CellConnectivity": ["ex", "new", "mesh"],
}
_no_instance = set()
_misses = {}


def recipe_for(cls, rng, tries=12):
    """A recipe whose object is an instance of class `cls` (None when the generators offer none)."""
    if cls in _no_instance:
        return None
    hint = HINT.get(cls)
    for _ in range(tries):
        if cls in GEO_CLASSES and rng.random() < 0.3:
            return dict(src="geoc", cls=cls, seed=rng.randrange(1 << 40), pick=0)
        if cls in ("Field", "Domain", "Constructs") and rng.random() < 0.15:
            r = dict(src="geof", seed=rng.randrange(1 << 40), pick=0)
            comps = all_components(r)
            idxs = [i for i, (_, x) in enumerate(comps) if type(x).__name__ == cls]
            if idxs:
                r["pick"] = rng.choice(idxs)
                return r
        if cls in ("InteriorRing", "NodeCountProperties", "PartNodeCountProperties", "Bounds") and rng.random() < 0.3:
            r = dict(src="geoc", seed=rng.randrange(1 << 40), pick=0)
            comps = all_components(r)
            idxs = [i for i, (_, x) in enumerate(comps) if type(x).__name__ == cls]
            if idxs:
                r["pick"] = rng.choice(idxs)
                return r
        if cls in STANDALONE and (hint is None or "new" in hint) and rng.random() < 0.45:
            return dict(src="new", cls=cls, seed=rng.randrange(1 << 40), pick=0)
        r = gen_recipe(rng)
        if hint is not None:
            src = rng.choice([h for h in hint if h != "new"] or ["new"])
            r = dict(src=src, seed=r["seed"], pick=r["pick"])
            if src == "ex":
                r["idx"] = rng.choice([8, 9, 10]) if cls in ("DomainTopology", "CellConnectivity") else rng.randrange(12)
            elif src == "file":
                r["idx"] = rng.choice([0, 1, 2, 3, 5, 6, 7])
                r["backend"] = "h5netcdf" if cls == "H5netcdfArray" else "netCDF4"
            elif src == "comp":
                r["kind"] = rng.choice(COMP_KINDS)
                if cls == "GatheredArray" or cls == "GatheredSubarray" or cls == "List":
                    r["kind"] = "gathered"
                elif cls == "RaggedContiguousArray":
                    r["kind"] = "contiguous"
                elif cls == "RaggedIndexedArray":
                    r["kind"] = "indexed"
                elif cls == "RaggedIndexedContiguousArray":
                    r["kind"] = "indexed_contiguous"
                elif cls == "Count":
                    r["kind"] = rng.choice(["contiguous", "indexed_contiguous"])
                elif cls == "Index":
                    r["kind"] = rng.choice(["indexed", "indexed_contiguous"])
            elif src == "mesh":
                r["kind"] = {"BoundsFromNodesArray": "bounds", "BoundsFromNodesSubarray": "bounds", "CellConnectivityArray": "cellconn",
                             "CellConnectivitySubarray": "cellconn", "CellConnectivity": "cellconn", "PointTopologyArray": "point",
                             "PointTopologyFromFacesSubarray": "point", "DomainTopology": "point"}.get(cls, rng.choice(MESH_KINDS))
            elif src == "new":
                r["cls"] = cls
        elif r["src"] == "new":
            continue
        try:
            comps = all_components(r)
        except fw.HarnessError:
            raise
        except Exception:
            continue
        idxs = [i for i, (_, x) in enumerate(comps) if type(x).__name__ == cls]
        if idxs:
            r["pick"] = rng.choice(idxs)
            return r
    _misses[cls] = _misses.get(cls, 0) + 1
    if _misses[cls] >= 3:
        _no_instance.add(cls)
    return None
