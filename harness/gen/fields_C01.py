"""C01's extension of the shared field generator (harness/gen/fields.py is read-only).

`build(spec)` turns a JSON-able *spec* into a cfdm Field/Domain, deterministically:

    spec = {"kind": <kind>, "gseed": int, "allow": [...], "muts": [mutation names], ...}

kinds
  random    harness.gen.fields.random_field(Random(gseed), allow=…) then the mutations
  example   cfdm.example_field(n) then the mutations
  grid3     a small field on three data axes (base_grid3) then the mutations
  abinitio  a field built here from explicit lists (used by the shrinker and the corpus)

Mutations add the construct classes the shared generator does not make: numeric scalar auxiliary
coordinates, climatological time axes, N-d auxiliary coordinates with bounds, external cell
measures, vector / reserved-name properties, string field data, masked integer data, cell
methods over standard names, CF-consistent grid mappings and parametric vertical coordinates,
ragged / gathered compression, domains.  Every random choice comes from Random(gseed, name).
"""
import hashlib
import random

import numpy as np

from . import fields as G

A_ALLOW = ("dim", "aux", "aux2d", "scalar", "msr", "fan", "cm", "bounds", "names", "unlimited", "mask", "vecprop", "string")
B_ALLOW = A_ALLOW + ("gm", "ft", "dan")


def cfdm():
    return G.cfdm()


def _rng(spec, salt):
    h = hashlib.sha256(f"{spec.get('gseed', 0)}|{salt}".encode()).digest()
    return random.Random(int.from_bytes(h[:8], "big"))


def _sizes(f):
    return {k: a.get_size() for k, a in f.domain_axes(todict=True).items()}


def _data_axes(f):
    try:
        return list(f.get_data_axes(default=()))
    except Exception:
        return []


def base_grid3(rng):
    """A small field on three data axes of size 2-4 (any order under the data), two of them
    possibly with dimension coordinates: the base for N-d formula terms."""
    C = cfdm()
    f = C.Field(properties={"standard_name": rng.choice(["air_temperature", "eastward_wind"]), "units": "K"})
    if rng.random() < 0.5:
        f.nc_set_variable(rng.choice(["ta", "ua", "var"]))
    sizes = [rng.choice([2, 3, 4]) for _ in range(3)]
    axes = []
    for i, n in enumerate(sizes):
        da = C.DomainAxis(n)
        if rng.random() < 0.4:
            da.nc_set_dimension(["lev", "y", "x"][i] + rng.choice(["", "1"]))
        axes.append(f.set_construct(da))
    order = list(range(3))
    if rng.random() < 0.5:
        rng.shuffle(order)
    shp = [sizes[i] for i in order]
    f.set_data(C.Data(np.arange(int(np.prod(shp)), dtype=rng.choice(["f8", "f4", "i4"])).reshape(shp)), axes=[axes[i] for i in order])
    for i, (sn, u) in ((1, ("latitude", "degrees_north")), (2, ("longitude", "degrees_east"))):
        if rng.random() < 0.6:
            c = C.DimensionCoordinate(properties={"standard_name": sn, "units": u},
                                      data=C.Data(np.arange(sizes[i], dtype="f8") * 2 + 10 * i))
            if rng.random() < 0.4:
                c.set_bounds(G._bounds(rng, c.data))
            f.set_construct(c, axes=[axes[i]])
    if rng.random() < 0.3:
        f.set_construct(C.CellMethod(axes=[axes[rng.randrange(3)]], method="mean"))
    return f


# ------------------------------------------------------------------ mutations
def m_numeric_scalar_aux(f, rng):
    """A numeric auxiliary coordinate alone on a size-1 axis that the data do not span."""
    C = cfdm()
    a = f.set_construct(C.DomainAxis(1))
    c = C.AuxiliaryCoordinate(properties={"standard_name": "height", "units": "m"}, data=C.Data(np.array([2.0])))
    f.set_construct(c, axes=[a])


def m_scalar_dim_bounds(f, rng):
    """A scalar dimension coordinate with bounds."""
    C = cfdm()
    a = f.set_construct(C.DomainAxis(1))
    c = C.DimensionCoordinate(properties={"standard_name": "depth", "units": "m"}, data=C.Data(np.array([5.0])))
    c.set_bounds(C.Bounds(data=C.Data(np.array([[0.0, 10.0]]))))
    if rng.random() < 0.5:
        c.nc_set_variable("depth0")
    f.set_construct(c, axes=[a])
    if rng.random() < 0.5 and hasattr(f, "set_data"):
        f.set_construct(C.CellMethod(axes=[a], method="mean"))


def m_climatology(f, rng):
    """A climatological time axis: cell methods within/over years and flagged bounds."""
    C = cfdm()
    if not hasattr(f, "cell_methods"):
        return
    das = _data_axes(f)
    sizes = _sizes(f)
    spanned = set()
    for k in f.coordinates(todict=True):
        spanned.update(f.constructs.data_axes()[k])
    cand = [a for a in das if a not in spanned]
    if cand:
        a = cand[0]
    else:
        a = f.set_construct(C.DomainAxis(1))
    n = sizes.get(a, 1)
    t = C.DimensionCoordinate(properties={"standard_name": "time", "units": "days since 1960-01-01"},
                              data=C.Data(np.arange(n, dtype="f8") * 30 + 15, units="days since 1960-01-01"))
    b = np.empty((n, 2))
    b[:, 0] = np.arange(n) * 30
    b[:, 1] = np.arange(n) * 30 + 3650
    t.set_bounds(C.Bounds(data=C.Data(b)))
    flag = rng.random()
    if flag < 0.8:
        t.set_climatology(True)
    f.set_construct(t, axes=[a])
    if flag < 0.9:
        cm = C.CellMethod(axes=[a], method="mean")
        cm.set_qualifier("within", "years")
        f.set_construct(cm)
        cm = C.CellMethod(axes=[a], method="maximum")
        cm.set_qualifier("over", "years")
        f.set_construct(cm)


def m_aux_nd_bounds(f, rng):
    """A 2-d (or 3-d) auxiliary coordinate with 4-vertex bounds, possibly with pinned names."""
    C = cfdm()
    das = [a for a in _data_axes(f) if _sizes(f)[a] > 1]
    if len(das) < 2:
        return
    nd = 3 if len(das) >= 3 and rng.random() < 0.3 else 2
    ax = rng.sample(das, nd)
    shp = [_sizes(f)[a] for a in ax]
    c = C.AuxiliaryCoordinate(properties={"standard_name": "longitude", "units": "degrees_east"})
    v = np.arange(int(np.prod(shp)), dtype="f8").reshape(shp) + 100
    c.set_data(C.Data(v))
    nv = rng.choice([2, 4])
    b = np.stack([v + k for k in range(nv)], axis=-1)
    bb = C.Bounds(data=C.Data(b))
    r = rng.random()
    if r < 0.3:
        bb.nc_set_dimension("nv")
    elif r < 0.5:
        bb.nc_set_dimension(f"vertices{nv}")
    if rng.random() < 0.4:
        bb.nc_set_variable("lon_bnds")
    c.set_bounds(bb)
    if rng.random() < 0.5:
        c.nc_set_variable("lon2d")
    f.set_construct(c, axes=ax)


def m_external_measure(f, rng):
    C = cfdm()
    das = [a for a in _data_axes(f) if _sizes(f)[a] > 1]
    if not das:
        return
    ax = das[: rng.randint(1, min(2, len(das)))]
    shp = [_sizes(f)[a] for a in ax]
    m = C.CellMeasure(measure="area", properties={"units": "m2", "standard_name": "cell_area"},
                      data=C.Data(np.arange(int(np.prod(shp)), dtype="f8").reshape(shp) + 1))
    used = {c.nc_get_variable(None) for c in f.constructs.filter_by_data(todict=True).values()}
    m.nc_set_variable("areacella" if "areacella" not in used else "areacella_x")
    m.nc_set_external(True)
    f.set_construct(m, axes=ax)


def m_two_external_measures(f, rng):
    """Two external cell measures on the same axes."""
    C = cfdm()
    das = [a for a in _data_axes(f) if _sizes(f)[a] > 1]
    if not das:
        return
    ax = das[: rng.randint(1, min(2, len(das)))]
    shp = [_sizes(f)[a] for a in ax]
    used = {c.nc_get_variable(None) for c in f.constructs.filter_by_data(todict=True).values()}
    for name, meas, off in (("areacella" if "areacella" not in used else "areacello", "area", 1), ("volcello", "volume", 1000)):
        m = C.CellMeasure(measure=meas, properties={"units": "m2" if meas == "area" else "m3"},
                          data=C.Data(np.arange(int(np.prod(shp)), dtype="f8").reshape(shp) + off))
        m.nc_set_variable(name)
        m.nc_set_external(True)
        f.set_construct(m, axes=ax)


def m_props(f, rng):
    """Property classes: numeric scalars, vectors, size-1 vectors, global ones, reserved names."""
    r = rng.random()
    numeric = hasattr(f, "has_data") and f.has_data() and f.data.dtype.kind in "iuf"
    if r < 0.2:
        if numeric:  # CF: valid_range has the type of the data
            f.set_property("valid_range", np.array([-5.0, 500.0]))
    elif r < 0.35:
        f.set_property("weights", np.array([3], dtype="i4"))
    elif r < 0.5:
        f.set_property("level", 7)
        f.set_property("scale", 2.5)
    elif r < 0.7:
        f.set_property("title", "a title")
        f.set_property("history", "made by the generator")
    elif r < 0.8:
        f.set_property("comment", "field comment")
    elif r < 0.87:
        f.set_property("coordinates", "foo")
    elif r < 0.94:
        cs = list(f.coordinates(todict=True).values())
        if cs:
            cs[0].set_property("bounds", "foo")
    elif hasattr(f, "has_data") and f.has_data() and f.data.dtype.kind == "f":
        f.set_property("_FillValue", -99.0)
        f.set_property("missing_value", -98.0)


def m_string_data(f, rng):
    """String-valued field data."""
    C = cfdm()
    if not hasattr(f, "set_data") or not f.has_data():
        return
    shp = f.data.shape
    n = int(np.prod(shp)) if shp else 1
    a = np.array([f"v{k % 7}" * (1 + k % 3) for k in range(n)]).reshape(shp)
    axes = _data_axes(f)
    f.del_data()
    for p in ("units", "flag_values", "flag_meanings", "valid_range", "valid_min", "valid_max", "_FillValue", "missing_value"):
        f.del_property(p, None)
    f.set_data(C.Data(a), axes=axes)


def m_masked_int(f, rng):
    """Masked integer data without a _FillValue property."""
    C = cfdm()
    if not hasattr(f, "set_data") or not f.has_data() or f.data.size < 2:
        return
    shp = f.data.shape
    a = np.ma.array(np.arange(f.data.size, dtype=rng.choice(["i4", "i2", "i8"])).reshape(shp))
    a[tuple(0 for _ in shp)] = np.ma.masked
    axes = _data_axes(f)
    f.del_data()
    f.del_property("_FillValue", None)
    f.del_property("missing_value", None)
    f.set_data(C.Data(a), axes=axes)


def m_cm_std(f, rng):
    """A cell method over a standard name rather than an axis."""
    C = cfdm()
    if not hasattr(f, "cell_methods"):
        return
    f.set_construct(C.CellMethod(axes=[rng.choice(["area", "longitude"])], method="mean"))


def m_cm_multi(f, rng):
    """A cell method over two axes with intervals and a comment."""
    C = cfdm()
    if not hasattr(f, "cell_methods"):
        return
    das = _data_axes(f)
    if len(das) < 2:
        return
    ax = rng.sample(das, 2)
    cm = C.CellMethod(axes=ax, method="mean")
    r = rng.random()
    if r < 0.4:
        cm.set_qualifier("interval", [C.Data(1, "hour"), C.Data(2.5, "m")])
    elif r < 0.7:
        cm.set_qualifier("interval", [C.Data(0.5, "degrees")])
    if rng.random() < 0.5:
        cm.set_qualifier("comment", "sampled twice")
    f.set_construct(cm)


def m_gm_cf(f, rng):
    """A grid mapping whose coordinates are exactly those CF associates with it by standard name."""
    C = cfdm()
    das = [a for a in _data_axes(f) if _sizes(f)[a] > 1]
    dimc = {f.constructs.data_axes()[k][0]: k for k in f.dimension_coordinates(todict=True)}
    free = [a for a in das if a not in dimc]
    if len(free) < 2:
        return
    ks = []
    for a, (sn, u) in zip(free[:2], [("grid_latitude", "degrees"), ("grid_longitude", "degrees")]):
        n = _sizes(f)[a]
        c = C.DimensionCoordinate(properties={"standard_name": sn, "units": u}, data=C.Data(np.arange(n, dtype="f8")))
        ks.append(f.set_construct(c, axes=[a]))
    if any(c.get_property("standard_name", None) in ("latitude", "longitude", "grid_latitude", "grid_longitude")
           for k, c in f.coordinates(todict=True).items() if k not in ks):
        for k in ks:
            f.del_construct(k)
        return
    ref = C.CoordinateReference(
        coordinates=ks,
        coordinate_conversion=C.CoordinateConversion(parameters={
            "grid_mapping_name": "rotated_latitude_longitude",
            "grid_north_pole_latitude": 38.0, "grid_north_pole_longitude": 190.0}),
        datum=C.Datum(parameters={"earth_radius": 6371007.0}) if rng.random() < 0.6 else None)
    if rng.random() < 0.5:
        ref.nc_set_variable("rotated_pole")
    f.set_construct(ref)


def m_ft_cf(f, rng):
    """A parametric vertical coordinate as in cfdm.example_field(1): the coordinate carries
    computed_standard_name, the terms span data axes."""
    C = cfdm()
    das = [a for a in _data_axes(f) if _sizes(f)[a] > 1]
    dimc = {f.constructs.data_axes()[k][0]: k for k in f.dimension_coordinates(todict=True)}
    free = [a for a in das if a not in dimc]
    if not free:
        return
    a = free[0]
    n = _sizes(f)[a]
    z = C.DimensionCoordinate(properties={"standard_name": "atmosphere_hybrid_height_coordinate",
                                          "computed_standard_name": "altitude"},
                              data=C.Data(np.arange(n, dtype="f8") + 1))
    withb = rng.random() < 0.5
    if withb:
        zb = np.stack([np.arange(n) + 0.5, np.arange(n) + 1.5], axis=-1)
        z.set_bounds(C.Bounds(data=C.Data(zb)))
    kz = f.set_construct(z, axes=[a])
    da = C.DomainAncillary(properties={"units": "m"}, data=C.Data(np.arange(n, dtype="f8") * 10 + 5))
    db = C.DomainAncillary(properties={"units": "1"}, data=C.Data(np.arange(n, dtype="f8") / 8 + 0.125))
    if withb:
        da.set_bounds(C.Bounds(data=C.Data(np.stack([np.arange(n) * 10.0, np.arange(n) * 10.0 + 10], axis=-1))))
        db.set_bounds(C.Bounds(data=C.Data(np.stack([np.arange(n) / 8, np.arange(n) / 8 + 0.25], axis=-1))))
    if rng.random() < 0.5:
        da.nc_set_variable("a")
        db.nc_set_variable("b")
    ka = f.set_construct(da, axes=[a])
    kb = f.set_construct(db, axes=[a])
    terms = {"a": ka, "b": kb, "orog": None}
    others = [x for x in das if x != a]
    if others:
        ox = others[:2]
        shp = [_sizes(f)[x] for x in ox]
        do = C.DomainAncillary(properties={"standard_name": "surface_altitude", "units": "m"},
                               data=C.Data(np.arange(int(np.prod(shp)), dtype="f8").reshape(shp) + 3))
        terms["orog"] = f.set_construct(do, axes=ox)
    ref = C.CoordinateReference(
        coordinates=[kz],
        coordinate_conversion=C.CoordinateConversion(
            parameters={"standard_name": "atmosphere_hybrid_height_coordinate", "computed_standard_name": "altitude"},
            domain_ancillaries=terms),
        datum=C.Datum(parameters={"earth_radius": 6371007.0}) if rng.random() < 0.3 else None)
    f.set_construct(ref)


def m_ft_two_coords(f, rng):
    """A parametric vertical coordinate whose coordinate reference also lists other coordinates,
    one of which carries a computed_standard_name of its own."""
    m_ft_cf(f, rng)
    refs = _ft_refs(f)
    if not refs:
        return
    r = list(refs.values())[0]
    others = [k for k in f.coordinates(todict=True) if k not in r.coordinates()]
    for k in others[:3]:
        f.constructs[k].set_property("computed_standard_name", "something_else")
        r.set_coordinate(k)


def m_cm_quals(f, rng):
    """Cell methods with the qualifier combinations of CF 7.3: one, two or three of
    within / where / over, none / one / one-per-axis intervals (with and without units), a comment
    of one or several words or none.  `within` / `over` are only put on cell methods that do not
    make an axis climatological (a free name such as `area`, or two axes)."""
    C = cfdm()
    if not hasattr(f, "cell_methods"):
        return
    das = _data_axes(f)
    for _ in range(rng.choice([1, 1, 2])):
        r = rng.random()
        if r < 0.3 or not das:
            axes = [rng.choice(["area", "area", "volume"])]
        elif r < 0.65 or len(das) < 2:
            axes = [rng.choice(das)]
        else:
            axes = rng.sample(das, 2)
        cm = C.CellMethod(axes=axes, method=rng.choice(["mean", "maximum", "minimum", "sum", "variance", "mode"]))
        single_axis = len(axes) == 1 and axes[0] in das
        portions = ["where"] if single_axis else ["within", "where", "over"]
        k = rng.choice([0, 1, 1, 2, 2, 2, 3])
        chosen = rng.sample(portions, min(k, len(portions)))
        vals = {"within": ["days", "years"], "where": ["land", "sea", "sea_ice"], "over": ["all_area_types", "years", "sea"]}
        for q in ("within", "where", "over"):
            if q in chosen:
                cm.set_qualifier(q, rng.choice(vals[q]))
        r = rng.random()
        n_int = 0 if r < 0.4 else (1 if r < 0.75 or len(axes) == 1 else len(axes))
        if n_int:
            units = ["hour", "m", "degrees", "km", None]
            iv = []
            for i in range(n_int):
                u = rng.choice(units)
                v = rng.choice([1, 2.5, 0.1, 30, 6])
                iv.append(C.Data(v, u) if u else C.Data(v))
            cm.set_qualifier("interval", iv)
        r = rng.random()
        if r < 0.25:
            cm.set_qualifier("comment", rng.choice(["sampled", "masked"]))
        elif r < 0.5:
            cm.set_qualifier("comment", rng.choice(["sampled twice daily", "area weighted", "see the documentation"]))
        f.set_construct(cm)


def m_ft_nd(f, rng):
    """A parametric vertical coordinate (with or without bounds) whose formula terms are N-d
    domain ancillaries in every axis order: along the vertical axis only, spanning the vertical
    axis and one or two others (b(z,y), b(y,z), b(z,y,x), ...), horizontal only; each with or
    without bounds."""
    C = cfdm()
    sizes = _sizes(f)
    das = [a for a in _data_axes(f) if sizes[a] > 1]
    da_all = f.constructs.data_axes()
    dimc = {da_all[k][0]: k for k in f.dimension_coordinates(todict=True)}
    free = [a for a in das if a not in dimc]
    if das and rng.random() < 0.08:
        # a scalar parametric coordinate: a size-1 axis outside the data, horizontal terms only
        az = f.set_construct(C.DomainAxis(1))
        z = C.DimensionCoordinate(properties={"standard_name": "atmosphere_hybrid_height_coordinate",
                                              "computed_standard_name": "altitude"}, data=C.Data(np.array([1.5])))
        kz = f.set_construct(z, axes=[az])
        ax = das[:2]
        shp = [sizes[a] for a in ax]
        o = C.DomainAncillary(properties={"standard_name": "surface_altitude", "units": "m"},
                              data=C.Data(np.arange(int(np.prod(shp)), dtype="f8").reshape(shp) + 7))
        ko = f.set_construct(o, axes=ax)
        f.set_construct(C.CoordinateReference(
            coordinates=[kz],
            coordinate_conversion=C.CoordinateConversion(
                parameters={"standard_name": "atmosphere_hybrid_height_coordinate", "computed_standard_name": "altitude"},
                domain_ancillaries={"orog": ko})))
        return
    if free:
        az = rng.choice(free)
        kz = None
    else:
        # turn an existing dimension coordinate (that no coordinate reference uses) into the parametric one
        inref = set()
        for r in f.coordinate_references(todict=True).values():
            inref.update(r.coordinates())
        cand = [a for a in das if dimc[a] not in inref]
        if not cand or any(c.get_property("standard_name", None) == "atmosphere_hybrid_height_coordinate"
                           for c in f.coordinates(todict=True).values()):
            return
        az = rng.choice(cand)
        kz = dimc[az]
    n = sizes[az]
    if kz is None:
        z = C.DimensionCoordinate(properties={"standard_name": "atmosphere_hybrid_height_coordinate",
                                              "computed_standard_name": "altitude"},
                                  data=C.Data(np.arange(n, dtype="f8") + 1))
        if rng.random() < 0.8:
            z.set_bounds(C.Bounds(data=C.Data(np.stack([np.arange(n) + 0.5, np.arange(n) + 1.5], axis=-1))))
            if rng.random() < 0.3:
                z.bounds.nc_set_variable("lev_bnds")
        if rng.random() < 0.3:
            z.nc_set_variable("lev")
        kz = f.set_construct(z, axes=[az])
    else:
        z = f.constructs[kz]
        z.set_property("standard_name", "atmosphere_hybrid_height_coordinate")
        z.set_property("computed_standard_name", "altitude")
        z.del_property("units", None)
    zb = f.constructs[kz].has_bounds()
    others = [a for a in das if a != az]
    rng.shuffle(others)

    def dan(axes, off, bounds, props, ncvar=None):
        shp = [sizes[a] for a in axes]
        v = np.arange(int(np.prod(shp)), dtype="f8").reshape(shp) * 0.5 + off
        d = C.DomainAncillary(properties=props, data=C.Data(v))
        if bounds:
            nv = 2
            d.set_bounds(C.Bounds(data=C.Data(np.stack([v - 0.25 + k * 0.5 for k in range(nv)], axis=-1))))
            if ncvar and rng.random() < 0.5:
                d.bounds.nc_set_variable(ncvar + "_bnds")
        if ncvar:
            d.nc_set_variable(ncvar)
        return f.set_construct(d, axes=axes)

    named = rng.random() < 0.5
    p_b = 0.8 if zb else 0.15  # bounds of a term can only be stored through the coordinate's bounds variable
    terms = {}
    terms["a"] = dan([az], 10, rng.random() < p_b, {"units": "m"}, "a" if named else None)
    # b: any axis order that includes the vertical axis
    nb = rng.choice([1, 2, 2, 2, 3, 3]) if len(others) >= 2 else (rng.choice([1, 2, 2, 2, 2]) if others else 1)
    axes_b = [az] + others[: nb - 1]
    rng.shuffle(axes_b)
    terms["b"] = dan(axes_b, 100, rng.random() < p_b, {"units": "1"}, "b" if named else None)
    if others:
        no = rng.choice([1, 2]) if len(others) >= 2 else 1
        axes_o = rng.sample(others, no)
        terms["orog"] = dan(axes_o, 1000, rng.random() < 0.12, {"standard_name": "surface_altitude", "units": "m"},
                            "orog" if named and rng.random() < 0.5 else None)
    ref = C.CoordinateReference(
        coordinates=[kz],
        coordinate_conversion=C.CoordinateConversion(
            parameters={"standard_name": "atmosphere_hybrid_height_coordinate", "computed_standard_name": "altitude"},
            domain_ancillaries=terms))
    f.set_construct(ref)


DATUMS = [{"earth_radius": 6371007.0}, {"earth_radius": 7000000.0},
          {"semi_major_axis": 6378137.0, "inverse_flattening": 298.257223563}]


def m_multi_ref(f, rng):
    """Two or three coordinate references in every insertion order: two horizontal grid mappings
    (rotated pole over the dimension coordinates of two data axes, latitude_longitude over 2-d
    auxiliary coordinates) whose datums are equal, different or absent, and a parametric vertical
    coordinate reference without datum or with the datum of the first, the second, or neither."""
    C = cfdm()
    if f.coordinate_references(todict=True) and not _ft_refs(f):
        return
    sizes = _sizes(f)
    das = [a for a in _data_axes(f) if sizes[a] > 1]
    if len(das) < 2:
        return
    da_all = f.constructs.data_axes()
    dimc = {da_all[k][0]: k for k in f.dimension_coordinates(todict=True)}
    # keep the vertical axis of an existing parametric coordinate out of the horizontal pair
    vert = set()
    for r in _ft_refs(f).values():
        o = _owning(f, r)
        if o is not None:
            vert.update(da_all[o])
    hor = [a for a in das if a not in vert]
    if len(hor) < 2:
        return
    y, x = hor[0], hor[1]
    ks = []
    for a, (sn, u) in ((y, ("grid_latitude", "degrees")), (x, ("grid_longitude", "degrees"))):
        if a in dimc:
            ks.append(dimc[a])
        else:
            c = C.DimensionCoordinate(properties={"standard_name": sn, "units": u}, data=C.Data(np.arange(sizes[a], dtype="f8")))
            ks.append(f.set_construct(c, axes=[a]))
    shp = [sizes[y], sizes[x]]
    k2 = []
    for sn, u, off in (("latitude", "degrees_north", 40), ("longitude", "degrees_east", 300)):
        c = C.AuxiliaryCoordinate(properties={"standard_name": sn, "units": u},
                                  data=C.Data(np.arange(int(np.prod(shp)), dtype="f8").reshape(shp) * 0.25 + off))
        if rng.random() < 0.3:
            c.nc_set_variable(sn[:3] + "2d")
        k2.append(f.set_construct(c, axes=[y, x]))
    d1 = rng.choice(DATUMS) if rng.random() < 0.85 else None
    if rng.random() < 0.7:
        d2 = rng.choice([d for d in DATUMS if d != d1] + [None])
    else:
        d2 = d1
    gm1 = C.CoordinateReference(
        coordinates=ks,
        coordinate_conversion=C.CoordinateConversion(parameters={
            "grid_mapping_name": "rotated_latitude_longitude",
            "grid_north_pole_latitude": 38.0, "grid_north_pole_longitude": 190.0}),
        datum=C.Datum(parameters=dict(d1)) if d1 else None)
    gm2 = C.CoordinateReference(
        coordinates=k2,
        coordinate_conversion=C.CoordinateConversion(parameters={"grid_mapping_name": "latitude_longitude"}),
        datum=C.Datum(parameters=dict(d2)) if d2 else None)
    if rng.random() < 0.4:
        gm1.nc_set_variable("rotated_pole")
    if rng.random() < 0.3:
        gm2.nc_set_variable("crs")
    refs = [gm1, gm2]
    # the vertical reference: an existing one (taken out and put back in the chosen order), or a new one
    r = rng.random()
    others = [d for d in DATUMS if d != d1 and d != d2]
    vd = d1 if r < 0.5 else (d2 if r < 0.7 else (None if r < 0.85 else (others[0] if others else None)))
    vref = None
    ft = _ft_refs(f)
    if ft:
        kv, vref = list(ft.items())[0]
        f.del_construct(kv)
    else:
        free = [a for a in das if a not in (y, x) and a not in dimc]
        if free and rng.random() < 0.85:
            az = free[0]
            n = sizes[az]
            z = C.DimensionCoordinate(properties={"standard_name": "atmosphere_hybrid_height_coordinate",
                                                  "computed_standard_name": "altitude"},
                                      data=C.Data(np.arange(n, dtype="f8") + 1))
            if rng.random() < 0.5:
                z.set_bounds(C.Bounds(data=C.Data(np.stack([np.arange(n) + 0.5, np.arange(n) + 1.5], axis=-1))))
            kz = f.set_construct(z, axes=[az])
            withb = z.has_bounds() and rng.random() < 0.6
            terms = {}
            for t, off in (("a", 10), ("b", 100)):
                v = np.arange(n, dtype="f8") * 0.5 + off
                d = C.DomainAncillary(data=C.Data(v))
                if withb:
                    d.set_bounds(C.Bounds(data=C.Data(np.stack([v - 0.25, v + 0.25], axis=-1))))
                terms[t] = f.set_construct(d, axes=[az])
            vref = C.CoordinateReference(
                coordinates=[kz],
                coordinate_conversion=C.CoordinateConversion(
                    parameters={"standard_name": "atmosphere_hybrid_height_coordinate", "computed_standard_name": "altitude"},
                    domain_ancillaries=terms))
    if vref is not None:
        vref.set_datum(C.Datum(parameters=dict(vd)) if vd else C.Datum())
        refs.append(vref)
    rng.shuffle(refs)
    for ref in refs:
        f.set_construct(ref)


def m_compress(f, rng):
    """Ragged compression of the field data (DSG) through Field.compress."""
    if not hasattr(f, "compress") or not f.has_data() or f.data.ndim < 2 or f.data.dtype.kind in "SU":
        return f
    method = rng.choice(["contiguous", "indexed"]) if f.data.ndim == 2 else rng.choice(["contiguous", "indexed", "indexed_contiguous"])
    if method == "indexed_contiguous" and f.data.ndim != 3:
        return f
    try:
        g = f.compress(method)
    except Exception:
        return f
    # CF requires the featureType attribute for discrete sampling geometries
    g.set_property("featureType", "timeSeriesProfile" if method == "indexed_contiguous" else "timeSeries")
    return g


def m_unlimited(f, rng):
    das = _data_axes(f)
    if das:
        f.domain_axes(todict=True)[das[0]].nc_set_unlimited(True)


def m_dup_scalar(f, rng):
    """Two equal scalar string coordinates on two axes (share one netCDF variable)."""
    C = cfdm()
    for _ in range(2):
        a = f.set_construct(C.DomainAxis(1))
        c = C.AuxiliaryCoordinate(properties={"long_name": "station"}, data=C.Data(np.array(["alpha"])))
        f.set_construct(c, axes=[a])


def m_dim_aux_scalar_axis(f, rng):
    """A size-1 axis outside the data with a dimension and an auxiliary coordinate."""
    C = cfdm()
    a = f.set_construct(C.DomainAxis(1))
    f.set_construct(C.DimensionCoordinate(properties={"standard_name": "altitude", "units": "m"}, data=C.Data(np.array([12.0]))), axes=[a])
    f.set_construct(C.AuxiliaryCoordinate(properties={"long_name": "level name"}, data=C.Data(np.array(["low"]))), axes=[a])


def m_names_clash(f, rng):
    """Pinned names that clash with default names or with each other."""
    cs = [c for c in f.constructs.filter_by_data(todict=True).values()
          if not (hasattr(c, "nc_get_external") and c.nc_get_external())]
    if not cs:
        return
    r = rng.random()
    if r < 0.4 and len(cs) >= 2:
        cs[0].nc_set_variable("same")
        cs[1].nc_set_variable("same")
    elif r < 0.7:
        cs[-1].nc_set_variable("dim")
    else:
        cs[-1].nc_set_variable("data")


MUTATIONS = {
    "numeric_scalar_aux": m_numeric_scalar_aux,
    "scalar_dim_bounds": m_scalar_dim_bounds,
    "climatology": m_climatology,
    "aux_nd_bounds": m_aux_nd_bounds,
    "external_measure": m_external_measure,
    "two_external_measures": m_two_external_measures,
    "props": m_props,
    "string_data": m_string_data,
    "masked_int": m_masked_int,
    "cm_std": m_cm_std,
    "cm_multi": m_cm_multi,
    "gm_cf": m_gm_cf,
    "ft_cf": m_ft_cf,
    "ft_two_coords": m_ft_two_coords,
    "cm_quals": m_cm_quals,
    "ft_nd": m_ft_nd,
    "multi_ref": m_multi_ref,
    "compress": m_compress,
    "unlimited": m_unlimited,
    "dup_scalar": m_dup_scalar,
    "dim_aux_scalar_axis": m_dim_aux_scalar_axis,
    "names_clash": m_names_clash,
}
# mutations that keep a stage-A field inside the proved class
A_MUTS = ["scalar_dim_bounds", "climatology", "aux_nd_bounds", "cm_multi", "unlimited", "cm_quals"]
# mutations of stage A that hit a known finding or leave the modelled class
A_EDGE = ["numeric_scalar_aux", "props", "string_data", "masked_int", "cm_std", "dup_scalar", "dim_aux_scalar_axis",
          "names_clash", "external_measure", "two_external_measures"]
B_MUTS = ["gm_cf", "ft_cf", "ft_nd", "multi_ref"]
B_EDGE = ["ft_two_coords"]
C_MUTS = ["compress"]


# ------------------------------------------------------------------ neutralisers
# `spec["fix"]` names transformations that remove one *known* class of input from the built
# construct; harness/corr/C01.py:classify uses them to decide whether a failure is explained by a
# known finding (the failure disappears when the class is removed) — never to weaken the oracle.
RESERVED_PROPS = ("coordinates", "bounds", "climatology", "cell_measures", "ancillary_variables", "cell_methods",
                  "formula_terms", "grid_mapping", "geometry", "compress", "sample_dimension", "instance_dimension",
                  "dimensions", "external_variables")


def _nondata_axes(f):
    das = set(_data_axes(f)) if hasattr(f, "get_data_axes") else set()
    return [a for a in f.domain_axes(todict=True) if a not in das]


def _spanning(f, a):
    da = f.constructs.data_axes()
    return [k for k, ax in da.items() if a in ax]


def numeric_scalar_aux_keys(f):
    out = []
    da = f.constructs.data_axes()
    dimc_axes = {da[k][0] for k in f.dimension_coordinates(todict=True) if k in da and len(da[k]) == 1}
    for a in _nondata_axes(f) if type(f).__name__ == "Field" else []:
        if a in dimc_axes:
            continue
        for k in _spanning(f, a):
            c = f.constructs[k]
            if c.construct_type == "auxiliary_coordinate" and da[k] == (a,) and c.has_data() and c.data.dtype.kind not in "SUO":
                out.append(k)
    return out


def fx_numeric_scalar_aux(f):
    C = cfdm()
    for k in numeric_scalar_aux_keys(f):
        c = f.constructs[k]
        a = f.constructs.data_axes()[k]
        d = C.DimensionCoordinate(source=c)
        f.del_construct(k)
        f.set_construct(d, axes=a)
    return f


def multi_scalar_axes(f):
    """size-1 axes outside the data that a scalar coordinate variable cannot stand for: spanned by
    two or more constructs, or by a construct with further axes."""
    if type(f).__name__ != "Field":
        return []
    da = f.constructs.data_axes()
    out = []
    for a in _nondata_axes(f):
        ks = _spanning(f, a)
        if len(ks) >= 2 or any(len(da[k]) > 1 for k in ks):
            out.append(a)
    return out


def aux_on_dimcoord_scalar_axis(f):
    """Auxiliary coordinates on a size-1 axis outside the data that also has a dimension coordinate."""
    if type(f).__name__ != "Field":
        return []
    da = f.constructs.data_axes()
    dimc_axes = {da[k][0] for k in f.dimension_coordinates(todict=True) if k in da and len(da[k]) == 1}
    out = []
    for a in _nondata_axes(f):
        if a in dimc_axes:
            out += [k for k in _spanning(f, a) if f.constructs[k].construct_type == "auxiliary_coordinate" and da[k] == (a,)]
    return out


def fx_aux_on_dimcoord_scalar_axis(f):
    for k in aux_on_dimcoord_scalar_axis(f):
        for r in f.coordinate_references(todict=True).values():
            r.del_coordinate(k, None)
        f.del_construct(k)
    return f


def fx_multi_scalar(f):
    """Make the data span the axis, which is what the writer does with such an axis (the least
    destructive way of taking the class out of the input: every construct and every coordinate
    reference stays)."""
    for a in multi_scalar_axes(f):
        f = f.insert_dimension(a, position=0)
    return f


def dup_scalar_keys(f):
    if type(f).__name__ != "Field":
        return []
    da = f.constructs.data_axes()
    nd = set(_nondata_axes(f))
    ks = [k for k, c in f.coordinates(todict=True).items() if len(da.get(k, ())) == 1 and da[k][0] in nd]
    out = []
    for i, k in enumerate(ks):
        for j in ks[:i]:
            if f.constructs[k].equals(f.constructs[j]):
                out.append(k)
                break
    return out


def fx_dup_scalar(f):
    da = f.constructs.data_axes()
    for k in dup_scalar_keys(f):
        a = da[k][0]
        f.del_construct(k)
        if not _spanning(f, a):
            for ck, cm in list(f.cell_methods(todict=True).items()):
                if a in cm.get_axes(()):
                    f.del_construct(ck)
            try:
                f.del_construct(a)
            except Exception:
                pass
    return f


def reserved_props(f):
    out = []
    for x in [f] + list(f.constructs.filter_by_data(todict=True).values()):
        for p in x.properties():
            if p in RESERVED_PROPS:
                out.append(p)
    return out


def fx_reserved_props(f):
    for x in [f] + list(f.constructs.filter_by_data(todict=True).values()):
        for p in list(x.properties()):
            if p in RESERVED_PROPS:
                x.del_property(p)
    return f


def _ft_refs(f):
    return {k: r for k, r in f.coordinate_references(todict=True).items()
            if r.coordinate_conversion.get_parameter("standard_name", None) is not None}


def _gm_refs(f):
    return {k: r for k, r in f.coordinate_references(todict=True).items()
            if r.coordinate_conversion.get_parameter("grid_mapping_name", None) is not None}


def _owning(f, r):
    sn = r.coordinate_conversion.get_parameter("standard_name", None)
    cs = [k for k in r.coordinates() if k in f.coordinates(todict=True)
          and f.constructs[k].get_property("standard_name", None) == sn]
    return cs[0] if len(cs) == 1 else None


def ft_none_terms(f):
    return [k for k, r in _ft_refs(f).items() if any(v is None for v in r.coordinate_conversion.domain_ancillaries().values())]


def fx_ft_none_terms(f):
    for k, r in _ft_refs(f).items():
        cc = r.coordinate_conversion
        for t, v in list(cc.domain_ancillaries().items()):
            if v is None:
                cc.del_domain_ancillary(t)
    return f


def ft_datum_alone(f):
    """A parametric vertical coordinate with a datum that no grid mapping of the field shares."""
    out = []
    gms = _gm_refs(f)
    for k, r in _ft_refs(f).items():
        if r.datum.parameters() and sum(1 for g in gms.values() if g.datum.equals(r.datum)) != 1:
            out.append(k)
    return out


def fx_ft_datum(f):
    C = cfdm()
    for k in ft_datum_alone(f):
        f.constructs[k].set_datum(C.Datum())
    return f


def ft_datum_missing(f):
    """A grid mapping with a datum next to a parametric vertical coordinate without one: the reader
    gives the vertical reference the horizontal datum."""
    gms = [g for g in _gm_refs(f).values() if g.datum.parameters()]
    if len(gms) != 1:
        return []
    return [k for k, r in _ft_refs(f).items() if not r.datum.equals(gms[0].datum)]


def fx_ft_datum_missing(f):
    gms = [g for g in _gm_refs(f).values() if g.datum.parameters()]
    for k in ft_datum_missing(f):
        f.constructs[k].set_datum(gms[0].datum.copy())
    return f


def ft_csn_missing(f):
    out = []
    for k, r in _ft_refs(f).items():
        csn = r.coordinate_conversion.get_parameter("computed_standard_name", None)
        o = _owning(f, r)
        if csn is not None and o is not None and f.constructs[o].get_property("computed_standard_name", None) != csn:
            out.append(k)
    return out


def fx_ft_csn(f):
    for k in ft_csn_missing(f):
        r = f.constructs[k]
        f.constructs[_owning(f, r)].set_property("computed_standard_name", r.coordinate_conversion.get_parameter("computed_standard_name"))
    return f


def ft_extra_coords(f):
    out = []
    for k, r in _ft_refs(f).items():
        o = _owning(f, r)
        if o is None or set(r.coordinates()) != {o}:
            out.append(k)
    return out


def fx_ft_coords(f):
    for k in ft_extra_coords(f):
        r = f.constructs[k]
        o = _owning(f, r)
        if o is None:
            f.del_construct(k)
            continue
        for c in list(r.coordinates()):
            if c != o:
                r.del_coordinate(c)
    return f


def _inferred_gm_coords(f, r):
    from cfdm.read_write.netcdf import NetCDFRead
    table = NetCDFRead(cfdm().implementation()).cf_coordinate_reference_coordinates()
    name = r.coordinate_conversion.get_parameter("grid_mapping_name", None)
    out = set()
    for n in table.get(name, ()):
        for k, c in f.coordinates(todict=True).items():
            if c.get_property("standard_name", None) == n:
                out.add(k)
    return out


def gm_coords_not_inferable(f):
    gms = _gm_refs(f)
    if len(gms) != 1:
        return []
    return [k for k, r in gms.items() if set(r.coordinates()) != _inferred_gm_coords(f, r)]


def fx_gm_coords(f):
    for k in gm_coords_not_inferable(f):
        r = f.constructs[k]
        want = _inferred_gm_coords(f, r)
        for c in list(r.coordinates()):
            if c not in want:
                r.del_coordinate(c)
        for c in want:
            r.set_coordinate(c)
    return f


def cm_unspanned(f):
    if not hasattr(f, "cell_methods"):
        return []
    da = f.constructs.data_axes()
    spanned = set()
    for ax in da.values():
        spanned.update(ax)
    axes = set(f.domain_axes(todict=True))
    return [k for k, cm in f.cell_methods(todict=True).items() if any(a in axes and a not in spanned for a in cm.get_axes(()))]


def fx_cm_unspanned(f):
    for k in cm_unspanned(f):
        f.del_construct(k)
    return f


def size1_vector_props(f):
    out = []
    for x in [f] + list(f.constructs.filter_by_data(todict=True).values()):
        for p, v in x.properties().items():
            if isinstance(v, np.ndarray) and v.size == 1 and v.ndim >= 1:
                out.append(p)
    return out


def fx_size1_vector_props(f):
    for x in [f] + list(f.constructs.filter_by_data(todict=True).values()):
        for p, v in list(x.properties().items()):
            if isinstance(v, np.ndarray) and v.size == 1 and v.ndim >= 1:
                x.set_property(p, v.reshape(())[()])
    return f


def unlimited_unspanned(f):
    da = f.constructs.data_axes()
    spanned = set()
    for ax in da.values():
        spanned.update(ax)
    if hasattr(f, "get_data_axes"):
        spanned.update(f.get_data_axes(default=()))
    return [k for k, a in f.domain_axes(todict=True).items() if a.nc_is_unlimited() and k not in spanned]


def fx_unlimited_unspanned(f):
    for k in unlimited_unspanned(f):
        f.domain_axes(todict=True)[k].nc_set_unlimited(False)
    return f


def several_external(f):
    ks = [k for k, c in f.constructs.filter_by_type("cell_measure", todict=True).items() if c.nc_get_external()]
    return ks[1:]


def fx_one_external(f):
    for k in several_external(f):
        f.constructs[k].nc_set_external(False)
    return f


def is_compressed(f):
    return bool(hasattr(f, "has_data") and f.has_data() and f.data.get_compression_type())


def fx_uncompress(f):
    g = f.uncompress()
    g.del_property("featureType", None)
    return g


def _possible_names(f):
    """Names that may become netCDF dimension / variable names of the file."""
    out = set()
    for a in f.domain_axes(todict=True).values():
        if a.nc_get_dimension(None):
            out.add(a.nc_get_dimension())
    for c in [f] + list(f.constructs.filter_by_data(todict=True).values()):
        if c.nc_get_variable(None):
            out.add(c.nc_get_variable())
        sn = c.get_property("standard_name", None)
        if sn:
            out.add(sn)
    return out


def cm_free_name_clash(f):
    """Cell methods over a name that is not a domain axis but is (or may become) a netCDF name
    of the dataset: CF then reads the name as that dimension / scalar coordinate variable."""
    if not hasattr(f, "cell_methods"):
        return []
    axes = set(f.domain_axes(todict=True))
    names = _possible_names(f)
    return [k for k, cm in f.cell_methods(todict=True).items() if any(a not in axes and a in names for a in cm.get_axes(()))]


def fx_cm_free_name_clash(f):
    for k in cm_free_name_clash(f):
        f.del_construct(k)
    return f


def bounds_ncdim_clash(f):
    """Bounds of one trailing size that do not all ask for the same netCDF dimension name."""
    by = {}
    for c in f.coordinates(todict=True).values():
        b = c.get_bounds(None)
        if b is not None and b.get_data(None) is not None:
            by.setdefault(b.data.shape[-1], []).append(b.nc_get_dimension(None))
    return [n for n, l in by.items() if len(set(l)) > 1]


def fx_bounds_ncdim(f):
    for c in f.coordinates(todict=True).values():
        b = c.get_bounds(None)
        if b is not None and b.nc_get_dimension(None) is not None:
            b.nc_del_dimension()
    return f


def cm_unitless_interval(f):
    """Cell methods with an interval without units that is followed by another interval or by a
    comment (`(interval: 1 comment: x)`): cfdm.read takes the next keyword for the units."""
    if not hasattr(f, "cell_methods"):
        return []
    out = []
    for k, cm in f.cell_methods(todict=True).items():
        iv = list(cm.get_qualifier("interval", ()))
        for i, d in enumerate(iv):
            unitless = d.get_units(None) is None
            followed = i + 1 < len(iv) or cm.get_qualifier("comment", None) is not None
            if unitless and followed:
                out.append(k)
                break
    return out


def fx_cm_unitless_interval(f):
    C = cfdm()
    for k in cm_unitless_interval(f):
        cm = f.constructs[k]
        iv = [d if d.get_units(None) is not None else C.Data(d.array, "1") for d in cm.get_qualifier("interval")]
        cm.set_qualifier("interval", iv)
    return f


def _vertical_axes(f):
    """domain ancillary key -> (has the owning parametric coordinate bounds?, its vertical axis)
    for every term of every formula-terms reference with exactly one owning coordinate."""
    out = {}
    da = f.constructs.data_axes()
    for r in _ft_refs(f).values():
        o = _owning(f, r)
        if o is None:
            continue
        zb = f.constructs[o].has_bounds()
        for t, k in r.coordinate_conversion.domain_ancillaries().items():
            if k is not None:
                out.setdefault(k, []).append((zb, da[o][0]))
    return out


def scalar_parametric(f):
    """Formula-terms references whose owning coordinate is alone on a size-1 axis outside the data
    (written as a scalar coordinate variable with a formula_terms attribute)."""
    if type(f).__name__ != "Field":
        return []
    da = f.constructs.data_axes()
    nd = set(_nondata_axes(f))
    out = []
    for k, r in _ft_refs(f).items():
        o = _owning(f, r)
        if o is not None and len(da[o]) == 1 and da[o][0] in nd and _spanning(f, da[o][0]) == [o]:
            out.append(k)
    return out


def fx_scalar_parametric(f):
    for k in scalar_parametric(f):
        f.del_construct(k)
    used = set()
    for r in f.coordinate_references(todict=True).values():
        used.update(v for v in r.coordinate_conversion.domain_ancillaries().values() if v is not None)
    for k in list(f.domain_ancillaries(todict=True)):
        if k not in used:
            f.del_construct(k)
    return f


def dan_bounds_unencodable(f):
    """Domain ancillaries with bounds that CF-netCDF has no place for: the bounds of a formula term
    are only named by the formula_terms attribute of the parametric coordinate's bounds variable,
    and only for terms that span the vertical axis."""
    va = _vertical_axes(f)
    da = f.constructs.data_axes()
    out = []
    for k, c in f.domain_ancillaries(todict=True).items():
        if not c.has_bounds():
            continue
        uses = va.get(k, [])
        if not uses or not all(zb and z in da[k] for zb, z in uses):
            out.append(k)
    return out


def fx_dan_bounds(f):
    for k in dan_bounds_unencodable(f):
        f.constructs[k].del_bounds()
    return f


FIXES = {
    "cm_unitless_interval": fx_cm_unitless_interval,
    "dan_bounds": fx_dan_bounds,
    "scalar_parametric": fx_scalar_parametric,
    "aux_on_dimcoord_scalar_axis": fx_aux_on_dimcoord_scalar_axis,
    "one_external": fx_one_external,
    "cm_free_name_clash": fx_cm_free_name_clash,
    "bounds_ncdim": fx_bounds_ncdim,
    "unlimited_unspanned": fx_unlimited_unspanned,
    "uncompress": fx_uncompress,
    "size1_vector_props": fx_size1_vector_props,
    "cm_unspanned": fx_cm_unspanned,
    "numeric_scalar_aux": fx_numeric_scalar_aux,
    "multi_scalar": fx_multi_scalar,
    "dup_scalar": fx_dup_scalar,
    "reserved_props": fx_reserved_props,
    "ft_none_terms": fx_ft_none_terms,
    "ft_datum": fx_ft_datum,
    "ft_datum_missing": fx_ft_datum_missing,
    "ft_csn": fx_ft_csn,
    "ft_coords": fx_ft_coords,
    "gm_coords": fx_gm_coords,
}


def build(spec):
    C = cfdm()
    kind = spec["kind"]
    if kind == "random":
        f = G.random_field(random.Random(spec["gseed"]), max_axes=spec.get("max_axes", 4), allow=tuple(spec["allow"]),
                           dtype=spec.get("dtype"))
    elif kind == "example":
        f = C.example_field(spec["n"])
    elif kind == "grid3":
        f = base_grid3(random.Random(spec["gseed"]))
    else:
        raise ValueError(kind)
    for name in spec.get("muts", ()):
        out = MUTATIONS[name](f, _rng(spec, name))
        if out is not None:
            f = out
    drop = spec.get("drop", ())
    if drop:
        # shrinker: delete constructs by (sorted) position, ignoring failures
        keys = sorted(f.constructs.filter_by_type("dimension_coordinate", "auxiliary_coordinate", "cell_measure",
                                                  "field_ancillary", "domain_ancillary", "coordinate_reference",
                                                  "cell_method", todict=True))
        for i in drop:
            if i < len(keys):
                try:
                    f.del_construct(keys[i])
                except Exception:
                    pass
    if spec.get("domain"):
        f = f.domain.copy()
    for name in spec.get("fix", ()):
        f = FIXES[name](f)
    return f


def random_spec(rng, tier):
    """Choose a spec: ~55 % stage A inside the proved class, ~15 % stage-A edges, ~20 % stage B, ~10 % stage C."""
    r = rng.random()
    spec = {"gseed": rng.randrange(1 << 30)}
    if r < 0.08:
        spec.update(kind="example", n=rng.choice([0, 1, 2, 3, 4, 5, 6, 7]), muts=[])
        if rng.random() < 0.3:
            spec["domain"] = True
        return spec
    spec["kind"] = "random"
    spec["max_axes"] = rng.choice([1, 2, 3, 4, 4])
    if r < 0.58:
        allow = [a for a in A_ALLOW if rng.random() < 0.85]
        muts = [m for m in A_MUTS if rng.random() < 0.25]
    elif r < 0.72:
        allow = [a for a in A_ALLOW if rng.random() < 0.85]
        muts = [m for m in A_MUTS if rng.random() < 0.15] + rng.sample(A_EDGE, rng.choice([1, 1, 2]))
    elif r < 0.92:
        allow = [a for a in A_ALLOW if rng.random() < 0.8]
        if rng.random() < 0.3:
            allow += ["gm", "ft", "dan"]
            muts = []
        else:
            r1 = rng.random()
            muts = ["gm_cf"] if r1 < 0.45 else []
            r2 = rng.random()
            if r2 < 0.3:
                muts.append("ft_cf")
            elif r2 < 0.8:
                muts.append("ft_nd")
            if 0.45 <= r1 < 0.85:
                # several coordinate references, after the vertical one so that it can be re-inserted
                muts.append("multi_ref")
            muts = muts or ["gm_cf"]
            if rng.random() < 0.15:
                muts = ["ft_two_coords"] + [m for m in muts if m not in ("ft_cf", "ft_nd")]
            if rng.random() < 0.25:
                muts.append("cm_quals")
            if "ft_nd" in muts or "multi_ref" in muts:
                # N-d formula terms and two grid mappings need two or three data axes
                spec["max_axes"] = rng.choice([3, 4, 4])
                if rng.random() < (0.8 if "multi_ref" in muts else 0.6):
                    spec["kind"] = "grid3"
            if rng.random() < 0.5 and "dim" in allow:
                allow.remove("dim")
    else:
        allow = [a for a in A_ALLOW if rng.random() < 0.8]
        muts = []
        if rng.random() < 0.5:
            spec["domain"] = True
        else:
            muts = ["compress"]
    spec["allow"] = allow
    spec["muts"] = muts
    return spec
