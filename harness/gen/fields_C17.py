"""Scenario generator for C17 (append).  Fields are described by small JSON specs so that
every case replays and shrinks exactly:

  {"ex": i}                          cfdm.example_field(i)
  {"rand": seed, "kw": {...}}        harness.gen.fields.random_field(Random(seed), **kw)
  {"from": [batch, index]}           a copy of an earlier field of the scenario (batch 0 = S0)
  ... plus "mods": [[op, args…], …]  edits applied in order (see `apply_mod`)

`build_scenario(spec)` returns the list of batches, each a list of cfdm constructs.
The shared generator harness/gen/fields.py is used read-only.
"""
import random

import numpy as np

from . import fields as F

EX = [0, 1, 2, 3, 4, 5, 6, 7]
FMTS = ["NETCDF4", "NETCDF4_CLASSIC", "NETCDF3_CLASSIC", "NETCDF3_64BIT_OFFSET", "NETCDF3_64BIT_DATA"]
DESCR = ["comment", "history", "institution", "references", "source", "title"]


def cfdm():
    return F.cfdm()


# ----------------------------------------------------------------------------
# building
# ----------------------------------------------------------------------------
def _coords(f, kinds=("dimension_coordinate", "auxiliary_coordinate")):
    return sorted(f.constructs.filter_by_type(*kinds, todict=True).items())


def apply_mod(f, mod):
    """Apply one edit; unknown / inapplicable edits are no-ops (so shrinking stays valid)."""
    C = cfdm()
    op = mod[0]
    try:
        if op == "newdata":  # other data values, same shape/dtype (a different field on the same domain)
            rng = random.Random(mod[1])
            d = f.get_data(None)
            if d is not None:
                a = np.array(d.array)
                a = (np.arange(a.size).reshape(a.shape) * 3 + rng.randint(1, 50)).astype(a.dtype)
                f.set_data(C.Data(a, units=d.get_units(None)), axes=f.get_data_axes(), copy=False)
        elif op == "stdname":
            f.set_property("standard_name", mod[1])
        elif op == "prop":
            f.set_property(mod[1], mod[2])
        elif op == "delprop":
            f.del_property(mod[1], None)
        elif op == "ncvar":
            f.nc_set_variable(mod[1])
        elif op == "delncvar":
            f.nc_del_variable(None)
        elif op == "global":  # nc_set_global_attribute(name[, value])
            if len(mod) > 2:
                f.nc_set_global_attribute(mod[1], mod[2])
            else:
                f.nc_set_global_attribute(mod[1])
        elif op == "ft":  # featureType as property + global attribute, as the reader leaves it
            f.set_property("featureType", mod[1])
            f.nc_set_global_attribute("featureType")
        elif op == "groups":
            if f.nc_get_variable(None) is None:
                f.nc_set_variable("grouped")
            f.nc_set_variable_groups(list(mod[1]))
        elif op == "perturb":  # change the values of the k-th coordinate (no longer equal to the original)
            cs = _coords(f)
            if cs:
                k, c = cs[mod[1] % len(cs)]
                d = c.get_data(None)
                if d is not None and d.dtype.kind in "fiu":
                    a = np.array(d.array) + (mod[2] if len(mod) > 2 else 1)
                    c.set_data(C.Data(a.astype(d.dtype), units=d.get_units(None)), copy=False)
                    b = c.get_bounds(None)
                    if b is not None and b.get_data(None) is not None:
                        bb = np.array(b.data.array) + (mod[2] if len(mod) > 2 else 1)
                        b.set_data(C.Data(bb.astype(b.data.dtype)), copy=False)
        elif op == "coordncvar":  # pin another netCDF name on the k-th coordinate
            cs = _coords(f)
            if cs:
                k, c = cs[mod[1] % len(cs)]
                c.nc_set_variable(mod[2])
        elif op == "coordprop":
            cs = _coords(f)
            if cs:
                k, c = cs[mod[1] % len(cs)]
                c.set_property(mod[2], mod[3])
        elif op == "delbounds":
            cs = _coords(f)
            if cs:
                k, c = cs[mod[1] % len(cs)]
                c.del_bounds(None)
        elif op == "perturbbounds":
            cs = [kc for kc in _coords(f) if kc[1].has_bounds() and kc[1].bounds.get_data(None) is not None]
            if cs:
                k, c = cs[mod[1] % len(cs)]
                b = c.bounds
                b.set_data(C.Data(np.array(b.data.array) + 0.25), copy=False)
        elif op == "dimname":  # pin a netCDF dimension name on the k-th domain axis
            axes = sorted(f.domain_axes(todict=True).items())
            if axes:
                k, a = axes[mod[1] % len(axes)]
                a.nc_set_dimension(mod[2])
        elif op == "unlimited":
            axes = sorted(f.domain_axes(todict=True).items())
            if axes:
                k, a = axes[mod[1] % len(axes)]
                a.nc_set_unlimited(True)
        elif op == "fill":  # _FillValue / missing_value on the field
            d = f.get_data(None)
            if d is not None and d.dtype.kind in "fiu":
                f.set_property(mod[1], np.array(mod[2]).astype(d.dtype).item() if d.dtype.kind in "iu" else float(mod[2]))
        elif op == "extmsr":  # an external cell measure [ncvar, with data?, measure]
            C_ = cfdm()
            axes = [k for k, a in sorted(f.domain_axes(todict=True).items()) if a.get_size() > 1][:2]
            if axes and hasattr(f, "cell_measures"):
                # one external name denotes one variable of the external file: the measure goes with the name
                cm = C_.CellMeasure(measure="volume" if str(mod[1]).startswith("vol") else "area", properties={"units": "km2"})
                cm.nc_set_variable(mod[1])
                cm.nc_set_external(True)
                if len(mod) > 2 and mod[2]:
                    shp = [f.domain_axes(todict=True)[a].get_size() for a in axes]
                    cm.set_data(C_.Data(np.arange(int(np.prod(shp)), dtype="f8").reshape(shp) + 1.0), copy=False)
                f.set_construct(cm, axes=axes)
        elif op == "delcoord":
            cs = _coords(f, ("auxiliary_coordinate", "cell_measure", "field_ancillary"))
            if cs:
                k, c = cs[mod[1] % len(cs)]
                f.del_construct(k)
        elif op == "delcm":
            for k in list(f.cell_methods(todict=True)):
                f.del_construct(k)
        elif op == "domain":
            return f.domain.copy() if hasattr(f, "domain") else f
        elif op == "orogfield":
            # a field equal (as a variable) to one of f's 2-d domain ancillaries
            das = [c for k, c in sorted(f.domain_ancillaries(todict=True).items()) if c.get_data(None) is not None and c.data.ndim == 2]
            if das:
                da = das[0]
                key = [k for k, c in f.domain_ancillaries(todict=True).items() if c is da][0]
                g = C.Field(properties=da.properties())
                axes = f.get_data_axes(key)
                amap = {}
                for a in axes:
                    amap[a] = g.set_construct(f.domain_axes(todict=True)[a].copy())
                g.set_data(da.data.copy(), axes=[amap[a] for a in axes])
                for ck, c in f.dimension_coordinates(todict=True).items():
                    ca = f.get_data_axes(ck)
                    if ca[0] in amap:
                        g.set_construct(c.copy(), axes=[amap[ca[0]]])
                return g
    except Exception:
        return f
    return f


def build_one(spec, built):
    C = cfdm()
    if "ex" in spec:
        f = C.example_field(spec["ex"])
    elif "rand" in spec:
        f = F.random_field(random.Random(spec["rand"]), **spec.get("kw", {}))
    elif "from" in spec:
        b, i = spec["from"]
        try:
            f = built[b][i].copy()
        except (IndexError, KeyError):
            f = C.example_field(0)
    else:
        raise ValueError("bad field spec")
    for m in spec.get("mods", ()):
        f = apply_mod(f, m)
    return f


def build_scenario(spec):
    """spec['s0'] and spec['batches'] → [S0, S1, S2, …] as lists of cfdm constructs."""
    built = []
    for batch in [spec["s0"]] + list(spec["batches"]):
        cur = []
        built.append(cur)
        for fs in batch:
            cur.append(build_one(fs, built))
    return built


# ----------------------------------------------------------------------------
# random scenarios
# ----------------------------------------------------------------------------
RAND_KW_SIMPLE = {"max_axes": 3, "allow": ["dim", "aux", "bounds", "names", "scalar", "cm", "msr", "fan", "mask"]}
RAND_KW_FULL = {"max_axes": 3}
RAND_KW_NOSTR = {"max_axes": 3, "allow": ["dim", "aux", "aux2d", "scalar", "msr", "fan", "cm", "gm", "ft", "bounds", "names",
                                          "unlimited", "mask", "vecprop", "dan"]}


def _rand_spec(rng, classic):
    kw = rng.choice([RAND_KW_SIMPLE, RAND_KW_NOSTR, RAND_KW_NOSTR, RAND_KW_FULL])
    kw = dict(kw)
    if classic:
        # char storage of scalar strings cannot be read back in this environment (netCDF4 chartostring)
        kw["dtype"] = rng.choice(["f8", "f4", "i4", "i2"])
        kw["allow"] = [a for a in kw.get("allow", RAND_KW_NOSTR["allow"] + ["string"]) if a not in ("unlimited", "string")]
    return {"rand": rng.randrange(1 << 30), "kw": kw}


def _base_spec(rng, classic, exs):
    if rng.random() < 0.45:
        return {"ex": rng.choice(exs)}
    return _rand_spec(rng, classic)


EXT_NAMES = ["areacella", "areacello", "volcello"]
NAMES = ["ta", "q", "ua", "lat", "lon", "time", "x", "y", "bounds2", "dim", "data", "auxiliary", "a", "b", "lat_bnds"]


def random_mods(rng, derived):
    """Edits for an appended field.  `derived`: it is a copy of an earlier field."""
    mods = []
    if derived:
        r = rng.random()
        if r < 0.75:
            mods.append(["newdata", rng.randrange(1000)])
        if rng.random() < 0.5:
            mods.append(["stdname", rng.choice(["air_temperature", "eastward_wind", "specific_humidity", "northward_wind"])])
        # how much of the domain stays shared
        r = rng.random()
        if r < 0.35:
            pass  # all coordinates shared
        elif r < 0.8:
            for _ in range(rng.randint(1, 2)):
                mods.append(rng.choice([
                    ["perturb", rng.randrange(6), rng.choice([1, 2, 10])],
                    ["perturbbounds", rng.randrange(4)],
                    ["delbounds", rng.randrange(6)],
                    ["coordprop", rng.randrange(6), "long_name", "changed"],
                    ["delcoord", rng.randrange(4)],
                ]))
        else:
            for k in range(6):
                mods.append(["perturb", k, 3])
    if rng.random() < 0.3:
        mods.append(rng.choice([["ncvar", rng.choice(NAMES)], ["delncvar"]]))
    if rng.random() < 0.25:
        mods.append(["coordncvar", rng.randrange(6), rng.choice(NAMES)])
    if rng.random() < 0.15:
        mods.append(["dimname", rng.randrange(4), rng.choice(NAMES)])
    if rng.random() < 0.3:
        p = rng.choice(DESCR + ["project", "Conventions"])
        mods.append(["prop", p, rng.choice(["appended text", "first", "CF-1.8"])])
    if rng.random() < 0.12:
        mods.append(["global", rng.choice(["project", "comment", "extra"])] + ([rng.choice(["forced", "first"])] if rng.random() < 0.5 else []))
    if rng.random() < 0.12:
        mods.append(["fill", rng.choice(["_FillValue", "missing_value"]), rng.choice([-99, -77])])
    if rng.random() < 0.08:
        mods.append(["delcm"])
    if rng.random() < 0.06:
        mods.append(["domain"])
    return mods


def random_scenario(rng, tier="quick"):
    """One scenario spec (JSON-able)."""
    r = rng.random()
    fmt = "NETCDF4" if r < 0.6 else rng.choice(FMTS)
    classic = fmt != "NETCDF4"
    exs = [0, 1, 2, 3, 5, 7] if classic else EX
    s0 = []
    for _ in range(rng.choice([1, 1, 1, 2, 2, 3])):
        fs = _base_spec(rng, classic, exs)
        mods = []
        if rng.random() < 0.3:
            mods.append(["prop", rng.choice(DESCR + ["project"]), rng.choice(["first", "original text"])])
        if rng.random() < 0.1:
            mods.append(["global", rng.choice(["project", "extra", "comment"])] + ([rng.choice(["forced", "first"])] if rng.random() < 0.5 else []))
        if rng.random() < 0.08:
            mods.append(["ft", rng.choice(["timeSeries", "profile"])])
        if rng.random() < 0.14:
            mods.append(["extmsr", rng.choice(EXT_NAMES), rng.random() < 0.3])
        if rng.random() < 0.05 and s0 == []:
            mods.append(["orogfield"])
        if mods:
            fs["mods"] = mods
        s0.append(fs)
    batches = []
    nb = rng.choice([1, 1, 1, 2, 2, 3])
    for b in range(1, nb + 1):
        batch = []
        for _ in range(rng.choice([1, 1, 1, 2, 3])):
            r = rng.random()
            if r < 0.6:
                # derived from an earlier field (shares all / some coordinates)
                pb = rng.randrange(0, b)
                src = ([s0] + batches)[pb]
                fs = {"from": [pb, rng.randrange(len(src))]}
                fs["mods"] = random_mods(rng, True)
            else:
                fs = _base_spec(rng, classic, exs)
                fs["mods"] = random_mods(rng, False)
            if rng.random() < 0.16:
                fs["mods"].append(["extmsr", rng.choice(EXT_NAMES), rng.random() < 0.4, rng.choice(["area", "area", "volume"])])
            # refusals and feature types
            r = rng.random()
            if r < 0.07 and not classic:
                fs["mods"].append(["groups", rng.choice([["forecast"], ["forecast", "model"]])])
            elif r < 0.17:
                fs["mods"].append(["ft", rng.choice(["timeSeries", "profile"])])
            batch.append(fs)
        batches.append(batch)
    spec = {"fmt": fmt, "s0": s0, "batches": batches}
    if rng.random() < 0.1:
        spec["mode"] = "r+"
    if rng.random() < 0.25:
        spec["external"] = True  # appends (and their mode-'w' twins) are given an external= file
    return spec
