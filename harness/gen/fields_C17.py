"""Scenario generator for C17 (append).  Fields are described by small JSON specs so that
every case replays and shrinks exactly:

  {"ex": i}                          cfdm.example_field(i)
  {"rand": seed, "kw": {...}}        harness.gen.fields.random_field(Random(seed), **kw)
  {"from": [batch, index]}           a copy of an earlier field of the scenario (batch 0 = S0)
  ... plus "mods": [[op, args…], …]  edits applied in order (see `apply_mod`)

`build_scenario(spec)` returns the list of batches, each a list of cfdm constructs.
The shared generator harness/gen/fields.py is used read-only.
"""
import json
import random

import numpy as np

from . import fields as F

EX = [0, 1, 2, 3, 4, 5, 6, 7]
FMTS = ["NETCDF4", "NETCDF4_CLASSIC", "NETCDF3_CLASSIC", "NETCDF3_64BIT_OFFSET", "NETCDF3_64BIT_DATA"]
DESCR = ["comment", "history", "institution", "references", "source", "title"]


def cfdm():
    return F.cfdm()


# ----------------------------------------------------------------------------
# building
# ----------------------------------------------------------------------------
def _coords(f, kinds=("dimension_coordinate", "auxiliary_coordinate")):
    return sorted(f.constructs.filter_by_type(*kinds, todict=True).items())


def apply_mod(f, mod):
    """Apply one edit; unknown / inapplicable edits are no-ops (so shrinking stays valid)."""
    C = cfdm()
    op = mod[0]
    try:
        if op == "newdata":  # other data values, same shape/dtype (a different field on the same domain)
            rng = random.Random(mod[1])
            d = f.get_data(None)
            if d is not None:
                a = np.array(d.array)
                a = (np.arange(a.size).reshape(a.shape) * 3 + rng.randint(1, 50)).astype(a.dtype)
                f.set_data(C.Data(a, units=d.get_units(None)), axes=f.get_data_axes(), copy=False)
        elif op == "stdname":
            f.set_property("standard_name", mod[1])
        elif op == "prop":
            f.set_property(mod[1], mod[2])
        elif op == "delprop":
            f.del_property(mod[1], None)
        elif op == "ncvar":
            f.nc_set_variable(mod[1])
        elif op == "delncvar":
            f.nc_del_variable(None)
        elif op == "global":  # nc_set_global_attribute(name[, value])
            if len(mod) > 2:
                f.nc_set_global_attribute(mod[1], mod[2])
            else:
                f.nc_set_global_attribute(mod[1])
        elif op == "ft":  # featureType as property + global attribute, as the reader leaves it
            f.set_property("featureType", mod[1])
            f.nc_set_global_attribute("featureType")
        elif op == "groups":
            if f.nc_get_variable(None) is None:
                f.nc_set_variable("grouped")
            f.nc_set_variable_groups(list(mod[1]))
        elif op == "perturb":  # change the values of the k-th coordinate (no longer equal to the original)
            cs = _coords(f)
            if cs:
                k, c = cs[mod[1] % len(cs)]
                d = c.get_data(None)
                if d is not None and d.dtype.kind in "fiu":
                    a = np.array(d.array) + (mod[2] if len(mod) > 2 else 1)
                    c.set_data(C.Data(a.astype(d.dtype), units=d.get_units(None)), copy=False)
                    b = c.get_bounds(None)
                    if b is not None and b.get_data(None) is not None:
                        bb = np.array(b.data.array) + (mod[2] if len(mod) > 2 else 1)
                        b.set_data(C.Data(bb.astype(b.data.dtype)), copy=False)
        elif op == "coordncvar":  # pin another netCDF name on the k-th coordinate
            cs = _coords(f)
            if cs:
                k, c = cs[mod[1] % len(cs)]
                c.nc_set_variable(mod[2])
        elif op == "coordprop":
            cs = _coords(f)
            if cs:
                k, c = cs[mod[1] % len(cs)]
                c.set_property(mod[2], mod[3])
        elif op == "delbounds":
            cs = _coords(f)
            if cs:
                k, c = cs[mod[1] % len(cs)]
                c.del_bounds(None)
        elif op == "perturbbounds":
            cs = [kc for kc in _coords(f) if kc[1].has_bounds() and kc[1].bounds.get_data(None) is not None]
            if cs:
                k, c = cs[mod[1] % len(cs)]
                b = c.bounds
                b.set_data(C.Data(np.array(b.data.array) + 0.25), copy=False)
        elif op == "dimname":  # pin a netCDF dimension name on the k-th domain axis
            axes = sorted(f.domain_axes(todict=True).items())
            if axes:
                k, a = axes[mod[1] % len(axes)]
                a.nc_set_dimension(mod[2])
        elif op == "unlimited":
            axes = sorted(f.domain_axes(todict=True).items())
            if axes:
                k, a = axes[mod[1] % len(axes)]
                a.nc_set_unlimited(True)
        elif op == "fill":  # _FillValue / missing_value on the field
            d = f.get_data(None)
            if d is not None and d.dtype.kind in "fiu":
                f.set_property(mod[1], np.array(mod[2]).astype(d.dtype).item() if d.dtype.kind in "iu" else float(mod[2]))
        elif op == "extmsr":  # an external cell measure [ncvar, with data?, measure]
            C_ = cfdm()
            axes = [k for k, a in sorted(f.domain_axes(todict=True).items()) if a.get_size() > 1][:2]
            if axes and hasattr(f, "cell_measures"):
                # one external name denotes one variable of the external file: the measure goes with the name
                cm = C_.CellMeasure(measure="volume" if str(mod[1]).startswith("vol") else "area", properties={"units": "km2"})
                cm.nc_set_variable(mod[1])
                cm.nc_set_external(True)
                if len(mod) > 2 and mod[2]:
                    shp = [f.domain_axes(todict=True)[a].get_size() for a in axes]
                    cm.set_data(C_.Data(np.arange(int(np.prod(shp)), dtype="f8").reshape(shp) + 1.0), copy=False)
                f.set_construct(cm, axes=axes)
        elif op == "delcoord":
            cs = _coords(f, ("auxiliary_coordinate", "cell_measure", "field_ancillary"))
            if cs:
                k, c = cs[mod[1] % len(cs)]
                f.del_construct(k)
        elif op == "delcm":
            for k in list(f.cell_methods(todict=True)):
                f.del_construct(k)
        elif op == "domain":
            return f.domain.copy() if hasattr(f, "domain") else f
        elif op == "orogfield":
            # a field equal (as a variable) to one of f's 2-d domain ancillaries
            das = [c for k, c in sorted(f.domain_ancillaries(todict=True).items()) if c.get_data(None) is not None and c.data.ndim == 2]
            if das:
                da = das[0]
                key = [k for k, c in f.domain_ancillaries(todict=True).items() if c is da][0]
                g = C.Field(properties=da.properties())
                axes = f.get_data_axes(key)
                amap = {}
                for a in axes:
                    amap[a] = g.set_construct(f.domain_axes(todict=True)[a].copy())
                g.set_data(da.data.copy(), axes=[amap[a] for a in axes])
                for ck, c in f.dimension_coordinates(todict=True).items():
                    ca = f.get_data_axes(ck)
                    if ca[0] in amap:
                        g.set_construct(c.copy(), axes=[amap[ca[0]]])
                return g
    except Exception:
        return f
    return f


MK_COORDS = [("time", "days since 2000-01-01"), ("latitude", "degrees_north"), ("longitude", "degrees_east"), ("height", "m")]


def make_field(mk):
    """A field built from scratch, axis by axis (the dimension family of scenarios):

      {"ncvar": str|None, "sn": standard name, "seed": int,
       "extra": None | {"ncdim": str|None, "dc": bool, "v": int, "aux2": int|None},          size-one axis not spanned by the data
       "param": None | {"v": int, "ptop": number|None},     axis 0 (needs a "dc") is an atmosphere sigma coordinate: ps(axis 0), scalar ptop
       "axes": [{"n": size, "ncdim": str|None, "unlim": bool,
                 "dc": None | {"v": int, "k": 0..3, "ncvar": str|None, "bounds": bool, "anon": bool},   dimension coordinate
                 "aux": None | {"v": int, "ncvar": str|None}}, …]}                        1-d auxiliary coordinate

    Coordinate values are a function of (v, size, k) only, so that two axes have equal coordinates exactly when
    these agree."""
    C = cfdm()
    f = C.Field(properties={"standard_name": mk.get("sn", "air_temperature"), "units": "K"})
    if mk.get("ncvar") is not None:
        f.nc_set_variable(mk["ncvar"])
    keys = []
    for a in mk["axes"]:
        da = C.DomainAxis(int(a["n"]))
        if a.get("ncdim") is not None:
            da.nc_set_dimension(a["ncdim"])
        if a.get("unlim"):
            da.nc_set_unlimited(True)
        keys.append(f.set_construct(da))
    shape = [int(a["n"]) for a in mk["axes"]]
    n = int(np.prod(shape)) if shape else 1
    f.set_data(C.Data((np.arange(n, dtype="f8") * 0.5 + 7 * int(mk.get("seed", 0))).reshape(shape)), axes=keys)
    ex = mk.get("extra")
    if ex:
        # a size-one axis that the data do not span: with a dimension coordinate alone it becomes a scalar coordinate
        # variable; spanned by a 2-d auxiliary coordinate as well (or only) the writer inserts it into the data
        da = C.DomainAxis(1)
        if ex.get("ncdim") is not None:
            da.nc_set_dimension(ex["ncdim"])
        xk = f.set_construct(da)
        if ex.get("dc"):
            c = C.DimensionCoordinate(properties={"standard_name": "height", "units": "m"})
            c.set_data(C.Data(np.array([1.5 + int(ex.get("v", 0))])))
            f.set_construct(c, axes=[xk])
        if ex.get("aux2") is not None and keys:
            c = C.AuxiliaryCoordinate(properties={"long_name": "two-dimensional label", "units": "1"})
            c.set_data(C.Data(50.0 * int(ex["aux2"]) + np.arange(shape[0], dtype="f8").reshape(1, shape[0])))
            f.set_construct(c, axes=[xk, keys[0]])
    for i, (a, key) in enumerate(zip(mk["axes"], keys)):
        dc = a.get("dc")
        if dc:
            sn, u = MK_COORDS[dc.get("k", i) % len(MK_COORDS)]
            # "anon": no standard name (the netCDF variable name then comes from the variable name that was set,
            # else from the axis' netCDF dimension name used as it is, else the default "coordinate")
            c = C.DimensionCoordinate(properties={"long_name": sn, "units": u} if dc.get("anon") else {"standard_name": sn, "units": u})
            vals = 10.0 * int(dc.get("v", 0)) + np.arange(int(a["n"]), dtype="f8")
            c.set_data(C.Data(vals))
            if dc.get("bounds"):
                nv = 4 if dc["bounds"] == 4 else 2    # True / 2: intervals; 4: four vertices per cell
                b = np.empty((int(a["n"]), nv), dtype="f8")
                for j in range(nv):
                    b[:, j] = vals - 0.5 + j / (nv - 1)
                c.set_bounds(C.Bounds(data=C.Data(b)))
            if dc.get("ncvar") is not None:
                c.nc_set_variable(dc["ncvar"])
            f.set_construct(c, axes=[key])
        ax = a.get("aux")
        if ax:
            if ax.get("str"):
                # string-valued: stored as char with a string-length dimension in the classic formats
                c = C.AuxiliaryCoordinate(properties={"long_name": f"label {i}"})
                width = int(ax["str"])
                c.set_data(C.Data(np.array([("s%d_%d" % (int(ax.get("v", 0)), j)).ljust(width, "x")[:max(width, 4)] for j in range(int(a["n"]))])))
            else:
                c = C.AuxiliaryCoordinate(properties={"long_name": f"label {i}", "units": "1"})
                c.set_data(C.Data(100.0 * int(ax.get("v", 0)) + 2.0 * np.arange(int(a["n"]), dtype="f8")))
            if ax.get("ncvar") is not None:
                c.nc_set_variable(ax["ncvar"])
            f.set_construct(c, axes=[key])
    pm = mk.get("param")
    if pm and mk["axes"] and mk["axes"][0].get("dc"):
        # axis 0 carries a parametric vertical coordinate (atmosphere sigma): a domain ancillary `ps` over the axis and
        # the scalar parameter `ptop` (a Data value, not a construct)
        zk = [k for k, c in f.dimension_coordinates(todict=True).items() if f.get_data_axes(k) == (keys[0],)][0]
        zc = f.constructs[zk]
        zc.set_properties({"standard_name": "atmosphere_sigma_coordinate"})
        zc.del_property("units", None)
        zc.del_property("long_name", None)
        ps = C.DomainAncillary(properties={"standard_name": "surface_air_pressure", "units": "Pa"})
        ps.set_data(C.Data(1000.0 - 10.0 * int(pm.get("v", 0)) - np.arange(shape[0], dtype="f8"), units="Pa"))
        pk = f.set_construct(ps, axes=[keys[0]])
        prm = {"standard_name": "atmosphere_sigma_coordinate", "computed_standard_name": "air_pressure"}
        if pm.get("ptop") is not None:
            prm["ptop"] = C.Data(float(pm["ptop"]), units="Pa")
        f.set_construct(C.CoordinateReference(coordinates=[zk], coordinate_conversion=C.CoordinateConversion(
            parameters=prm, domain_ancillaries={"ps": pk})))
    return f


def build_one(spec, built):
    C = cfdm()
    if "mk" in spec:
        f = make_field(spec["mk"])
    elif "ex" in spec:
        f = C.example_field(spec["ex"])
    elif "rand" in spec:
        f = F.random_field(random.Random(spec["rand"]), **spec.get("kw", {}))
    elif "from" in spec:
        b, i = spec["from"]
        try:
            f = built[b][i].copy()
        except (IndexError, KeyError):
            f = C.example_field(0)
    else:
        raise ValueError("bad field spec")
    for m in spec.get("mods", ()):
        f = apply_mod(f, m)
    return f


def build_scenario(spec):
    """spec['s0'] and spec['batches'] → [S0, S1, S2, …] as lists of cfdm constructs."""
    built = []
    for batch in [spec["s0"]] + list(spec["batches"]):
        cur = []
        built.append(cur)
        for fs in batch:
            cur.append(build_one(fs, built))
    return built


# ----------------------------------------------------------------------------
# random scenarios
# ----------------------------------------------------------------------------
RAND_KW_SIMPLE = {"max_axes": 3, "allow": ["dim", "aux", "bounds", "names", "scalar", "cm", "msr", "fan", "mask"]}
RAND_KW_FULL = {"max_axes": 3}
RAND_KW_NOSTR = {"max_axes": 3, "allow": ["dim", "aux", "aux2d", "scalar", "msr", "fan", "cm", "gm", "ft", "bounds", "names",
                                          "unlimited", "mask", "vecprop", "dan"]}


def _rand_spec(rng, classic):
    # variable-length string variables (RAND_KW_FULL, example fields 1, 4, 6) are what the open finding
    # crash:dataset-reread-while-held-open needs: kept, but as a small share of the NETCDF4 scenarios
    kw = rng.choice([RAND_KW_SIMPLE, RAND_KW_SIMPLE, RAND_KW_NOSTR, RAND_KW_NOSTR, RAND_KW_NOSTR, RAND_KW_NOSTR, RAND_KW_FULL])
    kw = dict(kw)
    if classic:
        # char storage of scalar strings cannot be read back in this environment (netCDF4 chartostring)
        kw["dtype"] = rng.choice(["f8", "f4", "i4", "i2"])
        kw["allow"] = [a for a in kw.get("allow", RAND_KW_NOSTR["allow"] + ["string"]) if a not in ("unlimited", "string")]
    return {"rand": rng.randrange(1 << 30), "kw": kw}


def _base_spec(rng, classic, exs):
    if rng.random() < 0.45:
        if not classic and rng.random() < 0.75:
            return {"ex": rng.choice([x for x in exs if x not in (1, 4, 6)])}
        return {"ex": rng.choice(exs)}
    return _rand_spec(rng, classic)


EXT_NAMES = ["areacella", "areacello", "volcello"]
NAMES = ["ta", "q", "ua", "lat", "lon", "time", "x", "y", "bounds2", "dim", "data", "auxiliary", "a", "b", "lat_bnds"]


def random_mods(rng, derived, held=()):
    """Edits for an appended field.  `derived`: it is a copy of an earlier field.  `held`: [name, value] of
    properties that S0 was given (candidates for global attributes of the dataset)."""
    mods = []
    if derived:
        r = rng.random()
        if r < 0.75:
            mods.append(["newdata", rng.randrange(1000)])
        if rng.random() < 0.5:
            mods.append(["stdname", rng.choice(["air_temperature", "eastward_wind", "specific_humidity", "northward_wind"])])
        # how much of the domain stays shared
        r = rng.random()
        if r < 0.35:
            pass  # all coordinates shared
        elif r < 0.8:
            for _ in range(rng.randint(1, 2)):
                mods.append(rng.choice([
                    ["perturb", rng.randrange(6), rng.choice([1, 2, 10])],
                    ["perturbbounds", rng.randrange(4)],
                    ["delbounds", rng.randrange(6)],
                    ["coordprop", rng.randrange(6), "long_name", "changed"],
                    ["delcoord", rng.randrange(4)],
                ]))
        else:
            for k in range(6):
                mods.append(["perturb", k, 3])
    if rng.random() < 0.3:
        mods.append(rng.choice([["ncvar", rng.choice(NAMES)], ["delncvar"]]))
    if rng.random() < 0.25:
        mods.append(["coordncvar", rng.randrange(6), rng.choice(NAMES)])
    if rng.random() < 0.15:
        mods.append(["dimname", rng.randrange(4), rng.choice(NAMES)])
    if held and rng.random() < 0.3:
        # a property that the dataset may hold as a global attribute: with the same value, or with another one
        name, value = rng.choice(list(held))
        mods.append(["prop", name, value if rng.random() < 0.5 else "appended text"])
    elif rng.random() < 0.3:
        p = rng.choice(DESCR + ["project", "Conventions"])
        mods.append(["prop", p, rng.choice(["appended text", "first", "CF-1.8"])])
    if rng.random() < 0.18:
        mods.append(["global", rng.choice(["project", "comment", "extra"])] + ([rng.choice(["forced", "first"])] if rng.random() < 0.6 else []))
    if rng.random() < 0.12:
        mods.append(["fill", rng.choice(["_FillValue", "missing_value"]), rng.choice([-99, -77])])
    if rng.random() < 0.08:
        mods.append(["delcm"])
    if rng.random() < 0.06:
        mods.append(["domain"])
    return mods


def random_scenario(rng, tier="quick"):
    """One scenario spec (JSON-able)."""
    r = rng.random()
    fmt = "NETCDF4" if r < 0.6 else rng.choice(FMTS)
    classic = fmt != "NETCDF4"
    exs = [0, 1, 2, 3, 5, 7] if classic else EX
    s0 = []
    for _ in range(rng.choice([1, 1, 1, 2, 2, 3])):
        fs = _base_spec(rng, classic, exs)
        mods = []
        if rng.random() < 0.3:
            mods.append(["prop", rng.choice(DESCR + ["project"]), rng.choice(["first", "original text"])])
        if rng.random() < 0.1:
            mods.append(["global", rng.choice(["project", "extra", "comment"])] + ([rng.choice(["forced", "first"])] if rng.random() < 0.5 else []))
        if rng.random() < 0.08:
            mods.append(["ft", rng.choice(["timeSeries", "profile"])])
        if rng.random() < 0.2:
            mods.append(["extmsr", rng.choice(EXT_NAMES), rng.random() < 0.3])
        if rng.random() < 0.05 and s0 == []:
            mods.append(["orogfield"])
        if mods:
            fs["mods"] = mods
        s0.append(fs)
    held = [[m[1], m[2]] for f0 in s0 for m in f0.get("mods", ()) if m[0] == "prop"]
    if len(s0) == 1 and "ex" in s0[0]:
        held.append(["project", "research"])   # the example fields carry it (a global attribute when common to S0)
    batches = []
    nb = rng.choice([1, 1, 1, 2, 2, 3])
    for b in range(1, nb + 1):
        batch = []
        for _ in range(rng.choice([1, 1, 1, 2, 3])):
            r = rng.random()
            if r < 0.6:
                # derived from an earlier field (shares all / some coordinates)
                pb = rng.randrange(0, b)
                src = ([s0] + batches)[pb]
                fs = {"from": [pb, rng.randrange(len(src))]}
                fs["mods"] = random_mods(rng, True, held)
            else:
                fs = _base_spec(rng, classic, exs)
                fs["mods"] = random_mods(rng, False, held)
            if rng.random() < 0.16:
                # an external cell measure: mostly one that the dataset already declares in external_variables (an
                # undeclared one is the open finding external-variable-not-declared: kept as a small share)
                declared = [m[1] for f0 in s0 for m in f0.get("mods", ()) if m[0] == "extmsr"]
                r2 = rng.random()
                if declared and r2 < 0.8:
                    fs["mods"].append(["extmsr", rng.choice(declared), rng.random() < 0.4, rng.choice(["area", "area", "volume"])])
                elif r2 < (0.9 if declared else 0.2):
                    fs["mods"].append(["extmsr", rng.choice(EXT_NAMES), rng.random() < 0.4, rng.choice(["area", "area", "volume"])])
            # refusals and feature types
            r = rng.random()
            if r < 0.07 and not classic:
                fs["mods"].append(["groups", rng.choice([["forecast"], ["forecast", "model"]])])
            elif r < 0.17:
                fs["mods"].append(["ft", rng.choice(["timeSeries", "profile"])])
            batch.append(fs)
        batches.append(batch)
    spec = {"fmt": fmt, "s0": s0, "batches": batches}
    if rng.random() < 0.1:
        spec["mode"] = "r+"
    if rng.random() < 0.25:
        spec["external"] = True  # appends (and their mode-'w' twins) are given an external= file
    return spec


# ----------------------------------------------------------------------------
# the dimension family: fields built axis by axis (`make_field`), appended fields derived from an earlier
# field by choosing, per axis, how it relates to an axis / dimension that is already in the dataset
# ----------------------------------------------------------------------------
DIM_NAMES = ["obs", "t", "x", "y"]
VAR_NAMES = ["ta", "q", "ua"]


def _dim_axis(rng, nc4, i):
    a = {"n": rng.choice([2, 3, 4, 5]), "ncdim": rng.choice(DIM_NAMES) if rng.random() < 0.85 else None,
         "unlim": bool(nc4 and rng.random() < 0.5)}
    if rng.random() < 0.45:
        a["dc"] = {"v": rng.randrange(3), "k": i, "ncvar": rng.choice([None, None, a["ncdim"], "time", "lat"]),
                   "bounds": rng.choice([False, False, False, True, 4])}
        if rng.random() < 0.2:
            a["dc"].update(anon=True, ncvar=None)
    if rng.random() < 0.4:
        a["aux"] = {"v": rng.randrange(3), "ncvar": rng.choice([None, "label", "aux0"])}
        if not nc4 and rng.random() < 0.5:
            a["aux"]["str"] = rng.choice([5, 5, 7])    # char storage: string-length dimensions (strlen5, strlen7)
    return a


def _dim_extra(rng, ds):
    if rng.random() < 0.75:
        return None
    r = rng.random()
    return {"ncdim": rng.choice([None, "z"] + ds[:2]), "dc": r < 0.65, "v": rng.randrange(2), "aux2": rng.randrange(2) if (r < 0.3 or r >= 0.65) else None}


def _names_of(mks):
    """Variable and dimension names that the fields built so far ask for."""
    vs, ds = [], []
    for mk in mks:
        if mk.get("ncvar"):
            vs.append(mk["ncvar"])
        for a in mk["axes"]:
            if a.get("ncdim"):
                ds.append(a["ncdim"])
            for k in ("dc", "aux"):
                if a.get(k) and a[k].get("ncvar"):
                    vs.append(a[k]["ncvar"])
    return vs, ds


def _derive_axis(rng, t, nc4, vs, ds, i):
    """An axis of an appended field from the axis `t` of an earlier one: every attribute is kept or changed
    independently (netCDF dimension name: the same / the name of a variable / `<name>_1` / the name of another
    dimension / another / none; size; unlimited; dimension coordinate present, equal or not; auxiliary
    coordinate present, equal or not)."""
    a = json.loads(json.dumps(t))
    r = rng.random()
    if r < 0.55:
        pass
    elif r < 0.65 and vs:
        a["ncdim"] = rng.choice(vs)
    elif r < 0.75 and t.get("ncdim"):
        a["ncdim"] = t["ncdim"] + "_1"
    elif r < 0.85 and ds:
        a["ncdim"] = rng.choice(ds)
    elif r < 0.93:
        a["ncdim"] = rng.choice(DIM_NAMES + ["z"])
    else:
        a["ncdim"] = None
    if rng.random() < 0.5:
        a["n"] = rng.choice([x for x in (2, 3, 4, 5, 6) if x != t["n"]])
    if nc4 and rng.random() < 0.25:
        a["unlim"] = not t.get("unlim")
    r = rng.random()
    if r < 0.2:  # flip the presence of the dimension coordinate
        a["dc"] = None if t.get("dc") else {"v": rng.randrange(3), "k": i, "ncvar": rng.choice([None, a.get("ncdim"), "time"]), "bounds": rng.random() < 0.3}
    elif t.get("dc") and r < 0.5:  # other values / name / bounds
        a["dc"] = dict(t["dc"], **rng.choice([{"v": (t["dc"]["v"] + 1) % 4}, {"ncvar": rng.choice([None, "time", a.get("ncdim")])},
                                                {"bounds": rng.choice([x for x in (False, True, 4) if x != t["dc"].get("bounds")])}]))
    r = rng.random()
    if r < 0.2:
        a["aux"] = None if t.get("aux") else {"v": rng.randrange(3), "ncvar": rng.choice([None, "label"])}
    elif t.get("aux") and r < 0.45:
        a["aux"] = dict(t["aux"], v=(t["aux"]["v"] + 1) % 4)
        if a["aux"].get("str") and rng.random() < 0.4:
            a["aux"]["str"] = 12 - a["aux"]["str"]
    return a


def dimension_scenario(rng, tier="quick"):
    """Scenario of the dimension family (JSON-able spec)."""
    nc4 = rng.random() < 0.8
    fmt = "NETCDF4" if nc4 else rng.choice(FMTS[1:])
    mks = []
    s0 = []
    for _ in range(rng.choice([1, 1, 2])):
        axes = [_dim_axis(rng, nc4, i) for i in range(rng.choice([1, 1, 2]))]
        if not mks and rng.random() < 0.5:
            # a record axis: unlimited, named, without dimension coordinate (what observation files look like)
            axes[0].update(unlim=nc4, ncdim=axes[0].get("ncdim") or "obs", dc=None)
        mk = {"ncvar": rng.choice(VAR_NAMES + [None]), "sn": rng.choice(["air_temperature", "specific_humidity"]),
              "seed": rng.randrange(50), "axes": axes}
        x = _dim_extra(rng, [])
        if x:
            mk["extra"] = x
        if axes[0].get("dc") and not axes[0]["dc"].get("anon") and rng.random() < 0.2:
            mk["param"] = {"v": rng.randrange(2), "ptop": rng.choice([None, 10, 10, 20])}
        mks.append(mk)
        s0.append({"mk": mk})
    batches = []
    for _ in range(rng.choice([1, 2, 2, 3])):
        batch = []
        for _ in range(rng.choice([1, 1, 2])):
            t = rng.choice(mks)
            vs, ds = _names_of(mks)
            axes = [_derive_axis(rng, ta, nc4, vs, ds, i) for i, ta in enumerate(t["axes"])]
            r = rng.random()
            if r < 0.12 and len(axes) > 1:
                del axes[rng.randrange(len(axes))]
            elif r < 0.24 and len(axes) < 3:
                axes.insert(rng.randrange(len(axes) + 1), _dim_axis(rng, nc4, len(axes)))
            elif r < 0.3 and len(axes) > 1:
                axes.reverse()
            mk = {"ncvar": t["ncvar"] if rng.random() < 0.6 else rng.choice(VAR_NAMES + ds[:1] + [None]),
                  "sn": t["sn"] if rng.random() < 0.7 else "eastward_wind", "seed": rng.randrange(50, 100), "axes": axes}
            x = t.get("extra") if rng.random() < 0.6 else _dim_extra(rng, ds)
            if x:
                mk["extra"] = dict(x, v=(x.get("v", 0) + 1) % 3) if rng.random() < 0.3 else x
            if axes and axes[0].get("dc") and not axes[0]["dc"].get("anon"):
                if t.get("param") and rng.random() < 0.8:
                    mk["param"] = dict(t["param"], **rng.choice([{}, {}, {"v": 1 - t["param"].get("v", 0)}, {"ptop": rng.choice([None, 10, 20])}]))
                elif rng.random() < 0.08:
                    mk["param"] = {"v": rng.randrange(2), "ptop": rng.choice([None, 10, 20])}
            mks.append(mk)
            batch.append({"mk": mk, "mods": []})
        batches.append(batch)
    spec = {"fmt": fmt, "s0": s0, "batches": batches, "family": "dim"}
    if rng.random() < 0.1:
        spec["mode"] = "r+"
    return spec
