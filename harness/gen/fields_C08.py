"""C08 field specifications: JSON-able recipes that rebuild the same cfdm fields on replay.

A spec is one of
  {"k": "rand", "seed": S, "allow": [...], "domain": bool, "mut": [...]}   shared generator, then mutations
  {"k": "ex", "i": n, "compress": None|"contiguous"|"indexed"|"indexed_contiguous", "mut": [...]}
  {"k": "simple", "shape": [...], "dtype": "f8", "ncvar": ..., ...}          see `simple_field`
  {"k": "gathered", "seed": S}      compression by gathering, built by hand (Field.compress does not offer it)
  {"k": "dsg3", "seed": S}          a 3-d field compressed as an indexed contiguous ragged array

Mutations (applied in order; indices are taken modulo the number of targets, so every mutation
is always applicable):
  ["ncvar", i, name]   nc_set_variable(name) on the i-th named thing (field, constructs in sorted
                        key order, their bounds)
  ["std", i, name]     standard_name = name and no netCDF variable name
  ["ncdim", i, name]   nc_set_dimension(name) on the i-th domain axis
  ["bdim", i, name]    nc_set_dimension(name) on the i-th bounds
  ["unlim", i]         nc_set_unlimited(True) on the i-th domain axis
  ["ext", i, name]     the i-th cell measure becomes external (named `name`, not written to the file)
  ["ftparam", name, v] the first parametric vertical coordinate reference gets the scalar parameter `name` = v
                        (written as a scalar variable named in formula_terms)
"""
import random

import numpy as np

from . import fields as G

CLASH_NAMES = ["lat", "lat", "time", "a b", "a_b", "x", "dim", "dim_1", "bounds2", "bounds", "strlen5", "lat bnds",
               "lat_bnds", "t 1", "t_1", "q", "q_1", "data", "auxiliary", "x y z", "air_temperature"]
DIM_NAMES = ["x", "y", "dim", "lat", "bounds2", "a b", "t", "strlen5"]


def cfdm():
    return G.cfdm()


def named_things(f):
    out = [("field", f)]
    cons = f.constructs.filter_by_type("dimension_coordinate", "auxiliary_coordinate", "cell_measure", "field_ancillary",
                                       "domain_ancillary", todict=True)
    for k in sorted(cons):
        out.append((k, cons[k]))
    return out


def bounds_things(f):
    out = []
    cons = f.constructs.filter_by_type("dimension_coordinate", "auxiliary_coordinate", "domain_ancillary", todict=True)
    for k in sorted(cons):
        b = cons[k].get_bounds(None) if hasattr(cons[k], "get_bounds") else None
        if b is not None:
            out.append((k, b))
    return out


def apply_mutations(f, muts):
    for m in muts or []:
        op = m[0]
        if op in ("ncvar", "std"):
            ts = named_things(f) + [("b:" + k, b) for k, b in bounds_things(f)]
            if op == "std":
                # not the bounds, and not the owner of formula terms (its standard name is what ties the
                # coordinate reference to it: renaming it would make the field inconsistent)
                owners = set()
                for r in f.coordinate_references(todict=True).values():
                    if r.coordinate_conversion.get_parameter("standard_name", None) is not None:
                        owners |= set(r.coordinates())
                ts = [t for t in ts if not t[0].startswith("b:") and t[0] not in owners]
            _, x = ts[m[1] % len(ts)]
            if op == "ncvar":
                x.nc_set_variable(m[2])
            else:
                x.set_property("standard_name", m[2])
                x.nc_del_variable(None)
        elif op in ("ncdim", "unlim"):
            axes = f.domain_axes(todict=True)
            if not axes:
                continue
            k = sorted(axes)[m[1] % len(axes)]
            if op == "ncdim":
                axes[k].nc_set_dimension(m[2])
            else:
                axes[k].nc_set_unlimited(True)
        elif op == "ext":
            ms = f.cell_measures(todict=True)
            if ms:
                m_ = ms[sorted(ms)[m[1] % len(ms)]]
                m_.nc_set_external(True)
                m_.nc_set_variable(m[2])
        elif op == "bdim":
            bs = bounds_things(f)
            if bs:
                bs[m[1] % len(bs)][1].nc_set_dimension(m[2])
        elif op == "ftparam":
            for r in f.coordinate_references(todict=True).values():
                cc = r.coordinate_conversion
                if cc.get_parameter("standard_name", None) is not None:
                    cc.set_parameter(m[1], cfdm().Data(float(m[2]), "Pa"))
                    break
        else:
            raise ValueError(op)
    return f


def simple_field(spec):
    """A small field whose every feature is named in the spec (storage-option and global-attribute streams)."""
    C = cfdm()
    f = C.Field()
    for k, v in (spec.get("props") or {}).items():
        f.set_property(k, v)
    if spec.get("ncvar"):
        f.nc_set_variable(spec["ncvar"])
    shape = spec.get("shape", [3])
    axes = []
    for i, n in enumerate(shape):
        da = C.DomainAxis(n)
        if i in (spec.get("unlimited") or []):
            da.nc_set_unlimited(True)
        if spec.get("ncdims"):
            da.nc_set_dimension(spec["ncdims"][i])
        axes.append(f.set_construct(da))
    dtype = spec.get("dtype", "f8")
    a = (np.arange(int(np.prod(shape)) if shape else 1) % 50).reshape(shape).astype(dtype)
    if spec.get("masked") and a.size > 1:
        m = np.zeros(a.shape, dtype=bool)
        m.flat[1] = True
        a = np.ma.array(a, mask=m)
    d = C.Data(a)
    if spec.get("chunks") is not None:
        d.nc_set_hdf5_chunksizes(spec["chunks"])
    f.set_data(d, axes=axes)
    if spec.get("fill") is not None:
        f.set_property("_FillValue", spec["fill"])
    if spec.get("missing") is not None:
        f.set_property("missing_value", spec["missing"])
    if spec.get("dimcoord") and shape:
        c = C.DimensionCoordinate(properties={"standard_name": "time", "units": "days since 2000-01-01"})
        c.set_data(C.Data(np.arange(shape[0], dtype=spec.get("coord_dtype", "f8"))))
        if spec.get("bounds"):
            b = np.empty((shape[0], 2))
            b[:, 0] = np.arange(shape[0]) - 0.5
            b[:, 1] = np.arange(shape[0]) + 0.5
            c.set_bounds(C.Bounds(data=C.Data(b)))
        f.set_construct(c, axes=[axes[0]])
    if spec.get("straux") and shape:
        c = C.AuxiliaryCoordinate(properties={"long_name": "name"})
        c.set_data(C.Data(np.array([("n%d" % i) * (1 + i % 3) for i in range(shape[0])])))
        f.set_construct(c, axes=[axes[0]])
    if spec.get("strscalar"):
        c = C.AuxiliaryCoordinate(properties={"long_name": "station"})
        c.set_data(C.Data(np.array(["alpha"])))
        ax = f.set_construct(C.DomainAxis(1))
        f.set_construct(c, axes=[ax])
    if spec.get("gridmapping") and len(shape) >= 2:
        ks = []
        for i, (sn, u) in enumerate([("grid_latitude", "degrees"), ("grid_longitude", "degrees")]):
            c = C.DimensionCoordinate(properties={"standard_name": sn, "units": u})
            c.set_data(C.Data(np.arange(shape[-2 + i], dtype="f8")))
            ks.append(f.set_construct(c, axes=[axes[-2 + i]]))
        f.set_construct(C.CoordinateReference(
            coordinates=ks,
            coordinate_conversion=C.CoordinateConversion(parameters={
                "grid_mapping_name": "rotated_latitude_longitude", "grid_north_pole_latitude": 38.0,
                "grid_north_pole_longitude": 190.0})))
    return f


def _dimcoords(f, axes, sizes, names):
    C = cfdm()
    for a, n, (sn, u) in zip(axes, sizes, names):
        c = C.DimensionCoordinate(properties={"standard_name": sn, "units": u})
        c.set_data(C.Data(np.arange(n, dtype="f8") * 1.5 + 1.0))
        f.set_construct(c, axes=[a])


def gathered_field(rng):
    """A field whose data are compressed by gathering over its last two (of two or three) axes."""
    C = cfdm()
    lead = rng.choice([[], [rng.randint(1, 3)]])
    ny, nx = rng.randint(2, 4), rng.randint(2, 3)
    shape = lead + [ny, nx]
    npts = rng.randint(1, ny * nx)
    lst = sorted(rng.sample(range(ny * nx), npts))
    f = C.Field(properties={"standard_name": "air_temperature", "units": "K"})
    axes = [f.set_construct(C.DomainAxis(n)) for n in shape]
    comp = np.arange(int(np.prod(lead + [npts])), dtype="f8").reshape(lead + [npts]) + 0.5
    lv = C.List(data=C.Data(np.array(lst)))
    if rng.random() < 0.5:
        lv.nc_set_variable(rng.choice(["landpoint", "list", "lat"]))
    ga = C.GatheredArray(compressed_array=C.Data(comp), shape=tuple(shape), compressed_dimensions={len(lead): (len(lead), len(lead) + 1)},
                         list_variable=lv)
    f.set_data(C.Data(ga), axes=axes)
    names = ([("time", "days since 2000-01-01")] if lead else []) + [("latitude", "degrees_north"), ("longitude", "degrees_east")]
    _dimcoords(f, axes, shape, names)
    if rng.random() < 0.6:
        f.set_construct(C.CellMethod(axes=[rng.choice(axes)], method="mean"))
    return f


def dsg3_field(rng):
    """station x profile x level, stored as an indexed contiguous ragged array."""
    C = cfdm()
    ns, npf, nz = rng.randint(1, 3), rng.randint(1, 3), rng.randint(2, 4)
    arr = np.ma.masked_all((ns, npf, nz))
    k = 0.0
    for i in range(ns):
        for j in range(rng.randint(1, npf)):
            n = rng.randint(1, nz)
            arr[i, j, :n] = np.arange(n) + k
            k += 10
    f = C.Field(properties={"standard_name": "air_temperature", "units": "K", "featureType": "timeSeriesProfile"})
    axes = [f.set_construct(C.DomainAxis(n)) for n in (ns, npf, nz)]
    f.set_data(C.Data(arr), axes=axes)
    c = C.AuxiliaryCoordinate(properties={"long_name": "station height", "units": "m"})
    c.set_data(C.Data(np.arange(ns, dtype="f8") + 100))
    f.set_construct(c, axes=[axes[0]])
    return f.compress("indexed_contiguous")


def build(spec):
    C = cfdm()
    k = spec["k"]
    if k == "rand":
        kw = {}
        if spec.get("allow") is not None:
            kw["allow"] = tuple(spec["allow"])
        f = G.random_field(random.Random(spec["seed"]), domain=bool(spec.get("domain")), **kw)
    elif k == "ex":
        f = C.example_field(spec["i"])
        if spec.get("compress"):
            f = f.compress(spec["compress"])
    elif k == "simple":
        f = simple_field(spec)
    elif k == "gathered":
        f = gathered_field(random.Random(spec["seed"]))
    elif k == "dsg3":
        f = dsg3_field(random.Random(spec["seed"]))
    else:
        raise ValueError(k)
    return apply_mutations(f, spec.get("mut"))


def gen_mutations(rng, heavy=True):
    muts = []
    n = rng.randint(1, 5) if heavy else rng.randint(0, 2)
    for _ in range(n):
        r = rng.random()
        if r < 0.5:
            muts.append(["ncvar", rng.randint(0, 30), rng.choice(CLASH_NAMES)])
        elif r < 0.65:
            muts.append(["std", rng.randint(0, 30), rng.choice(["latitude", "time", "air_temperature", "altitude"])])
        elif r < 0.85:
            muts.append(["ncdim", rng.randint(0, 10), rng.choice(DIM_NAMES)])
        else:
            muts.append(["bdim", rng.randint(0, 10), rng.choice(["bounds2", "bnds", "nv", "x", "lat"])])
    return muts
