"""C09 — families of fields derived from a common ancestor by controlled perturbation.

A *recipe* is JSON-able: ``{"base": <base descriptor>, "sibs": [[op, ...], ...]}``; ``build(recipe)``
returns the list of fields/domains (one per sibling, each made from a fresh copy of the ancestor by applying
its op list).  Every op is a list ``[name, arg, ...]``; targets are chosen by an index into the *sorted* key
list of a construct type (taken modulo its length), so that a recipe stays meaningful when it is shrunk.

Base descriptors
  {"kind": "random", "seed": s, "allow": [...], "max_axes": n}   harness/gen/fields.py random_field
  {"kind": "example", "n": i}                                   cfdm.example_field(i)
  {"kind": "hand", "name": ...}                                 small hand-built ancestors (below)
  {"kind": "seedfile", "name": "_make_…", "index": i}            field i of a file of cfdm/test/create_test_files.py
"""
import ast
import os
import random
import tempfile

import numpy as np

from . import fields as F

_tmp = None


def cfdm():
    return F.cfdm()


def tmpdir():
    global _tmp
    if _tmp is None or not os.path.isdir(_tmp):
        import atexit
        import shutil
        _tmp = tempfile.mkdtemp(prefix="c09gen")
        atexit.register(shutil.rmtree, _tmp, ignore_errors=True)
    return _tmp


# ------------------------------------------------------------------------------------------------ ancestors
def hand_base(name):
    C = cfdm()
    if name in ("xy", "xy_scalar", "xy_nodim", "xy_blank"):
        f = C.Field(properties={"standard_name": "air_temperature", "units": "K"})
        ay = f.set_construct(C.DomainAxis(3))
        ax = f.set_construct(C.DomainAxis(4))
        f.set_data(C.Data(np.arange(12.0).reshape(3, 4)), axes=[ay, ax])
        y = C.DimensionCoordinate(properties={"standard_name": "latitude", "units": "degrees_north"},
                                  data=C.Data(np.array([10.0, 20.0, 30.0])))
        y.set_bounds(C.Bounds(data=C.Data(np.array([[5.0, 15.0], [15.0, 25.0], [25.0, 35.0]]))))
        x = C.DimensionCoordinate(properties={"standard_name": "longitude", "units": "degrees_east"},
                                  data=C.Data(np.array([0.0, 90.0, 180.0, 270.0])))
        if name != "xy_nodim":
            f.set_construct(y, axes=[ay])
        f.set_construct(x, axes=[ax])
        a = C.AuxiliaryCoordinate(properties={"long_name": "region", "units": "1"},
                                  data=C.Data(np.arange(12.0).reshape(3, 4) * 2))
        f.set_construct(a, axes=[ay, ax])
        a1 = C.AuxiliaryCoordinate(properties={"long_name": "row label"}, data=C.Data(np.array(["a", "bb", "ccc"])))
        f.set_construct(a1, axes=[ay])
        m = C.CellMeasure(measure="area", properties={"units": "km2"}, data=C.Data(np.arange(12.0).reshape(4, 3) + 1))
        f.set_construct(m, axes=[ax, ay])
        if name == "xy_blank":
            fa = C.FieldAncillary(properties={"standard_name": "air_temperature standard_error", "units": "K"},
                                  data=C.Data(np.arange(12.0).reshape(3, 4) / 10))
            f.set_construct(fa, axes=[ay, ax])
        f.set_construct(C.CellMethod(axes=[ay], method="mean"))
        if name == "xy_scalar":
            at = f.set_construct(C.DomainAxis(1))
            t = C.DimensionCoordinate(properties={"standard_name": "time", "units": "days since 2000-01-01"},
                                      data=C.Data(np.array([15.0])))
            f.set_construct(t, axes=[at])
            a_s = f.set_construct(C.DomainAxis(1))
            s = C.AuxiliaryCoordinate(properties={"long_name": "station"}, data=C.Data(np.array(["alpha"])))
            f.set_construct(s, axes=[a_s])
            f.set_construct(C.CellMethod(axes=[at], method="maximum"))
        return f
    if name in ("txy", "txy_aux", "ttxy"):
        # size-1 axes created FIRST (identifiers domainaxis0[, 1]) and not spanned by the data, so that they are
        # written as scalar coordinate variables and come back from cfdm.read under OTHER identifiers (the reader
        # numbers the data dimensions first); a cell method over each of them
        f = C.Field(properties={"standard_name": "air_temperature", "units": "K"})
        at = f.set_construct(C.DomainAxis(1))
        ah = f.set_construct(C.DomainAxis(1)) if name == "ttxy" else None
        ay = f.set_construct(C.DomainAxis(3))
        ax = f.set_construct(C.DomainAxis(4))
        f.set_data(C.Data(np.arange(12.0).reshape(3, 4)), axes=[ay, ax])
        tprops = {"standard_name": "time", "units": "days since 2000-01-01"}
        if name == "txy_aux":
            f.set_construct(C.AuxiliaryCoordinate(properties=tprops, data=C.Data(np.array([15.0]))), axes=[at])
        else:
            t = C.DimensionCoordinate(properties=tprops, data=C.Data(np.array([15.0])))
            t.set_bounds(C.Bounds(data=C.Data(np.array([[0.0, 30.0]]))))
            f.set_construct(t, axes=[at])
        if ah is not None:
            f.set_construct(C.DimensionCoordinate(properties={"standard_name": "height", "units": "m"},
                                                  data=C.Data(np.array([2.0]))), axes=[ah])
        f.set_construct(C.DimensionCoordinate(properties={"standard_name": "latitude", "units": "degrees_north"},
                                              data=C.Data(np.array([10.0, 20.0, 30.0]))), axes=[ay])
        f.set_construct(C.DimensionCoordinate(properties={"standard_name": "longitude", "units": "degrees_east"},
                                              data=C.Data(np.array([0.0, 90.0, 180.0, 270.0]))), axes=[ax])
        f.set_construct(C.CellMethod(axes=[at], method="maximum"))
        if ah is not None:
            f.set_construct(C.CellMethod(axes=[ah], method="point"))
        f.set_construct(C.CellMethod(axes=[ay], method="mean"))
        return f
    if name in ("zyx", "zyx_nodatum", "zyx_gmdatum"):
        # a parametric vertical coordinate + a grid mapping; datums as named
        f = C.Field(properties={"standard_name": "air_temperature", "units": "K"})
        az = f.set_construct(C.DomainAxis(2))
        ay = f.set_construct(C.DomainAxis(3))
        ax = f.set_construct(C.DomainAxis(2))
        f.set_data(C.Data(np.arange(12.0).reshape(2, 3, 2)), axes=[az, ay, ax])
        z = C.DimensionCoordinate(properties={"standard_name": "atmosphere_hybrid_height_coordinate", "units": "m",
                                              "computed_standard_name": "altitude"},
                                  data=C.Data(np.array([20.0, 60.0])))
        z.set_bounds(C.Bounds(data=C.Data(np.array([[0.0, 40.0], [40.0, 80.0]]))))
        kz = f.set_construct(z, axes=[az])
        y = C.DimensionCoordinate(properties={"standard_name": "grid_latitude", "units": "degrees"},
                                  data=C.Data(np.array([-1.0, 0.0, 1.0])))
        ky = f.set_construct(y, axes=[ay])
        x = C.DimensionCoordinate(properties={"standard_name": "grid_longitude", "units": "degrees"},
                                  data=C.Data(np.array([5.0, 6.0])))
        kx = f.set_construct(x, axes=[ax])
        da = C.DomainAncillary(properties={"units": "m"}, data=C.Data(np.array([20.0, 60.0])))
        da.set_bounds(C.Bounds(data=C.Data(np.array([[0.0, 40.0], [40.0, 80.0]]))))
        ka = f.set_construct(da, axes=[az])
        db = C.DomainAncillary(data=C.Data(np.array([0.9, 0.5])))
        kb = f.set_construct(db, axes=[az])
        do = C.DomainAncillary(properties={"standard_name": "surface_altitude", "units": "m"},
                               data=C.Data(np.arange(6.0).reshape(3, 2) * 10))
        ko = f.set_construct(do, axes=[ay, ax])
        datum = {"earth_radius": 6371007.0}
        vref = C.CoordinateReference(
            coordinates=[kz],
            coordinate_conversion=C.CoordinateConversion(
                parameters={"standard_name": "atmosphere_hybrid_height_coordinate", "computed_standard_name": "altitude"},
                domain_ancillaries={"a": ka, "b": kb, "orog": ko}),
            datum=C.Datum(parameters=datum) if name == "zyx" else None)
        f.set_construct(vref)
        gm = C.CoordinateReference(
            coordinates=[ky, kx],
            coordinate_conversion=C.CoordinateConversion(parameters={
                "grid_mapping_name": "rotated_latitude_longitude", "grid_north_pole_latitude": 38.0,
                "grid_north_pole_longitude": 190.0}),
            datum=C.Datum(parameters=datum) if name in ("zyx", "zyx_gmdatum") else None)
        f.set_construct(gm)
        return f
    if name == "square2d":
        # a square grid without dimension coordinates: two size-3 axes spanned by symmetric 2-d auxiliary
        # coordinates and a 2-d cell measure (dimension reuse must look at the position of the axis)
        f = C.Field(properties={"standard_name": "sea_surface_temperature", "units": "K"})
        ay = f.set_construct(C.DomainAxis(3))
        ax = f.set_construct(C.DomainAxis(3))
        f.set_data(C.Data(np.arange(9.0).reshape(3, 3)), axes=[ay, ax])
        i, j = np.meshgrid(np.arange(3.0), np.arange(3.0), indexing="ij")
        lat = C.AuxiliaryCoordinate(properties={"standard_name": "latitude", "units": "degrees_north"}, data=C.Data(10 * (i + j)))
        lon = C.AuxiliaryCoordinate(properties={"standard_name": "longitude", "units": "degrees_east"}, data=C.Data(i * j + 1.0))
        f.set_construct(lat, axes=[ay, ax])
        f.set_construct(lon, axes=[ay, ax])
        m = C.CellMeasure(measure="area", properties={"units": "km2"}, data=C.Data(np.arange(9.0).reshape(3, 3) + 1))
        f.set_construct(m, axes=[ay, ax])
        return f
    if name in ("line", "square"):
        # `square`: two size-3 axes without dimension coordinates, each with the auxiliary coordinate that
        # `line` has on its only axis
        f = C.Field(properties={"standard_name": "air_temperature" if name == "line" else "covariance", "units": "K"})
        n = 1 if name == "line" else 2
        axs = [f.set_construct(C.DomainAxis(3)) for _ in range(n)]
        f.set_data(C.Data(np.arange(3.0 ** n).reshape((3,) * n)), axes=axs)
        for a in axs:
            c = C.AuxiliaryCoordinate(properties={"long_name": "station id", "units": "1"}, data=C.Data(np.array([7.0, 8.0, 9.0])))
            f.set_construct(c, axes=[a])
        return f
    if name in ("dsg_contig", "dsg_ic", "dsg_ic_alt", "dsg_ic_alt2", "dsg_ic_alt3"):
        # discrete sampling geometries built through Field.compress
        if name == "dsg_contig":
            f = C.Field(properties={"standard_name": "air_temperature", "units": "K", "featureType": "timeSeries"})
            a0 = f.set_construct(C.DomainAxis(3))
            a1 = f.set_construct(C.DomainAxis(4))
            arr = np.ma.masked_all((3, 4))
            arr[0, :2] = [1, 2]
            arr[1, :4] = [3, 4, 5, 6]
            arr[2, :1] = [7]
            f.set_data(C.Data(arr), axes=[a0, a1])
            c = C.AuxiliaryCoordinate(properties={"long_name": "station"}, data=C.Data(np.array(["a", "b", "c"])))
            f.set_construct(c, axes=[a0])
            f.compress("contiguous", inplace=True)
            return f
        f = C.Field(properties={"standard_name": "air_temperature" if name == "dsg_ic" else "air_pressure", "units": "K",
                                "featureType": "timeSeriesProfile"})
        if name == "dsg_ic_alt2":  # other counts, equal index variable
            arr = np.ma.masked_all((1, 2, 3))
            arr[0, 0, :1] = [1]
            arr[0, 1, :2] = [3, 4]
        elif name == "dsg_ic_alt3":
            arr = np.ma.masked_all((1, 2, 3))
            arr[0, 0, :2] = [1, 2]
            arr[0, 1, :3] = [3, 4, 5]
        elif name == "dsg_ic":
            arr = np.ma.masked_all((3, 2, 3))
            arr[0, 0, :2] = [1, 2]
            arr[0, 1, :3] = [3, 4, 5]
            arr[1, 0, :1] = [6]
            arr[1, 1, :3] = [7, 8, 9]
            arr[2, 0, :3] = [9, 10, 11]
            arr[2, 1, :1] = [12]
        else:  # another instance dimension size, other counts and index
            arr = np.ma.masked_all((2, 2, 3))
            arr[0, 0, :3] = [1, 2, 3]
            arr[0, 1, :1] = [4]
            arr[1, 0, :3] = [5, 6, 7]
            arr[1, 1, :3] = [8, 9, 10]
        axs = [f.set_construct(C.DomainAxis(n)) for n in arr.shape]
        f.set_data(C.Data(arr), axes=axs)
        f.compress("indexed_contiguous", inplace=True)
        return f
    raise ValueError(name)


HAND_DSG = ["dsg_contig", "dsg_ic"]
HAND_SQUARE = ["line", "square"]
HAND = ["xy", "xy_scalar", "xy_nodim", "xy_blank", "zyx", "zyx_nodatum", "zyx_gmdatum", "txy", "ttxy"]
HAND_SCALAR_FIRST = ["txy", "txy_aux", "ttxy"]
# properties that may become netCDF global attributes (NetCDFWrite.cf_description_of_file_contents_attributes) + free names
FILE_PROPS = ["comment", "history", "institution", "references", "source", "title", "featureType"]
FREE_PROPS = ["project", "experiment_id", "realization"]

_seed_funcs = None
SEEDFILES = ["_make_contiguous_file", "_make_indexed_file", "_make_indexed_contiguous_file", "_make_gathered_file",
             "_make_geometry_1_file", "_make_geometry_2_file", "_make_geometry_3_file", "_make_geometry_4_file",
             "_make_interior_ring_file", "_make_interior_ring_file_2"]
_seed_cache = {}


def seed_funcs(repo):
    global _seed_funcs
    if _seed_funcs is None:
        import netCDF4
        src = open(os.path.join(repo, "cfdm", "test", "create_test_files.py")).read()
        tree = ast.parse(src)
        ns = dict(netCDF4=netCDF4, np=np, VN="1.11", os=os)
        _seed_funcs = {}
        for node in tree.body:
            if isinstance(node, ast.FunctionDef) and node.name in SEEDFILES:
                try:
                    exec(compile(ast.Module(body=[node], type_ignores=[]), "create_test_files.py", "exec"), ns)
                    _seed_funcs[node.name] = ns[node.name]
                except Exception:
                    pass
    return _seed_funcs


def seed_fields(name):
    """Fields of one test-suite file, read once (data loaded into memory)."""
    if name not in _seed_cache:
        from .. import fw
        fn = seed_funcs(str(fw.REPO)).get(name)
        out = []
        if fn is not None:
            p = os.path.join(tmpdir(), name + ".nc")
            try:
                fn(p)
                out = cfdm().read(p)
                for f in out:
                    f.data.to_memory(inplace=True)
                    for c in f.constructs.filter_by_data(todict=True).values():
                        c.to_memory(inplace=True)
            except Exception:
                out = []
        _seed_cache[name] = out
    return _seed_cache[name]


def make_base(b):
    kind = b["kind"]
    if kind == "random":
        rng = random.Random(b["seed"])
        kw = {}
        if "allow" in b:
            kw["allow"] = tuple(b["allow"])
        return F.random_field(rng, max_axes=b.get("max_axes", 3), **kw)
    if kind == "example":
        return cfdm().example_field(b["n"])
    if kind == "hand":
        return hand_base(b["name"])
    if kind == "seedfile":
        fs = seed_fields(b["name"])
        if not fs:
            return None
        return fs[b.get("index", 0) % len(fs)].copy()
    raise ValueError(kind)


# ------------------------------------------------------------------------------------------------ perturbations
TYPE = {"dim": "dimension_coordinate", "aux": "auxiliary_coordinate", "dan": "domain_ancillary", "msr": "cell_measure",
        "fan": "field_ancillary"}


def _pick(f, t, i):
    d = f.constructs.filter_by_type(TYPE[t], todict=True)
    if not d:
        return None, None
    ks = sorted(d)
    k = ks[i % len(ks)]
    return k, d[k]


def _refs(f, which):
    out = []
    for k, r in sorted(f.coordinate_references(todict=True).items()):
        p = r.coordinate_conversion.parameters()
        if which == "gm" and p.get("grid_mapping_name"):
            out.append((k, r))
        if which == "ft" and p.get("standard_name"):
            out.append((k, r))
    return out


def _shift_data(c, delta):
    C = cfdm()
    d = c.get_data(None)
    if d is None:
        return False
    a = d.array
    if a.dtype.kind in "fiu":
        new = C.Data((a + np.asarray(delta).astype(a.dtype)), units=d.get_units(None), calendar=d.get_calendar(None))
    else:
        new = C.Data(np.array([str(s) + "x" for s in np.ma.filled(a, "").flatten()]).reshape(a.shape))
    fv = d.get_fill_value(None)
    if fv is not None:
        new.set_fill_value(fv)
    c.set_data(new, copy=False)
    return True


def _has_scalar_string(f):
    for c in f.auxiliary_coordinates(todict=True).values():
        if c.has_data() and c.data.dtype.kind in "SUO" and c.size == 1:
            return True
    return False


def read_kwargs(fs):
    """Keyword arguments for cfdm.read of a file written from `fs`.

    cfdm.read re-opens the file it is reading once for every scalar coordinate variable, and fetching data later
    re-opens it again; with the netCDF4 backend a few such re-opens that touch string variables crash the
    interpreter here (netCDF-C/HDF5, not cfdm logic), so the harness reads through the h5netcdf backend.
    """
    return {"netcdf_backend": "h5netcdf"}


def apply_op(f, op):
    """Apply one perturbation in place (on a field; a domain is derived last).  Returns the (possibly new) object."""
    C = cfdm()
    name = op[0]
    if name == "ncvar":  # the data variable's own netCDF name
        f.nc_set_variable(op[1])
    elif name == "stdname":
        f.set_property("standard_name", op[1])
    elif name == "long_name":
        f.set_property("long_name", op[1])
    elif name == "data":  # different data values
        _shift_data(f, op[1]) if f.has_data() else None
    elif name == "cvalue":  # nearly equal: the values of one construct (and its bounds) shifted
        k, c = _pick(f, op[1], op[2])
        if c is not None:
            _shift_data(c, op[3])
            b = c.get_bounds(None) if hasattr(c, "get_bounds") else None
            if b is not None and b.has_data():
                _shift_data(b, op[3])
    elif name == "cnear":  # nearly equal: values differ by a relative 1e-7 (more than rounding, less than "close")
        k, c = _pick(f, op[1], op[2])
        if c is not None and c.has_data() and c.data.dtype.kind == "f":
            d = c.data
            a = d.array
            if op[3] == "f4":  # computed in single precision and promoted back
                new = a.astype("f4").astype(a.dtype) if a.dtype.itemsize > 4 else a * (1 + 1e-6)
                if np.ma.allequal(new, a):
                    new = a * (1 + 1e-7) + 1e-9
            else:
                new = a * (1 + 1e-7) + 1e-9
            nd = C.Data(new.astype(a.dtype), units=d.get_units(None), calendar=d.get_calendar(None))
            if d.get_fill_value(None) is not None:
                nd.set_fill_value(d.get_fill_value(None))
            c.set_data(nd, copy=False)
    elif name == "auxswap":  # an N-d construct re-inserted with its axes (and array) reversed
        k, c = _pick(f, op[1], op[2])
        if c is not None and c.has_data() and c.ndim == 2 and (not hasattr(c, "get_bounds") or c.get_bounds(None) is None):
            axes = f.constructs.data_axes()[k]
            c2 = c.copy()
            d = c.data
            c2.set_data(C.Data(d.array.T.copy(), units=d.get_units(None)), copy=False)
            used = any(k in r.coordinates() for r in f.coordinate_references(todict=True).values())
            if not used:
                f.del_construct(k)
                f.set_construct(c2, axes=list(reversed(axes)), key=k)
    elif name == "cbounds":  # nearly equal: only the bounds differ (or appear / disappear)
        k, c = _pick(f, op[1], op[2])
        if c is not None and hasattr(c, "get_bounds") and c.has_data() and c.data.dtype.kind in "fiu":
            b = c.get_bounds(None)
            how = op[3]
            if how == "shift" and b is not None and b.has_data():
                _shift_data(b, 0.25)
            elif how == "del" and b is not None and not c.get_geometry(None):
                c.del_bounds()
            elif how == "add" and b is None and c.ndim >= 1:
                a = np.asarray(c.array, dtype="f8")
                bb = np.stack([a - 0.5, a + 0.5], axis=-1)
                c.set_bounds(C.Bounds(data=C.Data(bb)))
    elif name == "cunits":
        k, c = _pick(f, op[1], op[2])
        if c is not None:
            c.set_property("units", op[3])
            if c.has_data():
                c.data.set_units(op[3])
    elif name == "cprop":
        k, c = _pick(f, op[1], op[2])
        if c is not None:
            c.set_property(op[3], op[4])
    elif name == "cdtype":
        k, c = _pick(f, op[1], op[2])
        if c is not None and c.has_data() and c.data.dtype.kind == "f":
            d = c.data
            c.set_data(C.Data(d.array.astype(op[3]), units=d.get_units(None), calendar=d.get_calendar(None)), copy=False)
    elif name == "cncvar":  # a netCDF variable name pinned on a construct
        k, c = _pick(f, op[1], op[2])
        if c is not None:
            c.nc_set_variable(op[3])
    elif name == "bncvar":
        k, c = _pick(f, op[1], op[2])
        if c is not None and hasattr(c, "get_bounds") and c.get_bounds(None) is not None:
            c.bounds.nc_set_variable(op[3])
    elif name == "bncdim":
        k, c = _pick(f, op[1], op[2])
        if c is not None and hasattr(c, "get_bounds") and c.get_bounds(None) is not None:
            c.bounds.nc_set_dimension(op[3])
    elif name == "ancdim":  # a netCDF dimension name pinned on a domain axis
        ks = sorted(f.domain_axes(todict=True))
        if ks:
            f.domain_axes(todict=True)[ks[op[1] % len(ks)]].nc_set_dimension(op[2])
    elif name == "unlimited":
        ks = sorted(f.domain_axes(todict=True))
        # cfdm.read re-opens the file it is reading for every scalar string coordinate; with an unlimited dimension
        # in the file the second re-open crashes the interpreter (netCDF-C), so the combination is not generated
        if ks and not _has_scalar_string(f):
            f.domain_axes(todict=True)[ks[op[1] % len(ks)]].nc_set_unlimited(True)
    elif name == "cdel":  # remove a construct (e.g. a dimension coordinate: the axis then has none)
        k, c = _pick(f, op[1], op[2])
        if c is not None:
            used = any(k in r.coordinates() or k in r.coordinate_conversion.domain_ancillaries().values()
                       for r in f.coordinate_references(todict=True).values())
            da = f.constructs.data_axes()
            fax = tuple(f.get_data_axes(default=())) if hasattr(f, "has_data") and f.has_data() else ()
            alone = all(a in fax or any(a in ax for kk, ax in da.items() if kk != k) for a in da.get(k, ()))
            if not used and alone:
                f.del_construct(k)
    elif name == "auxcopy":  # an auxiliary coordinate made from another construct's content (dan / dim), same axes
        k, c = _pick(f, op[1], op[2])
        if c is not None and c.has_data():
            a = C.AuxiliaryCoordinate(source=c, copy=True)
            a.nc_del_variable(None)
            f.set_construct(a, axes=f.constructs.data_axes()[k])
    elif name == "gmdatum":  # datum of a grid mapping: removed / changed / added
        rs = _refs(f, "gm")
        if rs:
            k, r = rs[op[1] % len(rs)]
            if op[2] == "del":
                r.set_datum(C.Datum())
            else:
                r.set_datum(C.Datum(parameters={"earth_radius": float(op[2])}))
    elif name == "gmparam":
        rs = _refs(f, "gm")
        if rs:
            k, r = rs[op[1] % len(rs)]
            r.coordinate_conversion.set_parameter("grid_north_pole_latitude", float(op[2]))
    elif name == "gmncvar":
        rs = _refs(f, "gm")
        if rs:
            rs[op[1] % len(rs)][1].nc_set_variable(op[2])
    elif name == "gmdel":
        rs = _refs(f, "gm")
        if rs:
            f.del_construct(rs[op[1] % len(rs)][0])
    elif name == "gmadd":  # a (second) grid mapping over the first two dimension coordinates
        ks = sorted(f.dimension_coordinates(todict=True))
        if len(ks) >= 2:
            r = C.CoordinateReference(
                coordinates=ks[:2],
                coordinate_conversion=C.CoordinateConversion(parameters={
                    "grid_mapping_name": op[1], "scale_factor_at_central_meridian": 0.9996}),
                datum=C.Datum(parameters={"earth_radius": float(op[2])}) if op[2] is not None else None)
            f.set_construct(r)
    elif name == "ftdatum":  # datum of a formula-terms reference
        rs = _refs(f, "ft")
        if rs:
            k, r = rs[op[1] % len(rs)]
            if op[2] == "del":
                r.set_datum(C.Datum())
            else:
                r.set_datum(C.Datum(parameters={"earth_radius": float(op[2])}))
    elif name == "ftdel":
        rs = _refs(f, "ft")
        if rs:
            f.del_construct(rs[op[1] % len(rs)][0])
    elif name == "cmadd":
        ks = sorted(f.domain_axes(todict=True))
        if ks and hasattr(f, "cell_methods"):
            f.set_construct(C.CellMethod(axes=[ks[op[1] % len(ks)]], method=op[2]))
    elif name == "cmdel":
        if hasattr(f, "cell_methods"):
            for k in list(f.cell_methods(todict=True)):
                f.del_construct(k)
    elif name == "subspace":  # a different size along one axis (different coordinates everywhere on it)
        if f.has_data() and f.ndim:
            i = op[1] % f.ndim
            n = f.shape[i]
            if n > 1:
                ix = [slice(None)] * f.ndim
                ix[i] = slice(0, n - 1) if op[2] == "head" else slice(1, n)
                try:
                    f = f[tuple(ix)]
                except Exception:
                    pass
    elif name == "transpose":
        if f.has_data() and f.ndim > 1:
            f = f.transpose()
    elif name == "fanvalue":
        k, c = _pick(f, "fan", op[1])
        if c is not None:
            _shift_data(c, 1)
    elif name == "domain":  # must be last
        f = f.domain.copy() if hasattr(f, "domain") else f
    elif name == "fieldfrom":  # a field whose properties and data are those of one of the constructs
        k, c = _pick(f, op[1], op[2])
        if c is not None and c.has_data():
            g = C.Field(properties=c.properties())
            if f.has_property("featureType"):
                # (a dataset's featureType is a global attribute: mixing fields with and without it is C08's business)
                g.set_property("featureType", f.get_property("featureType"))
            da = f.constructs.data_axes()
            new = {}
            for a in da[k]:
                new[a] = g.set_construct(f.domain_axes(todict=True)[a].copy())
            g.set_data(c.data.copy(), axes=[new[a] for a in da[k]])
            for kk, dc in f.dimension_coordinates(todict=True).items():
                if da[kk][0] in new:
                    g.set_construct(dc.copy(), axes=[new[da[kk][0]]])
            f = g
    elif name == "replace":  # another hand-built field altogether (a sibling that is not a perturbation)
        f = hand_base(op[1])
    elif name == "example":  # cfdm.example_field(n)
        f = C.example_field(op[1])
    elif name == "cnoname":  # a construct without standard_name and without netCDF variable name (default names)
        k, c = _pick(f, op[1], op[2])
        if c is not None:
            used = any(k in r.coordinates() for r in f.coordinate_references(todict=True).values())
            if not used:
                c.del_property("standard_name", None)
                c.nc_del_variable(None)
                if not c.has_property("long_name"):
                    c.set_property("long_name", "unnamed " + str(op[1]))
    elif name == "scalarise":  # first element along a data axis, the axis squeezed out of the data (-> scalar coordinate)
        if f.has_data() and f.ndim > 1:
            i = op[1] % f.ndim
            if f.shape[i] >= 1:
                ix = [slice(None)] * f.ndim
                ix[i] = slice(0, 1)
                try:
                    f = f[tuple(ix)].squeeze(i)
                except Exception:
                    pass
    elif name == "fprop":  # a property of the field itself (a candidate netCDF global attribute, or a free name)
        f.set_property(op[1], op[2])
    elif name == "fpropdel":
        f.del_property(op[1], None)
    elif name == "fglobal":  # nc_set_global_attribute: flag (value None) or forced value
        if op[2] is None:
            f.nc_set_global_attribute(op[1])
        else:
            f.nc_set_global_attribute(op[1], op[2])
    elif name == "noop":
        pass
    else:
        raise ValueError("unknown op " + str(name))
    return f


def build(recipe):
    """→ list of constructs (None when the ancestor cannot be produced here)."""
    base = make_base(recipe["base"])
    if base is None:
        return None
    out = []
    for ops in recipe["sibs"]:
        f = base.copy()
        for op in ops:
            f = apply_op(f, op)
        out.append(f)
    return out


# ------------------------------------------------------------------------------------------------ random recipes
NAMES = ["lat", "lon", "x", "y", "z", "t", "aux0", "bnds", "crs", "ta", "q"]
FNAMES = ["ta", "q", "ua", "pr", "tas"]


def random_ops(rng, family):
    """One sibling's op list for a family of perturbations."""
    t = rng.choice(["dim", "dim", "aux", "aux", "dan", "msr", "fan"])
    i = rng.randint(0, 3)
    ops = []
    if family == "equal":  # equal metadata, another data variable
        ops = [["data", rng.randint(1, 5)]]
    elif family == "dup":
        ops = []
    elif family == "value":
        ops = [["cvalue", t, i, rng.choice([1, 2, 0.5])]]
    elif family == "nearly":
        ops = [["cnear", rng.choice(["dim", "dim", "aux", "msr", "dan"]), i, rng.choice(["f4", "scale"])]]
    elif family == "bounds":
        ops = [["cbounds", rng.choice(["dim", "aux", "dan"]), i, rng.choice(["shift", "del", "add"])]]
    elif family == "units":
        ops = [["cunits", t, i, rng.choice(["km", "degrees", "s", "1"])]]
    elif family == "prop":
        ops = [["cprop", t, i, rng.choice(["long_name", "comment", "axis"]), rng.choice(["X", "something", "v2"])]]
    elif family == "dtype":
        ops = [["cdtype", t, i, "f4"]]
    elif family == "ncvar":  # equal content, different pinned netCDF names
        ops = [["cncvar", t, i, rng.choice(NAMES)]]
        if rng.random() < 0.4:
            ops.append(["bncvar", t, i, rng.choice(NAMES) + "_bnds"])
        if rng.random() < 0.3:
            ops.append(["bncdim", t, i, rng.choice(["nv", "bnds", "two"])])
    elif family == "ncvar_conflict":  # same pinned name, different content
        nm = rng.choice(NAMES)
        ops = [["cncvar", t, i, nm], ["cvalue", t, i, 1]]
    elif family == "ncdim":
        ops = [["ancdim", rng.randint(0, 3), rng.choice(["x", "y", "dim", "lat", "n"])]]
    elif family == "unlimited":
        ops = [["unlimited", rng.randint(0, 3)]]
    elif family == "nodimcoord":
        ops = [["cdel", "dim", i]]
    elif family == "delaux":
        ops = [["cdel", rng.choice(["aux", "msr", "fan"]), i]]
    elif family == "auxcopy":
        ops = [["auxcopy", rng.choice(["dan", "dim", "aux"]), i]]
    elif family == "gm":
        ops = [rng.choice([["gmdatum", 0, "del"], ["gmdatum", 0, 6371007.0], ["gmdatum", 0, 6371229.0], ["gmparam", 0, 40.0],
                           ["gmncvar", 0, rng.choice(["crs", "rotated_pole"])], ["gmdel", 0],
                           ["gmadd", "transverse_mercator", 6371007.0], ["gmadd", "transverse_mercator", 6371229.0],
                           ["gmadd", "transverse_mercator", None]])]
    elif family == "ft":
        ops = [rng.choice([["ftdatum", 0, "del"], ["ftdatum", 0, 6371007.0], ["ftdatum", 0, 6371229.0], ["ftdel", 0],
                           ["cvalue", "dan", i, 1], ["cbounds", "dan", i, "del"], ["cncvar", "dan", i, rng.choice(["a", "b", "orog"])]])]
    elif family == "cm":
        ops = [rng.choice([["cmadd", rng.randint(0, 3), rng.choice(["mean", "maximum", "point"])], ["cmdel"]])]
    elif family == "shape":
        ops = [rng.choice([["subspace", rng.randint(0, 3), rng.choice(["head", "tail"])], ["transpose"]])]
    elif family == "fieldfrom":
        ops = [["fieldfrom", rng.choice(["dan", "dan", "aux", "msr"]), i]]
    elif family == "noname":
        ops = [["cnoname", rng.choice(["dim", "dim", "aux"]), i]]
        if rng.random() < 0.4:
            ops.append(["ancdim", rng.randint(0, 3), rng.choice(["x", "y", "dim", "n"])])
    elif family == "fprop":  # this sibling has / lacks / differs in a description-of-file-contents property
        nm = rng.choice(FILE_PROPS[:6] + FILE_PROPS[:6] + FREE_PROPS)
        how = rng.choice(["set", "set", "set2", "del"])
        if how == "del":
            ops = [["fpropdel", nm]]
        else:
            ops = [["fprop", nm, "value A" if how == "set" else "value B"]]
            if nm in FREE_PROPS and rng.random() < 0.5:
                ops.append(["fglobal", nm, None])
    elif family == "domain":
        ops = [["domain"]]
    else:
        raise ValueError(family)
    return ops


def scalar_shared_recipe(rng):
    """Fields sharing a scalar coordinate variable, each with a cell method over the scalar coordinate's axis, the
    axis having another identifier in the original than the one cfdm.read assigns (size-1 axis created first, or the
    leading axis of an example field subspaced and squeezed out)."""
    which = rng.choice(["txy", "txy", "txy_aux", "ttxy", "ex2", "ex2", "ex1"])
    pre = []
    if which in HAND_SCALAR_FIRST:
        base = {"kind": "hand", "name": which}
    elif which == "ex2":   # (time, lat, lon): time -> scalar, cell method over it
        base = {"kind": "example", "n": 2}
        pre = [["scalarise", 0], ["cmadd", 0, rng.choice(["maximum", "minimum", "mean"])]]
    else:                  # example field 1 (z, y, x): z -> scalar (its formula terms go with it), cell method over it
        base = {"kind": "example", "n": 1}
        pre = [["scalarise", 0], ["cmadd", 0, "point"]]
    n = rng.choice([2, 2, 3])
    sibs = []
    for j in range(n):
        ops = list(pre)
        r = rng.random()
        if j == 0:
            pass
        elif r < 0.6:      # equal scalar coordinate (shared variable), other data
            ops += [["data", j], ["ncvar", f"q{j}"]]
        elif r < 0.8:      # a different scalar coordinate (not shared)
            ops += [["cvalue", "dim" if which != "txy_aux" else "aux", 0, 1], ["ncvar", f"q{j}"]]
        else:              # equal scalar coordinate, other cell method over its axis
            ops += [["cmdel"], ["cmadd", 0, "minimum"], ["data", j], ["ncvar", f"q{j}"]]
        if j and rng.random() < 0.3:
            ops.append(["stdname", rng.choice(["eastward_wind", "air_pressure"])])
        sibs.append(ops)
    rng.shuffle(sibs)
    return {"base": base, "sibs": sibs}, ["scalar_shared:" + which]


def mixed_recipe(rng):
    """Unrelated constructs in one dataset (different ancestors: example fields, hand-built fields), each with cell
    methods over some of its axes: the same construct / axis identifier (domainaxis0, dimensioncoordinate1 ...) plays
    another role in each of them - a scalar coordinate axis here, a data dimension there -, which is what a writer or
    reader state keyed by identifiers and carried from one construct to the next trips over."""
    pool = [("hand", "txy"), ("hand", "ttxy"), ("hand", "txy_aux"), ("hand", "xy"), ("hand", "xy_scalar"), ("hand", "xy_blank"),
            ("hand", "zyx"), ("hand", "line"), ("example", 0), ("example", 1), ("example", 2), ("example", 5), ("example", 6),
            ("example", 7)]
    n = rng.choice([2, 2, 3])
    picks = [rng.choice(pool) for _ in range(n)]
    if rng.random() < 0.6:  # a scalar-axis-first field followed by fields whose first axes are data dimensions
        picks[0] = rng.choice(pool[:3] + [("example", 0), ("hand", "xy_scalar")])
    base = {"kind": picks[0][0], ("name" if picks[0][0] == "hand" else "n"): picks[0][1]}
    sibs = []
    for j, (kind, which) in enumerate(picks):
        ops = [] if j == 0 else [["replace", which] if kind == "hand" else ["example", which]]
        for _ in range(rng.choice([0, 1, 1, 2])):
            ops.append(["cmadd", rng.randint(0, 3), rng.choice(["mean", "maximum", "minimum", "point"])])
        if j:
            ops.append(["ncvar", f"m{j}"])
            if rng.random() < 0.5:
                ops.append(["stdname", rng.choice(["eastward_wind", "air_pressure", "specific_humidity"])])
        sibs.append(ops)
    if rng.random() < 0.5:
        rng.shuffle(sibs)
    return {"base": base, "sibs": sibs}, ["mixed"]


def fprops_recipe(rng):
    """Per candidate property (description-of-file-contents attributes, a flagged free name) every sibling is in one of
    the states value A / value B / absent: the writer may make it a netCDF global attribute only when EVERY construct has
    it with the same value (whichever construct is given first)."""
    r = rng.random()
    if r < 0.4:
        base = {"kind": "hand", "name": rng.choice(["xy", "txy", "xy_scalar", "line"])}
    elif r < 0.8:
        base = {"kind": "example", "n": rng.choice([0, 1, 2, 5, 7])}
    else:
        base = {"kind": "random", "seed": rng.randint(0, 10 ** 9), "allow": ["dim", "aux", "scalar", "cm", "bounds", "names"], "max_axes": 2}
    n = rng.choice([2, 2, 3, 3])
    names = rng.sample(FILE_PROPS, rng.choice([1, 2, 2, 3]))
    if rng.random() < 0.4:
        names.append(rng.choice(FREE_PROPS))
    sibs = [[] for _ in range(n)]
    for nm in names:
        # at least one sibling has it; the states of the others are drawn freely
        states = [rng.choice(["A", "A", "B", None]) for _ in range(n)]
        states[rng.randrange(n)] = "A"
        if rng.random() < 0.35:  # the corner: exactly one has it
            k = rng.randrange(n)
            states = ["A" if j == k else None for j in range(n)]
        flag = nm in FREE_PROPS
        for j, st in enumerate(states):
            if st is None:
                sibs[j].append(["fpropdel", nm])
            else:
                sibs[j].append(["fprop", nm, f"{nm} {st}"])
                if flag:
                    sibs[j].append(["fglobal", nm, None])
    for j in range(n):
        if j:
            sibs[j] += [["data", j], ["ncvar", f"v{j}"]]
            if rng.random() < 0.5:
                sibs[j].append(["stdname", rng.choice(["eastward_wind", "air_pressure", "specific_humidity"])])
    return {"base": base, "sibs": sibs}, ["fprops"]


FAMILIES = ["equal", "dup", "value", "nearly", "nearly", "bounds", "units", "prop", "dtype", "ncvar", "ncvar_conflict", "ncdim", "unlimited",
            "nodimcoord", "delaux", "auxcopy", "gm", "ft", "cm", "shape", "fieldfrom", "domain", "fprop", "fprop", "noname"]


def random_recipe(rng, nmin=2, nmax=4, base=None, modelled_only=False):
    """A random family: the ancestor plus 1..nmax-1 perturbed siblings."""
    if base is None and not modelled_only and rng.random() < 0.04:
        # discrete sampling geometry families (oracle only)
        which = rng.choice(["contig", "ic", "ic2"])
        if which == "contig":
            sibs = [[["cdel", "aux", 0], ["stdname", "air_pressure"], ["ncvar", "p"]], []]
        elif which == "ic":
            sibs = [[], [["replace", "dsg_ic_alt"]]]
        else:
            sibs = [[["replace", "dsg_ic_alt2"]], [["replace", "dsg_ic_alt3"], ["stdname", "air_temperature"]]]
        if rng.random() < 0.5:
            sibs.reverse()
        return {"base": {"kind": "hand", "name": "dsg_contig" if which == "contig" else "dsg_ic"}, "sibs": sibs}, ["dsg:" + which]
    if base is None and rng.random() < 0.04:
        # square grid without dimension coordinates: equal 2-d constructs, also with their axes the other way round
        sibs = [[], [["data", 1], ["ncvar", "sst1"]], [["auxswap", "aux", 0], ["auxswap", "aux", 1], ["auxswap", "msr", 0], ["ncvar", "sst2"]]]
        if rng.random() < 0.5:
            del sibs[1]
        rng.shuffle(sibs)
        return {"base": {"kind": "hand", "name": "square2d"}, "sibs": sibs}, ["square2d"]
    if base is None and rng.random() < 0.05:
        # parametric vertical coordinates on different vertical grids of the same size, equal coefficient arrays
        nm = rng.choice(["zyx", "zyx_nodatum", "zyx_gmdatum"])
        sibs = [[], [["cvalue", "dim", 0, rng.choice([1, 2, 0.5])], ["ncvar", "ua1"]]]
        if rng.random() < 0.4:
            sibs[1].insert(1, ["cvalue", "dan", 0, 1])
        if rng.random() < 0.5:
            sibs.reverse()
        return {"base": {"kind": "hand", "name": nm}, "sibs": sibs}, ["vgrid"]
    if base is None and rng.random() < 0.07:
        return scalar_shared_recipe(rng)
    if base is None and rng.random() < 0.08:
        return fprops_recipe(rng)
    if base is None and rng.random() < 0.09:
        return mixed_recipe(rng)
    if base is None and rng.random() < 0.03:
        # axes without dimension coordinate: an equal / a different auxiliary coordinate on an axis of the same size
        sibs = [[], [["cvalue", "aux", 0, 1], ["ncvar", "q1"]], [["data", 2], ["ncvar", "q2"]]]
        rng.shuffle(sibs)
        return {"base": {"kind": "hand", "name": "line"}, "sibs": sibs}, ["nodim_size"]
    if base is None and rng.random() < 0.03:
        sibs = [[], [["replace", "square"], ["ncvar", "cov"]]]
        if rng.random() < 0.5:
            sibs.reverse()
        if rng.random() < 0.3:
            sibs.append([["data", 1], ["ncvar", "q2"]])
        return {"base": {"kind": "hand", "name": "line"}, "sibs": sibs}, ["square"]
    if base is None:
        r = rng.random()
        if r < 0.35:
            base = {"kind": "hand", "name": rng.choice(HAND)}
        elif r < 0.6:
            base = {"kind": "example", "n": rng.choice([0, 1, 1, 2, 3, 5, 6, 7, 7])}
        elif r < 0.9 or modelled_only:
            allow = ["dim", "aux", "aux2d", "scalar", "msr", "fan", "cm", "gm", "ft", "bounds", "names", "mask", "dan"]
            if rng.random() < 0.5:
                allow.append("string")
            base = {"kind": "random", "seed": rng.randint(0, 10 ** 9), "allow": allow, "max_axes": 3}
        else:
            base = {"kind": "seedfile", "name": rng.choice(SEEDFILES), "index": rng.randint(0, 1)}
    n = rng.randint(nmin, nmax)
    sibs = []
    fams = []
    first_plain = rng.random() < 0.7
    for j in range(n):
        if j == 0 and first_plain:
            sibs.append([])
            fams.append("base")
            continue
        ops = []
        k = rng.choice([1, 1, 1, 2, 3])
        for _ in range(k):
            fam = rng.choice(FAMILIES)
            if fam == "domain":
                continue
            fams.append(fam)
            ops += random_ops(rng, fam)
        if rng.random() < 0.8:
            ops.append(["ncvar", rng.choice(FNAMES) + str(j)])
        if rng.random() < 0.3:
            ops.append(["stdname", rng.choice(["eastward_wind", "air_pressure", "specific_humidity"])])
        if rng.random() < 0.08:
            ops.append(["domain"])
            fams.append("domain")
        sibs.append(ops)
    return {"base": base, "sibs": sibs}, sorted(set(fams))
