"""C08.field: field lists in the input language of the Lean model `Cfdm.NcField` (per-field naming maps).

A case is {"opts": {"scalar": bool, "coordinates": bool}, "fields": [F, ...]} with

  F = {"ncvar": str|None, "std": str|None,
       "axes": [{"size": n, "ncdim": str|None, "unlim": bool,
                 "dc": None | {"c": int, "ncvar": str|None, "std": str|None}}, ...],
       "data": [axis index, ...],                      the axes the data span, in order
       "cons": [{"t": "aux"|"measure"|"fieldanc", "c": int, "ncvar": ..., "std": ..., "axes": [index, ...]}, ...],
       "cms":  [[axis index | "area", ...], ...]}      the axes of every cell method

`c` is a content number: two constructs of the same type, shape and standard name with the same `c` are
built with equal properties and data (so cfdm's `equals` holds and the writer shares the variable); all
other pairs differ.  Every case is rebuilt identically from its JSON on replay.
"""
import numpy as np

from . import fields as G

NCVARS = ["lat", "lon", "x", "y", "t", "dim", "a", "a_1", "data", "scalar", "auxiliary", "coordinate", "q"]
STDS = ["latitude", "longitude", "time", "altitude", "air_pressure"]
NCDIMS = ["x", "y", "dim", "lat", "t", "n", "dim_1"]
FIELD_STD = ["air_temperature", "eastward_wind", "specific_humidity", None]


def cfdm():
    return G.cfdm()


# ----------------------------------------------------------------------------- generator
def _name(rng, p_none=0.25):
    r = rng.random()
    if r < p_none:
        return None, None
    if r < p_none + (1 - p_none) * 0.55:
        return rng.choice(NCVARS), None
    return None, rng.choice(STDS)


def gen_field(rng):
    na = rng.choice([1, 2, 2, 3, 3, 4])
    nd = rng.randint(0 if rng.random() < 0.08 else 1, na)
    axes = []
    for i in range(na):
        in_data = i < nd
        size = rng.choice([2, 3, 3, 4, 1]) if in_data else 1
        ax = dict(size=size, ncdim=rng.choice(NCDIMS) if rng.random() < 0.4 else None,
                  unlim=(rng.random() < 0.12), dc=None)
        if rng.random() < 0.6:
            nv, sd = _name(rng, 0.12)
            # contents differ from axis to axis, but come from a small pool so that fields share coordinates;
            # rarely two axes of one field get equal coordinates
            ax["dc"] = dict(c=(i if rng.random() < 0.97 else 0) + 10 * rng.randrange(2), ncvar=nv, std=sd)
        axes.append(ax)
    data = list(range(nd))
    if rng.random() < 0.35:
        rng.shuffle(data)
    cons = []
    for _ in range(rng.choice([0, 1, 1, 2, 3])):
        if na >= 2 and rng.random() < 0.35:
            ax = rng.sample(range(na), 2)
        else:
            ax = [rng.randrange(na)]
        nv, sd = _name(rng, 0.3)
        cons.append(dict(t="aux", c=rng.randrange(3), ncvar=nv, std=sd, axes=ax))
    if rng.random() < 0.3:
        ax = rng.sample(range(na), rng.randint(1, min(2, na)))
        nv, sd = _name(rng, 0.5)
        cons.append(dict(t="measure", c=rng.randrange(2), ncvar=nv, std=None, axes=ax))
    if rng.random() < 0.3:
        ax = rng.sample(range(na), rng.randint(1, min(2, na)))
        nv, sd = _name(rng, 0.4)
        cons.append(dict(t="fieldanc", c=rng.randrange(2), ncvar=nv, std=sd, axes=ax))
    F = dict(ncvar=rng.choice(NCVARS + [None, None]), std=rng.choice(FIELD_STD), axes=axes, data=data, cons=cons, cms=[])
    cov = [i for i in range(na) if covered(F, i)]
    if cov and rng.random() < 0.6:
        for _ in range(rng.randint(1, 3)):
            m = rng.sample(cov, rng.randint(1, min(2, len(cov))))
            if rng.random() < 0.15:
                m = ["area"]
            F["cms"].append(m)
    return F


def covered(F, i):
    return i in F["data"] or F["axes"][i]["dc"] is not None or any(i in c["axes"] for c in F["cons"])


def twin_of(rng, F):
    """A second field over (mostly) the same domain: the constructs take the already-in-file path."""
    import copy
    T = copy.deepcopy(F)
    T["ncvar"] = rng.choice(NCVARS + [None])
    T["std"] = rng.choice(FIELD_STD)
    na = len(T["axes"])
    for _ in range(rng.choice([0, 0, 1, 1, 2])):
        r = rng.random()
        if r < 0.2 and T["cons"]:
            T["cons"].pop(rng.randrange(len(T["cons"])))
        elif r < 0.4 and T["cons"]:
            rng.choice(T["cons"])["c"] = rng.randrange(3, 5)
        elif r < 0.55:
            ax = rng.choice(T["axes"])
            if ax["dc"] is not None:
                ax["dc"]["c"] = rng.randrange(30, 33)
        elif r < 0.7:
            ax = rng.choice(T["axes"])
            ax["dc"] = None
        elif r < 0.8:
            rng.choice(T["axes"])["ncdim"] = rng.choice(NCDIMS + [None])
        elif r < 0.9:
            rng.shuffle(T["data"])
        else:
            rng.choice(T["axes"])["unlim"] = rng.random() < 0.5
    T["cms"] = []
    cov = [i for i in range(na) if covered(T, i)]
    if cov and rng.random() < 0.7:
        for _ in range(rng.randint(1, 2)):
            T["cms"].append(rng.sample(cov, rng.randint(1, min(2, len(cov)))))
    return T


def gen_case(rng):
    nf = rng.choice([1, 2, 2, 2, 3, 3])
    fields = []
    for i in range(nf):
        if fields and rng.random() < 0.6:
            fields.append(twin_of(rng, rng.choice(fields)))
        else:
            fields.append(gen_field(rng))
    # `scalar` is a parameter of NetCDFWrite.write that cfdm.write does not expose: always True
    return dict(opts=dict(scalar=True, coordinates=rng.random() < 0.2), fields=fields)


# ----------------------------------------------------------------------------- content identities
class Intern:
    def __init__(self):
        self.t = {}

    def __call__(self, *k):
        return self.t.setdefault(k, len(self.t))


def _shape(F, axes):
    return tuple(F["axes"][i]["size"] for i in axes)


def _key_order(F):
    """Construct keys as cfdm will number them (creation order per type), and the order in which the writer
    visits them: auxiliary coordinates and cell measures sorted by key, field ancillaries in creation order."""
    n = dict(aux=0, measure=0, fieldanc=0)
    prefix = dict(aux="auxiliarycoordinate", measure="cellmeasure", fieldanc="fieldancillary")
    out = []
    for c in F["cons"]:
        out.append((prefix[c["t"]] + str(n[c["t"]]), c))
        n[c["t"]] += 1
    rank = dict(aux=0, measure=1, fieldanc=2)
    return sorted(out, key=lambda kc: (rank[kc[1]["t"]], kc[0] if kc[1]["t"] != "fieldanc" else ""))


def line(p):
    """The protocol line of a case."""
    I = Intern()
    fs = []
    for F in p["fields"]:
        keys = [f"domainaxis{i}" for i in range(len(F["axes"]))]
        axes = []
        ndc = 0
        for i, ax in enumerate(F["axes"]):
            dc = "-"
            if ax["dc"] is not None:
                d = ax["dc"]
                dc = f"dimensioncoordinate{ndc}/{I('dc', d['c'], ax['size'], d['std'])}/{d['ncvar'] or d['std'] or '-'}"
                ndc += 1
            axes.append(f"{keys[i]}:{ax['size']}:{ax['ncdim'] or '-'}:{'U' if ax['unlim'] else 'L'}:{dc}")
        cons = []
        for key, c in _key_order(F):
            cid = I(c["t"], c["c"], _shape(F, c["axes"]), c["std"])
            cons.append(f"{key}:{c['t']}:{cid}:{c['ncvar'] or c['std'] or '-'}:{'area' if c['t'] == 'measure' else '-'}:"
                        + "+".join(keys[i] for i in c["axes"]))
        cms = ["+".join("area" if a == "area" else keys[a] for a in m) for m in F["cms"]]
        fs.append("|".join([F["ncvar"] or F["std"] or "-", ",".join(axes), ",".join(keys[i] for i in F["data"]),
                            ",".join(cons), ",".join(cms)]))
    o = p["opts"]
    return f"C08.field scalar={int(o['scalar'])} coordinates={int(o['coordinates'])} fields=[{';'.join(fs)}]"


# ----------------------------------------------------------------------------- builder
def _data(c, shape, step=1.0):
    n = int(np.prod(shape)) if shape else 1
    return (np.arange(n, dtype="f8") * step + 100.0 * c + 1.0).reshape(shape)


def build(F, i, marker):
    C = cfdm()
    f = C.Field()
    f.set_property(marker, f"F{i}")
    if F["std"]:
        f.set_property("standard_name", F["std"])
    if F["ncvar"]:
        f.nc_set_variable(F["ncvar"])
    keys = []
    for ax in F["axes"]:
        da = C.DomainAxis(ax["size"])
        if ax["ncdim"]:
            da.nc_set_dimension(ax["ncdim"])
        if ax["unlim"]:
            da.nc_set_unlimited(True)
        keys.append(f.set_construct(da))
    assert keys == [f"domainaxis{j}" for j in range(len(keys))], keys
    shape = _shape(F, F["data"])
    f.set_data(C.Data(_data(7 + i, shape, 0.5)), axes=[keys[j] for j in F["data"]])

    def props(c):
        p = {"long_name": f"content {c['c']}", "units": "m"}
        if c.get("std"):
            p["standard_name"] = c["std"]
        return p
    for j, ax in enumerate(F["axes"]):
        d = ax["dc"]
        if d is None:
            continue
        x = C.DimensionCoordinate(properties=props(d))
        x.set_data(C.Data(_data(d["c"], (ax["size"],))))
        if d["ncvar"]:
            x.nc_set_variable(d["ncvar"])
        f.set_construct(x, axes=[keys[j]])
    for c in F["cons"]:
        shp = _shape(F, c["axes"])
        if c["t"] == "aux":
            x = C.AuxiliaryCoordinate(properties=props(c))
        elif c["t"] == "measure":
            x = C.CellMeasure(measure="area", properties={"long_name": f"content {c['c']}", "units": "m2"})
        else:
            x = C.FieldAncillary(properties=props(c))
        x.set_data(C.Data(_data(c["c"], shp, 0.25)))
        if c["ncvar"]:
            x.nc_set_variable(c["ncvar"])
        f.set_construct(x, axes=[keys[j] for j in c["axes"]])
    for m in F["cms"]:
        f.set_construct(C.CellMethod(axes=["area" if a == "area" else keys[a] for a in m], method="mean"))
    return f
