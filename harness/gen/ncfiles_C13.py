"""Abstract netCDF datasets for C13: generation, hand-writing with netCDF4, abstraction of an
existing file, enumeration of the reference-token sites and the single-fault operator.

An abstract file is a JSON-able dict

    {"globals": {name: str},
     "dims":    [[name, size], ...],
     "vars":    [{"name": str, "dims": [str], "kind": "f"|"i"|"s"|"c",
                  "attrs": {name: str | number | [number]}, "data": nested list | None}, ...]}

kind "s" is a netCDF string variable, "c" a char array (its last dimension is the string length).
`data` None means "fill with distinct numbers derived from the variable name".

Nothing in this module imports cfdm.
"""
import hashlib
import zlib

import numpy as np

# attributes whose value names variables (or dimensions)
REF_LIST_ATTRS = ("coordinates", "ancillary_variables", "bounds", "climatology", "nodes", "geometry",
                  "node_coordinates", "node_count", "part_node_count", "interior_ring")
REF_MAP_ATTRS = ("cell_measures", "formula_terms", "grid_mapping")
REF_DIM_ATTRS = ("compress", "sample_dimension", "instance_dimension")
GLOBAL_REF_ATTRS = ("external_variables",)
FREE_TEXT = ("cell_methods",)
MISSING = "nosuch_zz"
FOREIGN = "foreign_zz"
FOREIGN_DIM = "fdim_zz"
FOREIGN_C = "foreignc_zz"      # a char array on the foreign dimension (for tokens naming string variables)


# ------------------------------------------------------------------ helpers
def var(name, dims=(), kind="f", data=None, **attrs):
    return dict(name=name, dims=list(dims), kind=kind, attrs=dict(attrs), data=data)


def get_var(F, name):
    for v in F["vars"]:
        if v["name"] == name:
            return v
    return None


def dim_size(F, d):
    for n, s in F["dims"]:
        if n == d:
            return s
    raise KeyError(d)


def clone(F):
    return dict(globals=dict(F["globals"]), dims=[list(d) for d in F["dims"]],
                vars=[dict(name=v["name"], dims=list(v["dims"]), kind=v["kind"], attrs=dict(v["attrs"]), data=v["data"])
                      for v in F["vars"]])


def _auto(name, shape, kind):
    n = int(np.prod(shape)) if shape else 1
    base = zlib.crc32(name.encode()) % 97
    if kind in "sc":
        a = np.array([f"{name[:2]}{base + k}" for k in range(n)], dtype=object)
        return a.reshape(shape) if shape else a.reshape(())
    a = (np.arange(n) * 2 + base * 10).astype("f8" if kind == "f" else "i4")
    return a.reshape(shape)


# ------------------------------------------------------------------ writing
def write_nc(F, path, fmt="NETCDF4", group=None):
    """Write the abstract file; with `group` every dimension and variable goes into that group
    (global attributes stay at the root)."""
    import netCDF4

    root = netCDF4.Dataset(path, "w", format=fmt)
    try:
        for k, v in F["globals"].items():
            root.setncattr(k, v)
        nc = root.createGroup(group) if group else root
        for n, s in F["dims"]:
            nc.createDimension(n, s)
        for v in F["vars"]:
            kind = v["kind"]
            shape = [dim_size(F, d) for d in v["dims"]]
            if kind == "s":
                x = nc.createVariable(v["name"], str, tuple(v["dims"]))
            elif kind == "c":
                x = nc.createVariable(v["name"], "S1", tuple(v["dims"]))
            else:
                x = nc.createVariable(v["name"], "f8" if kind == "f" else "i4", tuple(v["dims"]))
            for k, a in v["attrs"].items():
                if isinstance(a, list):
                    a = np.array(a)
                x.setncattr(k, a)
            data = v["data"]
            if kind == "c":
                if shape:
                    sshape = shape[:-1]
                    strs = _auto(v["name"], sshape, "c") if data is None else np.array(data, dtype=object).reshape(sshape)
                    arr = np.zeros(shape, dtype="S1")
                    flat = arr.reshape(-1, shape[-1]) if sshape else arr.reshape(1, shape[-1])
                    for i, s in enumerate(np.asarray(strs, dtype=object).reshape(-1)):
                        bs = str(s).encode()[: shape[-1]]
                        for j, ch in enumerate(bs):
                            flat[i, j] = bytes([ch])
                    x[...] = arr
                else:
                    x[...] = np.array(b"q", dtype="S1")
            elif kind == "s":
                strs = _auto(v["name"], shape, "s") if data is None else np.array(data, dtype=object).reshape(shape)
                if shape:
                    for idx in np.ndindex(*shape):
                        x[idx] = str(strs[idx])
                else:
                    x[...] = np.array(str(strs.reshape(-1)[0]), dtype=object)
            else:
                arr = _auto(v["name"], shape, kind) if data is None else np.array(data).reshape(shape)
                x[...] = arr
    finally:
        root.close()


def abstract_nc(path, keep_data=True):
    """The abstract file of an existing (group-free) netCDF file, through netCDF4 only."""
    import netCDF4

    nc = netCDF4.Dataset(path, "r")
    try:
        nc.set_auto_maskandscale(False)
        F = dict(globals={}, dims=[], vars=[])
        for k in nc.ncattrs():
            v = nc.getncattr(k)
            F["globals"][k] = v if isinstance(v, str) else _jsonable(v)
        for n, d in nc.dimensions.items():
            F["dims"].append([n, len(d)])
        for n, x in nc.variables.items():
            if x.dtype is str:
                kind = "s"
            elif x.dtype.kind == "S":
                kind = "c"
            elif x.dtype.kind == "f":
                kind = "f"
            else:
                kind = "i"
            attrs = {}
            for k in x.ncattrs():
                a = x.getncattr(k)
                attrs[k] = a if isinstance(a, str) else _jsonable(a)
            data = None
            if keep_data:
                a = x[...]
                if kind == "c":
                    if x.ndim >= 1:
                        a = netCDF4.chartostring(np.asarray(a))
                        data = np.asarray(a).astype(str).tolist()
                    else:
                        data = None
                elif kind == "s":
                    data = np.asarray(a, dtype=object).astype(str).tolist()
                else:
                    data = np.asarray(a).tolist()
            F["vars"].append(dict(name=n, dims=list(x.dimensions), kind=kind, attrs=attrs, data=data))
        return F
    finally:
        nc.close()


def _jsonable(v):
    a = np.asarray(v)
    if a.ndim == 0:
        return a.item()
    return a.tolist()


# ------------------------------------------------------------------ tokenising (the harness's own)
def tokens(s):
    return s.split()


def join(toks):
    return " ".join(toks)


# ------------------------------------------------------------------ sites and faults
def sites(F):
    """Every reference token of every referencing attribute.

    A site is (variable or None for a global attribute, attribute, token index, role) with role one of
    'var' (names a variable), 'dim' (names a dimension), 'key' (the `name:` half of a mapping)."""
    out = []
    for a in GLOBAL_REF_ATTRS:
        s = F["globals"].get(a)
        if isinstance(s, str):
            for i, _ in enumerate(tokens(s)):
                out.append((None, a, i, "var"))
    for v in F["vars"]:
        for a, s in v["attrs"].items():
            if not isinstance(s, str):
                continue
            if a in REF_LIST_ATTRS:
                for i, _ in enumerate(tokens(s)):
                    out.append((v["name"], a, i, "var"))
            elif a in REF_DIM_ATTRS:
                for i, _ in enumerate(tokens(s)):
                    out.append((v["name"], a, i, "dim"))
            elif a in REF_MAP_ATTRS:
                for i, t in enumerate(tokens(s)):
                    if t.endswith(":"):
                        # grid_mapping keys name variables; the others are term / measure names
                        out.append((v["name"], a, i, "gmkey" if a == "grid_mapping" else "key"))
                    else:
                        out.append((v["name"], a, i, "var"))
    return out


KINDS = ("missing", "foreign", "removed", "foreign-shared", "foreign-data")
PARENT_ATTRS = ("coordinates", "ancillary_variables", "cell_measures")   # the parent is the variable itself


def _real_dims(v):
    return [d for d in v["dims"] if not d.startswith("strlen")]


SHARED_ATTRS = PARENT_ATTRS + ("bounds", "climatology", "grid_mapping", "formula_terms")


def replacement(F, site, kind, dvs=()):
    """The existing variable that replaces the token for the kinds 'foreign-shared' (a variable that
    ANOTHER variable validly names in the same attribute - a valid construct of another data variable,
    defined earlier or later in the file - but which does not fit here: dimensions foreign to this
    parent, or to this coordinate for bounds / nodes / formula terms) and 'foreign-data' (another data
    variable with foreign dimensions); None if there is none."""
    vname, attr, i, role = site
    if role != "var" or vname is None:
        return None
    if attr not in (SHARED_ATTRS if kind == "foreign-shared" else PARENT_ATTRS):
        return None
    parent = get_var(F, vname)
    pd = set(_real_dims(parent))
    toks = tokens(parent["attrs"][attr])
    here = {t.rstrip(":") for t in toks}
    cands = []
    if kind == "foreign-shared":
        if attr == "grid_mapping" and ":" not in parent["attrs"][attr]:
            return None              # the sole token is the grid mapping variable, a container
        if attr == "grid_mapping":
            # a coordinate of ANOTHER data variable that is no coordinate of this one
            own = set(tokens(parent["attrs"].get("coordinates", ""))) | pd
            for w in F["vars"]:
                if w["name"] == vname:
                    continue
                for t in tokens(w["attrs"].get("coordinates", "")) if isinstance(w["attrs"].get("coordinates"), str) else []:
                    if t not in own and t not in here and t not in cands and get_var(F, t) is not None:
                        cands.append(t)
        else:
            for w in F["vars"]:
                s = w["attrs"].get(attr)
                if w["name"] == vname or not isinstance(s, str):
                    continue
                for t in tokens(s):
                    if t.endswith(":") or t in here or t in cands:
                        continue
                    x = get_var(F, t)
                    if x is None:
                        continue
                    if attr in PARENT_ATTRS:
                        fits = set(_real_dims(x)) <= pd
                    elif attr in ("bounds", "climatology"):
                        fits = _real_dims(x)[:-1] == _real_dims(parent)
                    else:                # formula_terms
                        orig = get_var(F, toks[i])
                        fits = orig is not None and _real_dims(x) == _real_dims(orig)
                    if not fits:
                        cands.append(t)
    elif kind == "foreign-data":
        for n in dvs:
            x = get_var(F, n)
            if n != vname and n not in here and x is not None and not set(_real_dims(x)) <= pd:
                cands.append(n)
    if not cands:
        return None
    return sorted(cands)[i % len(cands)]


def ensure_foreign(F):
    """Add (once) a variable whose dimension no data variable spans, and a spare dimension."""
    if get_var(F, FOREIGN) is None:
        F["dims"].append([FOREIGN_DIM, 3])
        F["dims"].append(["strlen_fz", 4])
        F["vars"].append(var(FOREIGN, [FOREIGN_DIM], "f", long_name="foreign"))
        F["vars"].append(var(FOREIGN_C, [FOREIGN_DIM, "strlen_fz"], "c", long_name="foreign labels"))
    return F


def break_ref(F, site, kind, dvs=()):
    """F with the token at `site` replaced by a missing name / a foreign variable / removed.

    Returns None when the fault kind does not apply (foreign for a dimension or key token)."""
    vname, attr, i, role = site
    G = clone(F)
    if kind in ("foreign-shared", "foreign-data"):
        r = replacement(F, site, kind, dvs)
        if r is None:
            return None
        toks = tokens(get_var(G, vname)["attrs"][attr])
        toks[i] = r
        get_var(G, vname)["attrs"][attr] = join(toks)
        return G
    if kind == "foreign":
        if role != "var":
            return None
        ensure_foreign(G)
    holder = G["globals"] if vname is None else get_var(G, vname)["attrs"]
    toks = tokens(holder[attr])
    colon = ":" if toks[i].endswith(":") else ""
    if kind == "missing":
        toks[i] = MISSING + colon
    elif kind == "foreign":
        orig = get_var(F, toks[i])
        toks[i] = FOREIGN_C if orig is not None and orig["kind"] in "sc" else FOREIGN
    elif kind == "removed":
        del toks[i]
    else:
        raise ValueError(kind)
    holder[attr] = join(toks)
    return G


# malformed strings: (attribute, mutation name) -> function of the valid string
def malformations(attr, s):
    toks = tokens(s)
    out = []
    if attr in ("formula_terms", "cell_measures"):
        out.append(("nocolon", s.replace(":", "", 1)))
        out.append(("nospace", s.replace(": ", ":", 1)))
        out.append(("dangling", s + " extra:"))
        out.append(("twovalues", join(toks[:2] + ["surplus_zz"] + toks[2:])))
        out.append(("leadingvalue", "lead_zz " + s))
        out.append(("punct", s.replace(":", ";", 1)))
        out.append(("empty", " "))
    elif attr == "grid_mapping":
        out.append(("twonames", s + " another_zz") if ":" not in s else ("dangling", s + " extra:"))
        out.append(("colononly", toks[0].rstrip(":") + ":"))
        out.append(("punct", toks[0].rstrip(":") + "-x"))
        out.append(("trailingblank", s + " "))
        out.append(("empty", " "))
        if ":" in s:
            out.append(("nocolon", s.replace(":", "", 1)))
    elif attr == "compress":
        out.append(("empty", " "))
    elif attr == "cell_methods":
        out.append(("noclose", s + " (interval: 1 hr"))
        out.append(("badinterval", s + " (interval: one hr)"))
        out.append(("danglingwithin", s + " within"))
        out.append(("danglingwhere", s + " where"))
        out.append(("openparen", s + " ("))
        out.append(("nomethod", toks[0] if toks else "time:"))
        out.append(("noaxis", "mean"))
        out.append(("closeonly", s + " )"))
        out.append(("twointervals", (toks[0] + " " + toks[1] if len(toks) > 1 else "time: mean") + " (interval: 1 hr interval: 2 hr)"))
    return out


def mal_sites(F):
    out = []
    for v in F["vars"]:
        for a, s in v["attrs"].items():
            if isinstance(s, str) and a in ("formula_terms", "cell_measures", "grid_mapping", "cell_methods", "compress"):
                for name, _ in malformations(a, s):
                    out.append((v["name"], a, name))
    return out


def malform(F, vname, attr, name):
    G = clone(F)
    holder = get_var(G, vname)["attrs"]
    for n, s in malformations(attr, holder[attr]):
        if n == name:
            holder[attr] = s
            return G
    return None


# ------------------------------------------------------------------ templates of valid files
def _bounds_of(F, c, nv="bnds", attr="bounds"):
    """Give coordinate variable `c` a bounds variable."""
    v = get_var(F, c)
    if not any(n == nv for n, _ in F["dims"]):
        F["dims"].append([nv, 2])
    b = c + "_" + ("bnds" if attr == "bounds" else "clim")
    v["attrs"][attr] = b
    F["vars"].append(var(b, v["dims"] + [nv], "f"))
    return b


def gen_grid(rng, rich=None):
    """A gridded dataset: 1-3 data variables on (time?, z?, y, x) with every non-DSG reference kind."""
    F = dict(globals={"Conventions": "CF-1.11"}, dims=[], vars=[])
    rich = rng.random() < 0.7 if rich is None else rich
    names = ["time", "z", "y", "x"]
    use = [d for d in names if d in ("y", "x") or rng.random() < 0.6]
    if rng.random() < 0.15:
        use = [d for d in use if d != "y"]
    sizes = {d: rng.choice([2, 3, 4]) for d in use}
    for d in use:
        F["dims"].append([d, sizes[d]])
    std = {"time": ("time", "days since 2000-01-01"), "z": ("atmosphere_hybrid_height_coordinate", "m"),
           "y": ("grid_latitude", "degrees"), "x": ("grid_longitude", "degrees")}
    coordvars = []
    for d in use:
        if rng.random() < 0.85:
            F["vars"].append(var(d, [d], "f", standard_name=std[d][0], units=std[d][1]))
            coordvars.append(d)
            r = rng.random()
            if r < 0.45:
                _bounds_of(F, d)
            elif d == "time" and r < 0.6:
                _bounds_of(F, d, attr="climatology")
    ndata = rng.choice([1, 2, 2, 3])
    datavars = []
    for k in range(ndata):
        dd = list(use)
        if k > 0 and len(dd) > 2 and rng.random() < 0.6:
            dd = dd[1:]
        if rng.random() < 0.2 and len(dd) > 1:
            rng.shuffle(dd)
        name = ["ta", "ua", "q"][k]
        F["vars"].append(var(name, dd, "f", standard_name=["air_temperature", "eastward_wind", "specific_humidity"][k], units="K"))
        datavars.append(name)
    # auxiliary coordinates
    auxs = []
    if "y" in use and "x" in use and rng.random() < (0.8 if rich else 0.3):
        for n, sn, u in (("lat", "latitude", "degrees_north"), ("lon", "longitude", "degrees_east")):
            F["vars"].append(var(n, ["y", "x"], "f", standard_name=sn, units=u))
            auxs.append(n)
            if rng.random() < 0.4:
                if not any(d == "nv4" for d, _ in F["dims"]):
                    F["dims"].append(["nv4", 4])
                F["vars"].append(var(n + "_bnds", ["y", "x", "nv4"], "f"))
                get_var(F, n)["attrs"]["bounds"] = n + "_bnds"
    if len(use) > 2 and rng.random() < 0.6:
        # a coordinate on the leading dimension: foreign to a data variable that does not span it
        F["vars"].append(var("tau", [use[0]], "f", long_name="leading aux",
                             units="days since 2000-01-01" if use[0] == "time" else "1"))
        auxs.append("tau")
    if rng.random() < (0.6 if rich else 0.2):
        d = rng.choice(use)
        if rng.random() < 0.5:
            F["vars"].append(var("label", [d], "s", long_name="labels"))
        else:
            F["dims"].append(["strlen", 4])
            F["vars"].append(var("label", [d, "strlen"], "c", long_name="labels"))
        auxs.append("label")
    scalars = []
    if rng.random() < (0.6 if rich else 0.2):
        F["vars"].append(var("height", [], "f", standard_name="height", units="m"))
        scalars.append("height")
        if rng.random() < 0.3:
            if not any(d == "bnds" for d, _ in F["dims"]):
                F["dims"].append(["bnds", 2])
            F["vars"].append(var("height_bnds", ["bnds"], "f"))
            get_var(F, "height")["attrs"]["bounds"] = "height_bnds"
    if rng.random() < (0.4 if rich else 0.1):
        if not any(d == "strlen" for d, _ in F["dims"]):
            F["dims"].append(["strlen", 4])
        F["vars"].append(var("site", ["strlen"], "c", long_name="site name"))
        scalars.append("site")
    # formula terms on z
    if "z" in coordvars and rng.random() < (0.7 if rich else 0.2):
        zv = get_var(F, "z")
        terms = [("a", "a_z", ["z"]), ("b", "b_z", ["z"])]
        horiz = [d for d in ("y", "x") if d in use]
        terms.append(("orog", "orog", horiz))
        if rng.random() < 0.3:
            terms = terms[:2]
        zv["attrs"]["formula_terms"] = join(f"{t}: {n}" for t, n, _ in terms)
        zv["attrs"]["computed_standard_name"] = "altitude"
        for t, n, dd in terms:
            F["vars"].append(var(n, dd, "f", long_name="term " + t))
        if "bounds" in zv["attrs"]:
            if True:
                bt = []
                for t, n, dd in terms:
                    if "z" in dd:
                        F["vars"].append(var(n + "_bnds", dd + ["bnds"], "f"))
                        bt.append(f"{t}: {n}_bnds")
                    else:
                        bt.append(f"{t}: {n}")
                get_var(F, "z_bnds")["attrs"]["formula_terms"] = join(bt)
    # grid mapping
    gms = []
    if "y" in coordvars and "x" in coordvars and rng.random() < (0.7 if rich else 0.2):
        F["vars"].append(var("rotated_pole", [], "i", grid_mapping_name="rotated_latitude_longitude",
                             grid_north_pole_latitude=38.0, grid_north_pole_longitude=190.0))
        gms.append("rotated_pole")
        if auxs[:2] == ["lat", "lon"] and rng.random() < 0.5:
            F["vars"].append(var("crs", [], "i", grid_mapping_name="latitude_longitude", earth_radius=6371007.0))
            gms.append("crs")
    # cell measures
    msrs = []
    horiz = [d for d in ("y", "x") if d in use]
    if rng.random() < (0.6 if rich else 0.2):
        F["vars"].append(var("areacella", horiz, "f", units="m2", standard_name="cell_area"))
        msrs.append(("area", "areacella"))
        if rng.random() < 0.4:
            if rng.random() < 0.5:
                F["globals"]["external_variables"] = "volcello"
            else:
                F["vars"].append(var("volcello", use, "f", units="m3"))
            msrs.append(("volume", "volcello"))
    elif rng.random() < 0.15:
        F["globals"]["external_variables"] = "areacella"
        msrs.append(("area", "areacella"))
    # attach to the data variables
    for k, name in enumerate(datavars):
        v = get_var(F, name)
        dd = v["dims"]
        # (a scalar string coordinate shared by two data variables makes cfdm fail on the valid file)
        cs = [a for a in auxs if set(get_var(F, a)["dims"]) - {"strlen"} <= set(dd)] + [c for c in scalars if c != "site" or k == 0]
        if cs and (k == 0 or rng.random() < 0.7):
            rng.shuffle(cs)
            v["attrs"]["coordinates"] = join(cs)
        else:
            cs = []
        if gms and "y" in dd and "x" in dd and (k == 0 or rng.random() < 0.6):
            if len(gms) == 2 and "lat" in cs and "lon" in cs:
                v["attrs"]["grid_mapping"] = "rotated_pole: y x crs: lat lon"
            elif rng.random() < 0.4:
                v["attrs"]["grid_mapping"] = "rotated_pole: x y" if rng.random() < 0.5 else "rotated_pole: y x"
            else:
                v["attrs"]["grid_mapping"] = "rotated_pole"
        ms = [(m, n) for m, n in msrs if get_var(F, n) is None or set(get_var(F, n)["dims"]) <= set(dd)]
        if ms and (k == 0 or rng.random() < 0.6):
            v["attrs"]["cell_measures"] = join(f"{m}: {n}" for m, n in ms)
        if rng.random() < (0.6 if rich else 0.25):
            nanc = rng.choice([1, 1, 2])
            ancs = []
            for j in range(nanc):
                an = f"{name}_anc{j}"
                ad = dd if rng.random() < 0.6 else dd[-1:]
                F["vars"].append(var(an, ad, "f", standard_name="air_temperature standard_error"))
                ancs.append(an)
            v["attrs"]["ancillary_variables"] = join(ancs)
        if rng.random() < (0.7 if rich else 0.3):
            cms = []
            for d in rng.sample(dd, rng.randint(1, min(2, len(dd)))):
                s = f"{d}: {rng.choice(['mean', 'maximum', 'point', 'sum'])}"
                r = rng.random()
                if r < 0.2:
                    s += " (interval: 1 hr)"
                elif r < 0.3:
                    s += " where land"
                elif r < 0.4 and d == "time":
                    s += " within days"
                elif r < 0.5:
                    s += " (interval: 1 hr comment: sampled)"
                elif r < 0.55:
                    s += " (just words)"
                cms.append(s)
            if "height" in cs and rng.random() < 0.3:
                cms.append("height: point")
            if rng.random() < 0.2:
                cms.append("area: mean")
            v["attrs"]["cell_methods"] = join(cms)
    if len(datavars) > 1 and rng.random() < 0.35:
        # the other creation order: the data variables in reverse file order
        dv = [get_var(F, n) for n in datavars]
        pos = [F["vars"].index(x) for x in dv]
        for p_, x in zip(pos, reversed(dv)):
            F["vars"][p_] = x
    return F


def gen_dsg(rng, flavour=None):
    """Discrete sampling geometry: contiguous, indexed or indexed contiguous ragged arrays."""
    flavour = flavour or rng.choice(["contiguous", "indexed", "both"])
    F = dict(globals={"Conventions": "CF-1.11", "featureType": "timeSeries"}, dims=[], vars=[])
    if flavour == "contiguous":
        counts = [rng.randint(1, 3) for _ in range(rng.randint(2, 3))]
        nst, nobs = len(counts), sum(counts)
        F["dims"] += [["station", nst], ["obs", nobs]]
        F["vars"].append(var("row_size", ["station"], "i", data=counts, long_name="count", sample_dimension="obs"))
    elif flavour == "indexed":
        nst = rng.randint(2, 3)
        index = list(range(nst)) + [rng.randrange(nst) for _ in range(rng.randint(0, 3))]
        rng.shuffle(index)
        nobs = len(index)
        F["dims"] += [["station", nst], ["obs", nobs]]
        F["vars"].append(var("stn_index", ["obs"], "i", data=index, long_name="index", instance_dimension="station"))
    else:
        F["globals"]["featureType"] = "timeSeriesProfile"
        nst = 2
        prof_station = [0, 1, 0] if rng.random() < 0.5 else [1, 0, 1, 0]
        nprof = len(prof_station)
        counts = [rng.randint(1, 2) for _ in range(nprof)]
        nobs = sum(counts)
        F["dims"] += [["station", nst], ["profile", nprof], ["obs", nobs]]
        F["vars"].append(var("station_index", ["profile"], "i", data=prof_station, long_name="index", instance_dimension="station"))
        F["vars"].append(var("row_size", ["profile"], "i", data=counts, long_name="count", sample_dimension="obs"))
        F["vars"].append(var("ptime", ["profile"], "f", standard_name="time", units="days since 2000-01-01"))
    F["vars"].append(var("lat", ["station"], "f", standard_name="latitude", units="degrees_north"))
    F["vars"].append(var("lon", ["station"], "f", standard_name="longitude", units="degrees_east"))
    cs = ["lat", "lon"]
    if rng.random() < 0.6:
        F["vars"].append(var("station_name", ["station"], "s", cf_role="timeseries_id", long_name="name"))
        cs.append("station_name")
    tname = "time" if flavour != "both" else "z"
    F["vars"].append(var(tname, ["obs"], "f", standard_name="time" if tname == "time" else "altitude",
                         units="days since 2000-01-01" if tname == "time" else "m"))
    cs.append(tname)
    if flavour == "both":
        cs.append("ptime")
    if rng.random() < 0.4:
        _bounds_of(F, tname)
    for k in range(rng.choice([1, 2])):
        name = ["temp", "humidity"][k]
        c2 = list(cs)
        rng.shuffle(c2)
        v = var(name, ["obs"], "f", standard_name="air_temperature", units="K", coordinates=join(c2))
        if rng.random() < 0.4:
            v["attrs"]["cell_methods"] = f"{tname}: mean"
        if rng.random() < 0.4:
            F["vars"].append(var(name + "_q", ["obs"], "f", long_name="quality"))
            v["attrs"]["ancillary_variables"] = name + "_q"
        F["vars"].append(v)
    return F


def gen_gathered(rng):
    F = dict(globals={"Conventions": "CF-1.11"}, dims=[], vars=[])
    ny, nx = rng.choice([2, 3]), rng.choice([2, 3])
    nt = rng.choice([1, 2])
    pts = sorted(rng.sample(range(ny * nx), rng.randint(2, ny * nx - 1)))
    F["dims"] += [["time", nt], ["lat", ny], ["lon", nx], ["landpoint", len(pts)]]
    F["vars"].append(var("time", ["time"], "f", standard_name="time", units="days since 2000-01-01"))
    F["vars"].append(var("lat", ["lat"], "f", standard_name="latitude", units="degrees_north"))
    F["vars"].append(var("lon", ["lon"], "f", standard_name="longitude", units="degrees_east"))
    F["vars"].append(var("landpoint", ["landpoint"], "i", data=pts, compress="lat lon"))
    v = var("soil", ["time", "landpoint"], "f", standard_name="soil_temperature", units="K")
    if rng.random() < 0.5:
        F["vars"].append(var("height", [], "f", standard_name="height", units="m"))
        v["attrs"]["coordinates"] = "height"
    if rng.random() < 0.5:
        v["attrs"]["cell_methods"] = "time: mean"
    if rng.random() < 0.4:
        F["vars"].append(var("soil_q", ["time", "landpoint"], "f", long_name="quality"))
        v["attrs"]["ancillary_variables"] = "soil_q"
    F["vars"].append(v)
    return F


def gen_geometry(rng):
    F = dict(globals={"Conventions": "CF-1.11"}, dims=[], vars=[])
    gtype = rng.choice(["point", "line", "polygon", "polygon"])
    ncells = rng.randint(2, 3)
    if gtype == "point":
        # half of the point geometries have one node per cell (then node_count may be left out)
        cells = [[1] for _ in range(ncells)] if rng.random() < 0.5 else [[rng.randint(1, 2)] for _ in range(ncells)]
    else:
        cells = [[rng.randint(2, 3) for _ in range(rng.randint(1, 2))] for _ in range(ncells)]
    multi = any(len(c) > 1 for c in cells)
    use_pnc = multi or (gtype != "point" and rng.random() < 0.3)
    use_ring = gtype == "polygon" and use_pnc and rng.random() < 0.6
    nnodes = sum(sum(c) for c in cells)
    nparts = sum(len(c) for c in cells)
    nt = rng.choice([1, 2])
    F["dims"] += [["instance", ncells], ["time", nt], ["node", nnodes]]
    if use_pnc:
        F["dims"].append(["part", nparts])
    F["vars"].append(var("time", ["time"], "f", standard_name="time", units="days since 2000-01-01"))
    g = var("geometry_container", [], "i", geometry_type=gtype, node_coordinates="x y")
    if not (gtype == "point" and all(c == [1] for c in cells) and rng.random() < 0.5):
        g["attrs"]["node_count"] = "node_count"
        F["vars"].append(var("node_count", ["instance"], "i", data=[sum(c) for c in cells], long_name="node counts"))
    else:
        # one node per cell: the node dimension is the instance dimension
        F["dims"] = [d for d in F["dims"] if d[0] != "node"]
    ndim = "node" if "node_count" in g["attrs"] else "instance"
    if use_pnc:
        g["attrs"]["part_node_count"] = "part_node_count"
        F["vars"].append(var("part_node_count", ["part"], "i", data=[n for c in cells for n in c]))
    if use_ring:
        g["attrs"]["interior_ring"] = "interior_ring"
        F["vars"].append(var("interior_ring", ["part"], "i", data=[0 if j == 0 else 1 for c in cells for j, _ in enumerate(c)]))
    F["vars"].append(var("x", [ndim], "f", units="degrees_east", standard_name="longitude", axis="X"))
    F["vars"].append(var("y", [ndim], "f", units="degrees_north", standard_name="latitude", axis="Y"))
    cs = []
    if rng.random() < 0.6:
        F["vars"].append(var("lon", ["instance"], "f", units="degrees_east", standard_name="longitude", nodes="x"))
        F["vars"].append(var("lat", ["instance"], "f", units="degrees_north", standard_name="latitude", nodes="y"))
        cs += ["lat", "lon"]
    if rng.random() < 0.4:
        F["vars"].append(var("crs", [], "i", grid_mapping_name="latitude_longitude", earth_radius=6371007.0))
        g["attrs"]["grid_mapping"] = "crs"
    F["vars"].append(g)
    if rng.random() < 0.4:
        # a domain variable (CF>=1.9): no netCDF dimensions, they are named by its `dimensions` attribute
        dom = var("dom", [], "i", dimensions="instance time" if rng.random() < 0.5 else "instance",
                  geometry="geometry_container", long_name="a domain")
        if cs:
            dom["attrs"]["coordinates"] = join(cs)
        if rng.random() < 0.5:
            F["vars"].append(dom)
        else:
            F["vars"].insert(0, dom)      # parsed before the data variables
    for k in range(rng.choice([1, 2])):
        name = ["pr", "someflux"][k]
        dd = ["instance", "time"] if rng.random() < 0.7 else ["time", "instance"]
        v = var(name, dd, "f", standard_name="precipitation_amount", units="kg m-2", geometry="geometry_container")
        if cs:
            v["attrs"]["coordinates"] = join(cs)
        if "grid_mapping" in g["attrs"]:
            v["attrs"]["grid_mapping"] = "crs"
        if rng.random() < 0.4:
            v["attrs"]["cell_methods"] = "time: sum"
        F["vars"].append(v)
    return F


TEMPLATES = ("grid", "grid", "grid", "dsg", "dsg", "gathered", "geometry", "geometry")


def gen_file(rng, template=None):
    t = template or rng.choice(TEMPLATES)
    if t == "grid":
        return t, gen_grid(rng)
    if t == "dsg":
        return t, gen_dsg(rng)
    if t == "gathered":
        return t, gen_gathered(rng)
    if t == "geometry":
        return t, gen_geometry(rng)
    raise ValueError(t)


def digest(F):
    import json
    return hashlib.sha1(json.dumps(F, sort_keys=True, default=str).encode()).hexdigest()[:12]
