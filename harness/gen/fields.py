"""Seeded generator of valid cfdm Field/Domain constructs built through the public API.

`random_field(rng, **features)` returns a cfdm.Field.  Every random choice comes
from `rng` (a random.Random) so cases replay exactly from (seed, index).
Shared by the file-level properties (C01, C08, C09, C10, C12, C13, C17).
"""
import numpy as np

_cfdm = None


def cfdm():
    global _cfdm
    if _cfdm is None:
        import cfdm as m
        _cfdm = m
    return _cfdm


STD_1D = [
    ("latitude", "degrees_north"),
    ("longitude", "degrees_east"),
    ("time", "days since 2000-01-01"),
    ("height", "m"),
    ("air_pressure", "hPa"),
    ("grid_latitude", "degrees"),
    ("grid_longitude", "degrees"),
]
FIELD_NAMES = [("air_temperature", "K"), ("specific_humidity", "1"), ("eastward_wind", "m s-1"),
               ("precipitation_flux", "kg m-2 s-1"), ("surface_altitude", "m")]
DTYPES = ["f8", "f4", "i4", "i2", "i8", "i1", "u1", "u2", "u4"]


def _values(rng, shape, dtype, monotonic=False, lo=0):
    n = int(np.prod(shape)) if shape else 1
    if monotonic:
        step = rng.choice([1, 2, 5])
        a = lo + np.arange(n) * step
        if rng.random() < 0.3:
            a = a[::-1]
    else:
        a = np.array([rng.randint(0, 100) for _ in range(n)])
    a = a.reshape(shape).astype(dtype)
    return a


def _data(rng, shape, dtype=None, masked_p=0.0, monotonic=False, units=None, lo=0):
    C = cfdm()
    dtype = dtype or rng.choice(DTYPES[:4])
    a = _values(rng, shape, dtype, monotonic, lo)
    if masked_p and rng.random() < masked_p and a.size > 1:
        m = np.zeros(a.shape, dtype=bool)
        for _ in range(rng.randint(1, max(1, a.size // 3))):
            m[tuple(rng.randrange(s) for s in a.shape)] = True
        a = np.ma.array(a, mask=m)
    d = C.Data(a, units=units) if units else C.Data(a)
    return d


def _bounds(rng, coord_data, nv=2):
    C = cfdm()
    a = np.asarray(coord_data.array, dtype="f8")
    b = np.empty(a.shape + (nv,), dtype="f8")
    for k in range(nv):
        b[..., k] = a - 0.5 + k / max(1, nv - 1)
    bb = C.Bounds(data=C.Data(b))
    return bb


def random_field(rng, max_axes=4, domain=False, allow=("dim", "aux", "aux2d", "scalar", "msr", "fan", "cm", "gm", "ft",
                                                        "bounds", "names", "unlimited", "mask", "vecprop", "string", "dan"),
                 dtype=None):
    """A random valid field (or domain)."""
    C = cfdm()
    allow = set(allow)
    f = C.Field()
    name, units = rng.choice(FIELD_NAMES)
    f.set_property("standard_name", name)
    f.set_property("units", units)
    if rng.random() < 0.5:
        f.set_property("long_name", f"field {rng.randint(0, 99)}")
    if "vecprop" in allow and rng.random() < 0.3:
        f.set_property("flag_values", np.array([1, 2, 4], dtype="i4"))
        f.set_property("flag_meanings", "a b c")
    if rng.random() < 0.4:
        f.set_property("project", rng.choice(["research", "ops"]))
    if "names" in allow and rng.random() < 0.5:
        f.nc_set_variable(rng.choice(["ta", "q", "ua", "var", "data_1"]))

    naxes = rng.randint(0 if rng.random() < 0.1 else 1, max_axes)
    # the data axes, plus possibly some size-1 axes not spanned by the data
    sizes = [rng.choice([1, 2, 3, 4, 5]) for _ in range(naxes)]
    extra = [1] * (rng.randint(0, 2) if "scalar" in allow else 0)
    axes = []
    for i, n in enumerate(sizes + extra):
        da = C.DomainAxis(n)
        if "names" in allow and rng.random() < 0.4:
            da.nc_set_dimension(rng.choice(["x", "y", "z", "t", "lat", "lon"]) + str(i))
        if "unlimited" in allow and i == 0 and n > 1 and rng.random() < 0.2:
            da.nc_set_unlimited(True)
        axes.append(f.set_construct(da))
    data_axes = axes[:naxes]
    if rng.random() < 0.3 and len(data_axes) > 1:
        rng.shuffle(data_axes)
    dshape = [f.domain_axes(todict=True)[a].get_size() for a in data_axes]
    f.set_data(_data(rng, dshape, dtype or rng.choice(DTYPES), masked_p=0.4 if "mask" in allow else 0), axes=data_axes)

    # dimension coordinates
    used = rng.sample(STD_1D, len(STD_1D))
    dimc = {}
    if "dim" in allow:
        for i, a in enumerate(axes):
            if rng.random() < 0.75:
                n = f.domain_axes(todict=True)[a].get_size()
                sname, u = used[i % len(used)]
                c = C.DimensionCoordinate(properties={"standard_name": sname, "units": u})
                c.set_data(_data(rng, [n], "f8", monotonic=True, lo=10 * i))
                if "bounds" in allow and rng.random() < 0.5:
                    c.set_bounds(_bounds(rng, c.data))
                    if "names" in allow and rng.random() < 0.3:
                        c.bounds.nc_set_variable(f"{sname}_bnds")
                if "names" in allow and rng.random() < 0.4:
                    c.nc_set_variable(sname[:3] + str(i))
                dimc[a] = f.set_construct(c, axes=[a])
    # auxiliary coordinates
    auxk = []
    if "aux" in allow:
        for _ in range(rng.randint(0, 2)):
            multi = [a for a in axes if f.domain_axes(todict=True)[a].get_size() > 1 and a in data_axes]
            if not multi:
                break
            nd = 2 if ("aux2d" in allow and len(multi) >= 2 and rng.random() < 0.5) else 1
            ax = rng.sample(multi, nd)
            shp = [f.domain_axes(todict=True)[a].get_size() for a in ax]
            c = C.AuxiliaryCoordinate(properties={"long_name": f"aux {len(auxk)}", "units": "1"})
            if "string" in allow and nd == 1 and rng.random() < 0.3:
                c.set_data(C.Data(np.array([f"s{k}" for k in range(shp[0])])))
                c.del_property("units")
            else:
                c.set_data(_data(rng, shp, "f8", masked_p=0.2 if "mask" in allow else 0))
                if "bounds" in allow and rng.random() < 0.3:
                    c.set_bounds(_bounds(rng, c.data, nv=rng.choice([2, 4])))
            if "names" in allow and rng.random() < 0.4:
                c.nc_set_variable(f"aux{len(auxk)}")
            auxk.append(f.set_construct(c, axes=ax))
    # scalar (size-1, not in data) auxiliary string coordinate
    # (a size-1 axis that no construct and no data spans cannot be encoded in CF-netCDF: give each one a coordinate)
    if "scalar" in allow:
        for i, a in enumerate(axes[naxes:]):
            if a in dimc:
                continue
            if rng.random() < 0.5 and "string" in allow:
                c = C.AuxiliaryCoordinate(properties={"long_name": "station"})
                c.set_data(C.Data(np.array(["alpha"])))
                auxk.append(f.set_construct(c, axes=[a]))
            else:
                sname, u = used[(naxes + i) % len(used)]
                c = C.DimensionCoordinate(properties={"standard_name": sname, "units": u})
                c.set_data(_data(rng, [1], "f8", monotonic=True, lo=7))
                dimc[a] = f.set_construct(c, axes=[a])
    # cell measures
    if "msr" in allow and rng.random() < 0.35:
        multi = [a for a in data_axes if f.domain_axes(todict=True)[a].get_size() > 1]
        if multi:
            ax = rng.sample(multi, min(len(multi), rng.randint(1, 2)))
            shp = [f.domain_axes(todict=True)[a].get_size() for a in ax]
            c = C.CellMeasure(measure=rng.choice(["area", "volume"]), properties={"units": "km2"})
            c.set_data(_data(rng, shp, "f8"))
            f.set_construct(c, axes=ax)
    # field ancillaries
    if "fan" in allow and rng.random() < 0.35 and data_axes:
        ax = list(data_axes[rng.randint(0, len(data_axes) - 1):])
        shp = [f.domain_axes(todict=True)[a].get_size() for a in ax]
        c = C.FieldAncillary(properties={"standard_name": f"{name} standard_error", "units": units})
        c.set_data(_data(rng, shp, "f8"))
        f.set_construct(c, axes=ax)
    # cell methods
    if "cm" in allow and axes and rng.random() < 0.5:
        for _ in range(rng.randint(1, 2)):
            ax = rng.sample(axes, 1)
            cm = C.CellMethod(axes=ax, method=rng.choice(["mean", "maximum", "point", "sum"]))
            if rng.random() < 0.3:
                cm.set_qualifier("interval", [C.Data(1, "hour")])
            if rng.random() < 0.2:
                cm.set_qualifier("where", "land")
            f.set_construct(cm)
        if rng.random() < 0.2:
            f.set_construct(C.CellMethod(axes=["area"], method="mean"))
    # grid mapping: needs two dimension coordinates
    if "gm" in allow and len(dimc) >= 2 and rng.random() < 0.4:
        ks = rng.sample(sorted(dimc.values()), 2)
        ref = C.CoordinateReference(
            coordinates=ks + (auxk[:1] if auxk and rng.random() < 0.5 else []),
            coordinate_conversion=C.CoordinateConversion(parameters={
                "grid_mapping_name": "rotated_latitude_longitude",
                "grid_north_pole_latitude": 38.0, "grid_north_pole_longitude": 190.0}),
            datum=C.Datum(parameters={"earth_radius": 6371007.0}) if rng.random() < 0.6 else None,
        )
        if "names" in allow and rng.random() < 0.5:
            ref.nc_set_variable("rotated_pole")
        f.set_construct(ref)
    # formula terms: a parametric vertical coordinate on a size>=1 axis with a dimension coordinate
    if "ft" in allow and "dan" in allow and dimc and rng.random() < 0.3:
        a = rng.choice(sorted(dimc))
        n = f.domain_axes(todict=True)[a].get_size()
        zc = f.constructs[dimc[a]]
        zc.set_property("standard_name", "atmosphere_hybrid_height_coordinate")
        zc.set_property("units", "m")
        zc.del_property("computed_standard_name", None)
        da_a = C.DomainAncillary(properties={"units": "m"})
        da_a.set_data(_data(rng, [n], "f8"))
        da_b = C.DomainAncillary()
        da_b.set_data(_data(rng, [n], "f8"))
        ka = f.set_construct(da_a, axes=[a])
        kb = f.set_construct(da_b, axes=[a])
        terms = {"a": ka, "b": kb, "orog": None}
        others = [x for x in data_axes if x != a and f.domain_axes(todict=True)[x].get_size() > 1]
        if others:
            ox = others[:2]
            oshp = [f.domain_axes(todict=True)[x].get_size() for x in ox]
            da_o = C.DomainAncillary(properties={"standard_name": "surface_altitude", "units": "m"})
            da_o.set_data(_data(rng, oshp, "f8"))
            terms["orog"] = f.set_construct(da_o, axes=ox)
        ref = C.CoordinateReference(
            coordinates=[dimc[a]],
            coordinate_conversion=C.CoordinateConversion(
                parameters={"standard_name": "atmosphere_hybrid_height_coordinate", "computed_standard_name": "altitude"},
                domain_ancillaries=terms),
            datum=C.Datum(parameters={"earth_radius": 6371007.0}) if rng.random() < 0.3 else None,
        )
        f.set_construct(ref)
    if domain:
        return f.domain.copy()
    return f


def example(i):
    return cfdm().example_field(i)


def field_pool(rng, n, **kw):
    """A mixed pool: example fields (where cheap) and random fields."""
    out = []
    for _ in range(n):
        if rng.random() < 0.2:
            out.append(example(rng.choice([0, 1, 2, 3, 5, 6, 7])))
        else:
            out.append(random_field(rng, **kw))
    return out
