"""Observable-state fingerprint of ANY cfdm object, through public accessors only.

Extension of harness/fingerprint.py (which is key-independent and field-centred)
for C04: the fingerprint here is compared between *the same object before and
after* an operation on another object (or with inplace=False), so construct keys
are kept, and every class in C04's scope is covered:

  properties; data values + mask + dtype + shape + units/calendar/fill value;
  bounds, interior ring, geometry, climatology, node counts; cell measure /
  topology / connectivity attributes; parameters, domain ancillary terms,
  coordinates, datum and conversion of coordinate references; axes, method and
  qualifiers of cell methods; sizes of domain axes; construct membership
  (key -> type, data axes, fingerprint of the construct), field data axes;
  every netCDF name/attribute/group/chunking accessor; compression variables
  (count / index / list, tie point indices, interpolation parameters) and the
  compressed array of compressed data; array-class components.

How: explicit sections for data plus a *reflective scan* of all public
zero-argument reader methods (name patterns below), so an accessor added to
cfdm later is fingerprinted automatically.  Never looks at private attributes:
lazily cached values, file handles and the realisation state of lazy data are
not observable state.
"""
import hashlib
import inspect
import json
import re

import numpy as np

from .gen import fields as genfields

READER = re.compile(
    r"^(get_|has_|is_|nc_get_|nc_has_|nc_is_)|"
    r"^(properties|parameters|qualifiers|coordinates|domain_ancillaries|data_axes|compressed_dimensions|"
    r"nc_global_attributes|nc_group_attributes|nc_hdf5_chunksizes|nc_dimension_groups|nc_variable_groups|"
    r"nc_sample_dimension_groups|nc_geometry_variable_groups|nc_unlimited_axes|nc_unlimited_dimensions|"
    r"nc_subsampled_dimension_groups|nc_interpolation_subarea_dimension_groups|nc_node_coordinate_variable_groups|"
    r"dataset_compliance|filters_applied|construct_types|source|get_original_filenames|get_filenames)$"
)
# readers that are not state (classes / bulky derived views / need the other half of the API)
SKIP = {
    "get_Subarray", "get_filter", "get_data", "get_bounds", "get_interior_ring", "get_construct", "get_subarray_shapes",
    "get_bounds_data", "get_array", "get_compressed_axes", "get_storage_options", "get_addresses", "get_address",
    "get_groups", "get_format", "get_filename", "get_mask", "get_unpack", "is_subspace", "get_missing_values",
    "has_construct", "get_Array",
}
MAX_DEPTH = 7


def _h(b):
    return hashlib.sha1(b).hexdigest()[:16]


def fp_array(a):
    try:
        import scipy.sparse as sp
        if sp.issparse(a):
            a = a.toarray()
    except Exception:
        pass
    a = np.ma.asanyarray(a)
    mask = np.ma.getmaskarray(a)
    data = np.ma.getdata(a)
    if data.dtype.kind in "fiub":
        filled = np.where(mask, 0, data)
        vb = np.ascontiguousarray(filled).tobytes()
        dt = str(data.dtype)
    elif data.dtype.kind == "O":
        vb = "\x00".join("" if m else repr(v) for v, m in zip(data.flatten().tolist(), mask.flatten().tolist())).encode()
        dt = "object"
    else:
        filled = np.where(mask, "", data.astype(str))
        vb = "\x00".join(filled.flatten().tolist()).encode()
        dt = "str"
    return ["array", dt, list(a.shape), _h(vb), _h(np.ascontiguousarray(mask).tobytes())]


def canon(v, depth=0):
    C = genfields.cfdm()
    if v is None or isinstance(v, (bool, int, str)):
        return v
    if isinstance(v, float):
        return "nan" if v != v else repr(v)
    if isinstance(v, np.generic):
        return ["np", str(np.asarray(v).dtype), canon(v.item(), depth)]
    if isinstance(v, np.ndarray):
        return fp_array(v)
    if isinstance(v, dict):
        return ["dict", sorted(([str(k), canon(x, depth + 1)] for k, x in v.items()), key=lambda t: t[0])]
    if isinstance(v, (list, tuple)):
        return [canon(x, depth + 1) for x in v]
    if isinstance(v, (set, frozenset)):
        return ["set", sorted((canon(x, depth + 1) for x in v), key=lambda t: json.dumps(t, sort_keys=True, default=str))]
    if isinstance(v, C.core.abstract.Container) or isinstance(v, C.Constructs):
        if depth > MAX_DEPTH:
            return ["deep", type(v).__name__]
        return fp(v, depth + 1)
    if inspect.isclass(v):
        return ["class", v.__name__]
    try:
        import scipy.sparse as sp
        if sp.issparse(v):
            return fp_array(v)
    except Exception:
        pass
    return ["repr", type(v).__name__, repr(v)[:200]]


def _call_reader(x, name):
    fn = getattr(x, name, None)
    if fn is None or not callable(fn):
        return None
    try:
        from .methods_C04 import sig_of
        sig = sig_of(fn)
    except (TypeError, ValueError):
        return None
    kw = {}
    for pn, p in sig.parameters.items():
        if pn == "default":
            kw["default"] = None
        elif p.default is inspect._empty and p.kind in (p.POSITIONAL_OR_KEYWORD, p.POSITIONAL_ONLY):
            return None
    try:
        return ("ok", fn(**kw))
    except Exception as e:
        return ("raised", type(e).__name__)


_reader_names = {}


def reader_names(x):
    k = type(x)
    if k not in _reader_names:
        names = []
        for n in dir(k):
            if n.startswith("_") or n in SKIP or not READER.search(n):
                continue
            if isinstance(inspect.getattr_static(k, n), property):
                continue
            names.append(n)
        _reader_names[k] = names
    return _reader_names[k]


def fp_data(d, depth=0):
    out = {"kind": type(d).__name__}
    try:
        out["array"] = fp_array(d.array)
    except Exception as e:
        out["array"] = ["raised", type(e).__name__]
    try:
        out["dtype"] = str(d.dtype)
        out["shape"] = [repr(s) for s in d.shape]
    except Exception as e:
        out["shape"] = ["raised", type(e).__name__]
    if d.get_compression_type():
        try:
            out["compressed_array"] = fp_array(d.compressed_array)
        except Exception as e:
            out["compressed_array"] = ["raised", type(e).__name__]
    return out


def fp(x, depth=0):
    """JSON-able canonical structure of the observable state of x."""
    C = genfields.cfdm()
    out = {"class": type(x).__name__}
    if isinstance(x, C.Constructs):
        try:
            axes = x.data_axes()
        except Exception:
            axes = {}
        items = {}
        for k, c in x.todict().items():
            items[k] = [x.construct_type(k), list(axes.get(k, ())) if k in axes else None, fp(c, depth + 1)]
        out["constructs"] = ["dict", sorted(([k, v] for k, v in items.items()), key=lambda t: t[0])]
        return out
    if isinstance(x, C.core.Data):
        out.update(fp_data(x, depth))
    elif isinstance(x, C.core.Array) or hasattr(x, "__array__") and not hasattr(x, "get_data"):
        try:
            out["array"] = fp_array(x.array if not hasattr(x, "sparse_array") else x.array)
            out["shape"] = [repr(s) for s in x.shape]
            out["dtype"] = str(x.dtype)
        except Exception as e:
            out["array"] = ["raised", type(e).__name__]
    # live nested components reached through the documented accessors
    for name in ("get_data", "get_bounds", "get_interior_ring"):
        if name == "get_data" and isinstance(x, C.core.Data):
            continue
        fn = getattr(x, name, None)
        if fn is None:
            continue
        try:
            v = fn(None)
        except Exception as e:
            out[name] = ["raised", type(e).__name__]
            continue
        out[name] = None if v is None else (fp(v, depth + 1) if depth <= MAX_DEPTH else "deep")
    if hasattr(x, "constructs") and hasattr(x, "domain_axes"):
        out["constructs"] = fp(x.constructs, depth + 1)
    for n in reader_names(x):
        r = _call_reader(x, n)
        if r is None:
            continue
        out[n] = [r[0], canon(r[1], depth + 1)] if r[0] == "ok" else list(r)
    return out


def fp_str(x):
    return json.dumps(fp(x), sort_keys=True, default=str)


def fp_hash(x):
    return _h(fp_str(x).encode())


def diff(a, b, path="", out=None, limit=6):
    """First few paths at which two fingerprints (structures) differ."""
    if out is None:
        out = []
    if len(out) >= limit:
        return out
    if type(a) != type(b):
        out.append(f"{path}: {str(a)[:70]} != {str(b)[:70]}")
    elif isinstance(a, dict):
        for k in sorted(set(a) | set(b)):
            if k not in a or k not in b:
                out.append(f"{path}/{k}: only on one side")
            else:
                diff(a[k], b[k], f"{path}/{k}", out, limit)
    elif isinstance(a, list):
        if len(a) != len(b):
            out.append(f"{path}: lengths {len(a)} != {len(b)}: {str(a)[:60]} != {str(b)[:60]}")
        else:
            for i, (p, q) in enumerate(zip(a, b)):
                diff(p, q, f"{path}[{i}]", out, limit)
    elif a != b:
        out.append(f"{path}: {str(a)[:70]} != {str(b)[:70]}")
    return out[:limit]


# --------------------------------------------------------------------------- nested components (effective coverage)
_COMPONENT_TOKENS = [
    ("get_interior_ring", "interior_ring"), ("get_bounds", "bounds"), ("get_count", "count"), ("get_index", "index"),
    ("get_list", "list"), ("get_tie_point_indices", "tie_point_indices"),
    ("get_interpolation_parameters", "interpolation_parameters"), ("get_dependent_tie_points", "dependent_tie_points"),
    ("get_node_count", "node_count"), ("get_part_node_count", "part_node_count"), ("constructs", "constructs"),
    ("get_datum", "datum"), ("get_coordinate_conversion", "coordinate_conversion"),
]
_DATA_KEYS = ("array", "shape", "dtype", "compressed_array", "get_data", "source")


def _label(path):
    """component label of a fingerprint path: the nested components it passes through, then data/own"""
    toks = [t for t in path.split("/") if t]
    out = []
    for t in toks:
        base = t.split("[")[0]
        for tok, lab in _COMPONENT_TOKENS:
            if base == tok and (not out or out[-1] != lab):
                out.append(lab)
    leaf_data = any(t.split("[")[0] in _DATA_KEYS for t in toks)
    out.append("data" if leaf_data else "own")
    return ">".join(out)


def components_present(f):
    """labels of the nested components (and of their data) that the fingerprint f has values for"""
    acc = set()
    _walk_present(f, "", acc)
    return acc


def _walk_present(a, path, acc):
    if isinstance(a, dict):
        for k, v in a.items():
            if v is None or v == ["ok", None] or v == ["ok", ["dict", []]]:
                continue
            _walk_present(v, f"{path}/{k}", acc)
    elif isinstance(a, list):
        for i, v in enumerate(a):
            _walk_present(v, f"{path}[{i}]", acc)
    elif a is not None:
        acc.add(_label(path))


def components_changed(f0, f1):
    """labels of the nested components at which two fingerprints of the same object differ"""
    acc = set()
    _walk_changed(f0, f1, "", acc)
    return acc


def _walk_changed(a, b, path, acc):
    if a == b:
        return
    if isinstance(a, dict) and isinstance(b, dict):
        for k in set(a) | set(b):
            if k not in a or k not in b:
                acc.add(_label(f"{path}/{k}"))
            else:
                _walk_changed(a[k], b[k], f"{path}/{k}", acc)
    elif isinstance(a, list) and isinstance(b, list) and len(a) == len(b):
        for i, (p, q) in enumerate(zip(a, b)):
            _walk_changed(p, q, f"{path}[{i}]", acc)
    else:
        acc.add(_label(path))
