"""Structural fingerprint of cfdm objects, independent of cfdm's own `equals`.

`fingerprint(x, names=True)` returns a JSON-able canonical structure: properties,
dtype, shape, SHA-1 of the filled values and of the mask, bounds, geometry,
interior ring, and — for fields/domains — every metadata construct with the
axes it spans identified by a key-independent *axis label*, cell methods in
order, coordinate references, and (names=True) every netCDF variable/dimension
name that has been set.  Two objects that the data model regards as equal have
equal fingerprints whatever their construct keys or insertion order.
"""
import hashlib
import json

import numpy as np


def _h(b):
    return hashlib.sha1(b).hexdigest()[:16]


def _pval(v):
    if isinstance(v, np.ndarray):
        return ["array", str(v.dtype), v.tolist()]
    if isinstance(v, (np.generic,)):
        return ["scalar", str(np.asarray(v).dtype), v.item()]
    if isinstance(v, (list, tuple)):
        return ["seq", [_pval(x) for x in v]]
    if hasattr(v, "array") and hasattr(v, "Units") or type(v).__name__ == "Data":
        return ["data", fp_data(v)]
    if isinstance(v, float) and v != v:
        return "nan"
    return v


def fp_props(x):
    try:
        p = x.properties()
    except AttributeError:
        return []
    return sorted((k, json.dumps(_pval(v), sort_keys=True, default=str)) for k, v in p.items())


def fp_array(a):
    a = np.ma.asanyarray(a)
    mask = np.ma.getmaskarray(a)
    data = np.ma.getdata(a)
    if data.dtype.kind in "fiu":
        filled = np.where(mask, 0, data)
    else:
        filled = np.where(mask, "", data.astype(str))
    return dict(dtype=str(data.dtype) if data.dtype.kind not in "SUO" else "str", shape=list(a.shape),
                values=_h(np.ascontiguousarray(filled).tobytes() if filled.dtype.kind in "fiu" else "\x00".join(filled.flatten().tolist()).encode()),
                mask=_h(np.ascontiguousarray(mask).tobytes()))


def fp_data(d):
    if d is None:
        return None
    out = fp_array(d.array)
    try:
        out["units"] = d.get_units(None)
        out["calendar"] = d.get_calendar(None)
    except Exception:
        pass
    try:
        out["fill_value"] = repr(d.get_fill_value(None))
    except Exception:
        pass
    return out


def nc_names(x):
    out = {}
    for name in ("nc_get_variable", "nc_get_dimension", "nc_get_sample_dimension"):
        fn = getattr(x, name, None)
        if fn is not None:
            try:
                v = fn(None)
            except Exception:
                v = None
            if v is not None:
                out[name[7:]] = v
    fn = getattr(x, "nc_is_unlimited", None)
    if fn is not None and fn():
        out["unlimited"] = True
    return out


def fp_construct(c, names=True):
    out = dict(type=getattr(c, "construct_type", type(c).__name__), props=fp_props(c))
    if hasattr(c, "get_data"):
        out["data"] = fp_data(c.get_data(None))
    if hasattr(c, "get_bounds"):
        b = c.get_bounds(None)
        if b is not None:
            out["bounds"] = dict(props=fp_props(b), data=fp_data(b.get_data(None)))
            if names:
                out["bounds"]["nc"] = nc_names(b)
    for attr in ("get_geometry", "get_measure", "get_cell", "get_connectivity", "get_climatology"):
        fn = getattr(c, attr, None)
        if fn is not None:
            try:
                v = fn(None)
            except TypeError:
                v = fn()
            if v is not None:
                out[attr[4:]] = v
    fn = getattr(c, "get_interior_ring", None)
    if fn is not None:
        r = fn(None)
        if r is not None:
            out["interior_ring"] = fp_data(r.get_data(None))
    if hasattr(c, "nc_get_external") and c.nc_get_external():
        out["external"] = True
    if names:
        out["nc"] = nc_names(c)
    return out


def _axis_labels(f):
    """Key-independent label for each domain axis."""
    axes = f.domain_axes(todict=True)
    da = f.constructs.data_axes()
    try:
        data_axes = list(f.get_data_axes(default=()))
    except Exception:
        data_axes = []
    sig = {}
    for k, ax in axes.items():
        coords = []
        for ck, c in f.constructs.filter_by_type("dimension_coordinate", "auxiliary_coordinate", todict=True).items():
            if k in da.get(ck, ()):
                coords.append(json.dumps([c.construct_type, fp_props(c), fp_data(c.get_data(None)), list(da[ck]).index(k), len(da[ck])], sort_keys=True, default=str))
        sig[k] = json.dumps([ax.get_size(None), data_axes.index(k) if k in data_axes else -1, sorted(coords)], default=str)
    order = sorted(axes, key=lambda k: (sig[k], ))
    labels = {}
    for i, k in enumerate(order):
        labels[k] = f"A{i}"
    return labels, sig


def fingerprint(x, names=True):
    """Canonical structure for any cfdm object."""
    if hasattr(x, "constructs") and hasattr(x, "domain_axes"):
        labels, sig = _axis_labels(x)
        da = x.constructs.data_axes()
        out = dict(kind=type(x).__name__, props=fp_props(x))
        if hasattr(x, "get_data"):
            out["data"] = fp_data(x.get_data(None))
            try:
                out["data_axes"] = [labels[a] for a in x.get_data_axes(default=())]
            except Exception:
                out["data_axes"] = "?"
        out["axes"] = sorted([labels[k], a.get_size(None), nc_names(a) if names else {}] for k, a in x.domain_axes(todict=True).items())
        cons = []
        keymap = {}
        for t in ("dimension_coordinate", "auxiliary_coordinate", "cell_measure", "field_ancillary", "domain_ancillary",
                  "domain_topology", "cell_connectivity"):
            for k, c in x.constructs.filter_by_type(t, todict=True).items():
                fp = fp_construct(c, names)
                fp["axes"] = [labels[a] for a in da.get(k, ())]
                s = json.dumps(fp, sort_keys=True, default=str)
                keymap[k] = _h(s.encode())
                cons.append(s)
        out["constructs"] = sorted(cons)
        cms = []
        for k, cm in x.cell_methods(todict=True).items() if hasattr(x, "cell_methods") else []:
            cms.append(dict(axes=[labels.get(a, a) for a in cm.get_axes(())], method=cm.get_method(None),
                            quals=sorted((q, json.dumps(_pval(v), default=str)) for q, v in cm.qualifiers().items())))
        out["cell_methods"] = cms
        refs = []
        for k, r in x.coordinate_references(todict=True).items():
            cc = r.coordinate_conversion
            refs.append(json.dumps(dict(
                coords=sorted(keymap.get(c, "?" + str(c)) for c in r.coordinates()),
                params=sorted((p, json.dumps(_pval(v), default=str)) for p, v in cc.parameters().items()),
                ancils=sorted((t, keymap.get(v, None) if v is not None else None) for t, v in cc.domain_ancillaries().items()),
                datum=sorted((p, json.dumps(_pval(v), default=str)) for p, v in r.datum.parameters().items()),
                nc=nc_names(r) if names else {}), sort_keys=True, default=str))
        out["refs"] = sorted(refs)
        if names:
            out["nc"] = nc_names(x)
        return out
    if type(x).__name__ == "Data":
        return dict(kind="Data", data=fp_data(x))
    return dict(kind=type(x).__name__, **fp_construct(x, names))


def fp_str(x, names=True):
    return json.dumps(fingerprint(x, names), sort_keys=True, default=str)


def diff(a, b, path=""):
    """First few paths at which two fingerprints differ."""
    out = []
    if type(a) != type(b):
        return [f"{path}: {str(a)[:60]} != {str(b)[:60]}"]
    if isinstance(a, dict):
        for k in sorted(set(a) | set(b)):
            if k not in a or k not in b:
                out.append(f"{path}/{k}: only on one side")
            else:
                out += diff(a[k], b[k], f"{path}/{k}")
    elif isinstance(a, list):
        if len(a) != len(b):
            out.append(f"{path}: lengths {len(a)} != {len(b)}")
        else:
            for i, (x, y) in enumerate(zip(a, b)):
                out += diff(x, y, f"{path}[{i}]")
    elif a != b:
        if isinstance(a, str) and a.startswith("{") and isinstance(b, str) and b.startswith("{"):
            try:
                out += diff(json.loads(a), json.loads(b), path + "{}")
                return out[:6]
            except Exception:
                pass
        out.append(f"{path}: {str(a)[:80]} != {str(b)[:80]}")
    return out[:6]
