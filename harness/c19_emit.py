"""C19 — streams over the classes that are not containers (used by harness/corr/C19.py).

  C19.emit  Data / Properties* / coordinates / DomainAxis / CellMethod / CoordinateReference object
            x keyword variant -> the emitted statements (canonical, in order), exec outcome, equality
            (model: Cfdm.Emit + oracle)
  C19.dstr  Data object -> str() / repr()                                     (model: Cfdm.DataStr + oracle)
  C19.cstr  construct with units / calendar of any type -> str(), Data(...) line of dump
                                                                               (model + oracle)

The object is built through the public API from a seeded recipe; the protocol line is computed from
the LIVE object through public accessors only (so the model is told what the object is, not what the
recipe intended).  Strings are opaque to the model: they travel percent-encoded.
"""
import ast
import re
import textwrap

import numpy as np

from . import fw

_cfdm = None


def cfdm():
    global _cfdm
    if _cfdm is None:
        import logging
        import cfdm as m
        m.log_level("DISABLE")
        logging.disable(logging.CRITICAL)
        _cfdm = m
    return _cfdm


# =========================================================================== encoding
_SAFE = set("ABCDEFGHIJKLMNOPQRSTUVWXYZabcdefghijklmnopqrstuvwxyz0123456789_.-")


def enc(s):
    s = str(s)
    if s == "_":
        return "%5F"
    return "".join(ch if ch in _SAFE else "".join(f"%{b:02X}" for b in ch.encode("utf-8")) for ch in s)


def dec(s):
    out = bytearray()
    i = 0
    while i < len(s):
        if s[i] == "%" and i + 2 < len(s) + 0 and re.fullmatch(r"[0-9A-F]{2}", s[i + 1:i + 3] or ""):
            out.append(int(s[i + 1:i + 3], 16))
            i += 3
        else:
            out += s[i].encode("utf-8")
            i += 1
    return out.decode("utf-8", "replace")


def opt(s):
    return "_" if s is None else enc(s)


class Unsupported(Exception):
    """the object has a value the abstract model has no encoding for (a harness limitation)"""


def sc_tok(v):
    """a Python scalar (as tolist() gives it)"""
    if isinstance(v, np.generic):
        raise Unsupported("numpy scalar where a Python scalar was expected")
    if isinstance(v, str):
        return "s" + enc(v)
    if isinstance(v, float) and not np.isfinite(v):
        return "f" + enc(repr(v))
    if isinstance(v, complex) and not (np.isfinite(v.real) and np.isfinite(v.imag)):
        return "f" + enc(repr(v))
    if isinstance(v, (bool, int, float, complex, bytes)):
        return "n" + enc(repr(v))
    raise Unsupported(f"scalar of type {type(v).__name__}")


def atom_tok(v):
    if isinstance(v, np.generic):
        if isinstance(v, (np.str_, np.bytes_)):
            raise Unsupported("numpy string scalar")
        return "n" + sc_tok(v.item())
    return "p" + sc_tok(v)


def pval_tok(v):
    if isinstance(v, np.ndarray):
        if v.ndim != 1:
            raise Unsupported("numpy array property that is not 1-d")
        return "r" + "+".join(sc_tok(x) for x in v.tolist())
    if isinstance(v, (list, tuple)):
        if isinstance(v, tuple):
            raise Unsupported("tuple-valued property")
        return "l" + "+".join(atom_tok(x) for x in v)
    return "a" + atom_tok(v)


def fmt_list(xs):
    return "[" + ",".join(xs) + "]"


def data_fields(prefix, d):
    """protocol fields of a Data object as its public accessors show it"""
    if d is None:
        return [f"{prefix}has=0"]
    arr = np.ma.asanyarray(d.array)
    mask = np.ma.getmaskarray(arr).reshape(-1).tolist()
    raw = np.ma.getdata(arr)
    if raw.dtype.kind == "O":
        raise Unsupported("object data type")
    vals = raw.reshape(-1).tolist()
    toks = []
    for v, m in zip(vals, mask):
        toks.append("n0" if m else sc_tok(v))
    descr = d.dtype.descr[0][1][1:]
    mm = re.fullmatch(r"([A-Za-z])(\d+)", descr)
    if not mm:
        raise Unsupported("data type " + descr)
    u = d.get_units(None)
    c = d.get_calendar(None)
    f = d.get_fill_value(None)
    return [f"{prefix}has=1", f"{prefix}shape={fmt_list(str(n) for n in d.shape)}", f"{prefix}vals={fmt_list(toks)}",
            f"{prefix}mask={fmt_list('1' if m else '0' for m in mask)}",
            f"{prefix}units={'_' if u is None else atom_tok(u)}", f"{prefix}cal={'_' if c is None else atom_tok(c)}",
            f"{prefix}fill={'_' if f is None else atom_tok(f)}", f"{prefix}dtype={descr}"]


def props_tok(ps):
    return fmt_list(enc(k) + "~" + pval_tok(v) for k, v in ps.items())


LEAF_CLASSES = ["Bounds", "InteriorRing", "Count", "Index", "List", "NodeCountProperties", "PartNodeCountProperties",
                "InterpolationParameter", "TiePointIndex", "FieldAncillary", "CellMeasure", "DomainTopology", "CellConnectivity"]
POBJ_CLASSES = ["DimensionCoordinate", "AuxiliaryCoordinate", "DomainAncillary"]
ATTR = {"CellMeasure": "measure", "DomainTopology": "cell", "CellConnectivity": "connectivity"}
# the capability table of Cfdm.Emit (Cls.hasDim / hasSampleDim / hasData); checked against the classes at first use
HAS_DIM = {"Bounds", "InteriorRing", "Count", "Index", "PartNodeCountProperties"}
HAS_SDIM = {"Count", "Index"}
NO_DATA = {"NodeCountProperties", "PartNodeCountProperties"}
_table_checked = False


def check_table():
    global _table_checked
    if _table_checked:
        return
    C = cfdm()
    for n in LEAF_CLASSES + POBJ_CLASSES:
        K = getattr(C, n)
        facts = (hasattr(K, "nc_set_dimension"), hasattr(K, "nc_set_sample_dimension"), hasattr(K, "set_data"),
                 hasattr(K, "set_bounds"), hasattr(K, "nc_set_node_coordinate_variable"), hasattr(K, "set_climatology"))
        want = (n in HAS_DIM, n in HAS_SDIM, n not in NO_DATA, n in POBJ_CLASSES, n == "AuxiliaryCoordinate",
                n in ("DimensionCoordinate", "AuxiliaryCoordinate"))
        if facts != want:
            raise fw.HarnessError(f"the class table of the model (Cfdm.Emit.Cls) no longer describes cfdm.{n}: {facts} != {want}")
    _table_checked = True


def leaf_fields(prefix, x, inherited=None):
    cls = type(x).__name__
    out = [f"{prefix}cls={cls}", f"{prefix}props={props_tok(x.properties())}",
           f"{prefix}inh={props_tok(inherited if inherited is not None else getattr(x, 'inherited_properties', dict)())}",
           f"{prefix}ncvar={opt(x.nc_get_variable(None))}",
           f"{prefix}ncdim={opt(x.nc_get_dimension(None)) if hasattr(x, 'nc_get_dimension') else '_'}",
           f"{prefix}sdim={opt(x.nc_get_sample_dimension(None)) if hasattr(x, 'nc_get_sample_dimension') else '_'}"]
    a = None
    if cls in ATTR:
        a = getattr(x, "get_" + ATTR[cls])(None)
    out.append(f"{prefix}attr={opt(a)}")
    d = None
    if hasattr(x, "get_data"):
        # the stored data with every attribute removed: units, calendar and fill value that `get_data` shows
        # come from the properties, which is what the model computes
        d0 = x.get_data(None, _units=False, _fill_value=False)
        if d0 is not None:
            d = d0.copy()
            d.del_units(None)
            d.del_calendar(None)
            d.del_fill_value(None)
    out += data_fields(prefix + "d.", d)
    return out


def object_line(kind, x, kw):
    """the C19.emit protocol line of a live object"""
    check_table()
    C = cfdm()
    f = [f"kind={kind}"]
    if kind == "data":
        f += data_fields("d.", x)
    elif kind == "leaf":
        f += leaf_fields("x.", x)
    elif kind == "pobj":
        f += leaf_fields("x.", x, inherited={})
        f.append(f"geom={opt(x.get_geometry(None))}")
        clim = bool(x.get_climatology(False)) if hasattr(x, "get_climatology") else False
        f.append(f"clim={int(clim)}")
        nv = x.nc_get_node_coordinate_variable(None) if hasattr(x, "nc_get_node_coordinate_variable") else None
        f.append(f"nodevar={opt(nv)}")
        # the stored bounds, without the inheritance that get_bounds adds (the model adds it)
        b = x.get_bounds(None)
        if b is None:
            f.append("b.has=0")
        else:
            f.append("b.has=1")
            f += leaf_fields("b.", b, inherited={})
        r = x.get_interior_ring(None)
        if r is None:
            f.append("r.has=0")
        else:
            f.append("r.has=1")
            f += leaf_fields("r.", r)
    elif kind == "axis":
        s = x.get_size(None)
        f += [f"size={'_' if s is None else int(s)}", f"ncdim={opt(x.nc_get_dimension(None))}", f"unl={int(bool(x.nc_is_unlimited()))}"]
    elif kind == "cm":
        ax = x.get_axes(None)
        f += [f"method={opt(x.get_method(None))}", f"axes={'_' if ax is None else fmt_list(enc(a) for a in ax)}"]
        qs = list(x.qualifiers().items())
        f.append(f"nq={len(qs)}")
        for i, (k, v) in enumerate(qs):
            p = f"q{i}."
            f.append(f"{p}k={enc(k)}")
            if k == "interval":
                if not all(isinstance(d, C.Data) for d in v):
                    raise Unsupported("interval that is not a list of Data")
                f += [f"{p}t=i", f"{p}n={len(v)}"]
                for j, d in enumerate(v):
                    f += data_fields(f"{p}{j}.", d)
            else:
                if not isinstance(v, str):
                    raise Unsupported("qualifier that is not a string")
                f += [f"{p}t=s", f"{p}s={enc(v)}"]
    elif kind == "ref":
        f += [f"ncvar={opt(x.nc_get_variable(None))}", f"coords={fmt_list(enc(c) for c in sorted(x.coordinates()))}"]
        for tag, params in (("p", x.datum.parameters()), ("c", x.coordinate_conversion.parameters())):
            f.append(f"n{tag}={len(params)}")
            for i, (k, v) in enumerate(params.items()):
                p = f"{tag}{i}."
                f.append(f"{p}k={enc(k)}")
                if isinstance(v, C.Data):
                    f.append(f"{p}t=d")
                    f += data_fields(p + "d.", v)
                else:
                    f += [f"{p}t=v", f"{p}v={pval_tok(v)}"]
        f.append("anc=" + fmt_list(enc(t) + "~" + opt(v) for t, v in x.coordinate_conversion.domain_ancillaries().items()))
    else:
        raise fw.HarnessError("unknown kind " + kind)
    ns = kw.get("namespace")
    f += [f"name={kw.get('name', 'data' if kind == 'data' else 'c')}", f"dn={kw.get('data_name', 'data')}",
          f"bn={kw.get('bounds_name', 'b')}", f"rn={kw.get('interior_ring_name', 'i')}",
          f"ns={'_' if ns is None else ('E' if ns == '' else ns)}", f"header={int(bool(kw.get('header', True)))}"]
    for t in f:
        if " " in t or "\n" in t:
            raise fw.HarnessError("blank inside a protocol field: " + t[:60])
    return "C19.emit " + " ".join(f)


# =========================================================================== canonical form of the real text
CLASSES = set(LEAF_CLASSES + POBJ_CLASSES + ["DomainAxis", "CellMethod", "CoordinateReference", "Data", "Field", "Domain", "Datum",
                                             "CoordinateConversion"])


def _lit(node):
    """canonical literal: V<sc> when it evaluates in an empty namespace, N<what> otherwise"""
    try:
        v = ast.literal_eval(node)
    except Exception:
        src = ast.unparse(node)
        if src.startswith("np."):
            return "Nnp"
        return "N" + enc(src)
    if isinstance(v, (list, tuple, dict, set)) or v is None:
        return "N" + enc(ast.unparse(node))
    return "V" + sc_tok(v)


def _nested(node):
    """(shape, flat list of canonical literals) of a nested list display"""
    if isinstance(node, ast.List):
        subs = [_nested(e) for e in node.elts]
        if not subs:
            return [0], []
        shp = subs[0][0]
        flat = []
        for s, f in subs:
            if s != shp:
                raise fw.HarnessError("ragged list display in an emitted Data constructor")
            flat += f
        return [len(subs)] + shp, flat
    return [], [_lit(node)]


def _ns_cls(fn):
    src = ast.unparse(fn)
    ns, _, cls = src.rpartition(".")
    return (ns + "." if ns else ""), cls


def _shape(s):
    return "s" if not s else "x".join(map(str, s))


def _dexpr(call):
    ns, cls = _ns_cls(call.func)
    if cls != "Data":
        raise fw.HarnessError("expected a Data constructor, got " + cls)
    kw = {k.arg: k.value for k in call.keywords}
    shape, flat = _nested(call.args[0])
    mask = "_"
    bits = []
    if "mask" in kw:
        m = kw["mask"]
        mns, mcls = _ns_cls(m.func)
        mshape, mflat = _nested(m.args[0])
        mkw = {k.arg: ast.literal_eval(k.value) for k in m.keywords}
        if mcls != "Data" or mkw != {"dtype": "b1"}:
            raise fw.HarnessError("unexpected form of the nested mask constructor: " + ast.unparse(m)[:80])
        bits = [x == "VnTrue" for x in mflat]
        mask = f"{mns or 'E'}~{_shape(mshape)}~{''.join('1' if b else '0' for b in bits)}"
    arr = [("--" if (i < len(bits) and bits[i]) else x) for i, x in enumerate(flat)]
    extra = set(kw) - {"units", "calendar", "dtype", "mask", "fill_value"}
    if extra or len(call.args) != 1:
        raise fw.HarnessError("unexpected arguments of an emitted Data constructor: " + ast.unparse(call)[:80])
    return "|".join([ns or "E", _shape(shape), ",".join(arr), _lit(kw["units"]) if "units" in kw else "_",
                     _lit(kw["calendar"]) if "calendar" in kw else "_", ast.literal_eval(kw["dtype"]), mask,
                     _lit(kw["fill_value"]) if "fill_value" in kw else "_"])


def _litexpr(node):
    if isinstance(node, (ast.List, ast.Tuple)):
        return "m" + "+".join(_lit(e) for e in node.elts)
    return "o" + _lit(node)


def canon_line(line):
    """one emitted command as a statement of the model's language"""
    s = line.strip()
    if s.startswith("#"):
        return "#"
    node = ast.parse(s).body
    if len(node) != 1:
        return "?multi"
    node = node[0]
    if isinstance(node, ast.Assign) and isinstance(node.value, ast.Call) and isinstance(node.targets[0], ast.Name):
        n = node.targets[0].id
        ns, cls = _ns_cls(node.value.func)
        if cls == "Data":
            return f"data:{n}:{_dexpr(node.value)}"
        if node.value.args or node.value.keywords:
            return "?ctor-with-arguments"
        return f"new:{n}:{ns or 'E'}:{cls}"
    if not (isinstance(node, ast.Expr) and isinstance(node.value, ast.Call)):
        return "?" + enc(s[:40])
    call = node.value
    target = ast.unparse(call.func)
    obj, _, meth = target.rpartition(".")
    a = call.args
    if call.keywords:
        return "?keywords:" + enc(target)

    def s0():
        v = ast.literal_eval(a[0])
        if not isinstance(v, str):
            raise ValueError
        return enc(v)
    try:
        if meth == "set_properties":
            d = a[0]
            return f"props:{obj}:" + ",".join(enc(ast.literal_eval(k)) + "~" + _litexpr(v) for k, v in zip(d.keys, d.values))
        if meth == "nc_set_variable":
            return f"ncvar:{obj}:{s0()}"
        if meth == "nc_set_dimension":
            return f"ncdim:{obj}:{s0()}"
        if meth == "nc_set_sample_dimension":
            return f"sdim:{obj}:{s0()}"
        if meth == "set_data":
            return f"setdata:{obj}:{a[0].id}"
        if meth in ("set_measure", "set_cell", "set_connectivity", "set_geometry"):
            return f"{meth[4:]}:{obj}:{s0()}"
        if meth == "nc_set_node_coordinate_variable":
            return f"nodevar:{obj}:{s0()}"
        if meth == "set_climatology" and ast.literal_eval(a[0]) is True:
            return f"clim:{obj}"
        if meth == "set_bounds":
            return f"setbounds:{obj}:{a[0].id}"
        if meth == "set_interior_ring":
            return f"setring:{obj}:{a[0].id}"
        if meth == "set_size":
            return f"size:{obj}:{int(ast.literal_eval(a[0]))}"
        if meth == "nc_set_unlimited" and ast.literal_eval(a[0]) is True:
            return f"unlimited:{obj}"
        if meth == "set_method":
            return f"method:{obj}:{s0()}"
        if meth == "set_axes":
            v = ast.literal_eval(a[0])
            v = (v,) if isinstance(v, str) else v
            return f"axes:{obj}:" + "+".join(enc(x) for x in v)
        if meth == "set_qualifier":
            term = enc(ast.literal_eval(a[0]))
            if isinstance(a[1], ast.List) and all(isinstance(e, ast.Call) for e in a[1].elts) and ast.literal_eval(a[0]) == "interval":
                return f"qual:{obj}:{term}:i" + "&".join(_dexpr(e) for e in a[1].elts)
            v = ast.literal_eval(a[1])
            if not isinstance(v, str):
                raise ValueError
            return f"qual:{obj}:{term}:s{enc(v)}"
        if meth == "set_coordinates":
            return f"coords:{obj}:" + "+".join(enc(x) for x in sorted(ast.literal_eval(a[0])))
        if meth == "set_parameter" and obj.endswith((".datum", ".coordinate_conversion")):
            o, _, which = obj.rpartition(".")
            which = "datum" if which == "datum" else "conv"
            term = enc(ast.literal_eval(a[0]))
            if isinstance(a[1], ast.Call) and _ns_cls(a[1].func)[1] == "Data":
                return f"param:{o}:{which}:{term}:D{_dexpr(a[1])}"
            return f"param:{o}:{which}:{term}:{_litexpr(a[1])}"
        if meth == "set_domain_ancillaries" and obj.endswith(".coordinate_conversion"):
            o = obj.rpartition(".")[0]
            d = ast.literal_eval(a[0])
            return f"ancils:{o}:" + ",".join(enc(t) + "~" + opt(v) for t, v in d.items())
    except fw.HarnessError:
        raise
    except Exception:
        pass
    return "?" + enc(target)


def canon_text(lines):
    out = []
    for l in lines:
        if not l.strip():
            continue
        try:
            out.append(canon_line(l))
        except SyntaxError:
            out.append("?syntax")
    return ";".join(out)


def static_checks(lines, prefix):
    """the two structural facts of the property text, checked on the real text with `ast`:
    every constructor of a cfdm class is spelt <prefix><Class>; every name is bound before it is read."""
    bound = set()
    ctor_bad = []
    use_bad = []
    for l in lines:
        s = l.strip()
        if not s or s.startswith("#"):
            continue
        try:
            tree = ast.parse(s)
        except SyntaxError:
            return None, None
        for node in ast.walk(tree):
            if isinstance(node, ast.Call):
                ns, cls = _ns_cls(node.func)
                if cls in CLASSES and cls[0].isupper() and not ast.unparse(node.func).startswith(tuple(b + "." for b in bound)):
                    if ns != prefix:
                        ctor_bad.append(ast.unparse(node.func))
        loads = [n.id for n in ast.walk(tree) if isinstance(n, ast.Name) and isinstance(n.ctx, ast.Load)]
        root = prefix.rstrip(".").split(".")[0] if prefix else None
        for n in loads:
            if n in bound or n == root or (not prefix and n in CLASSES) or n in ("True", "False", "None"):
                continue
            use_bad.append(n)
        for node in ast.walk(tree):
            if isinstance(node, ast.Name) and isinstance(node.ctx, ast.Store):
                bound.add(node.id)
    return ctor_bad, use_bad


# =========================================================================== generators of objects
NAMES = ["lat", "lon", "time", "x", "y", "z", "ta", "bnds", "v_2", "T", "a name", "naïve"]
UNITS = [None, None, "K", "m", "degrees_north", "1", "days since 2000-01-01", "hours since 1970-01-01 00:00:00", "it's"]
NAMESPACES = [None, None, None, "", "cfdm", "cfdm.", "xyz", "xyz.", "a.b"]


def rand_shape(rng):
    return rng.choice([[], [1], [2], [3], [4], [2, 2], [1, 3], [3, 1], [2, 3], [1, 1, 2], [5]])


def rand_values(rng, kind, n):
    if kind == "f8":
        return np.array([rng.randint(-400, 400) / 8 for _ in range(n)], dtype="f8")
    if kind == "f4":
        return np.array([rng.randint(-400, 400) / 8 for _ in range(n)], dtype="f4")
    if kind in ("i4", "i8", "i1", "u2"):
        return np.array([rng.randint(0, 100) for _ in range(n)], dtype=kind)
    if kind == "b1":
        return np.array([rng.random() < 0.5 for _ in range(n)], dtype=bool)
    if kind == "U":
        return np.array([rng.choice(["a", "bc", "xyz", "st 1", "it's", ""]) for _ in range(n)] or [], dtype="U4")
    if kind == "S":
        return np.array([rng.choice([b"a", b"bc"]) for _ in range(n)] or [], dtype="S2")
    raise fw.HarnessError(kind)


def rand_data(rng, tags, rare=0.04, shape=None, kinds=None, plain=False):
    """a Data object; `rare` = rate of each family that ends in an open finding"""
    C = cfdm()
    given = shape is not None
    shape = rand_shape(rng) if shape is None else shape
    kind = rng.choice(kinds or ["f8", "f8", "f8", "f4", "i4", "i8", "i1", "u2", "b1", "U", "S"])
    r = rng.random()
    if not plain and not given and r < rare * 0.8:
        shape = rng.choice([[0], [0, 3], [2, 0], [0, 0], [3, 0, 2]])
        tags.append("emit:data:zero-size")
    n = int(np.prod(shape)) if shape else 1
    a = rand_values(rng, kind, n).reshape(shape)
    if kind == "f8" and n and not plain and rng.random() < rare * 0.3:
        a.flat[rng.randrange(n)] = rng.choice([np.nan, np.inf, -np.inf])
        tags.append("emit:data:nonfinite")
    masked = False
    if n and not plain and rng.random() < 0.3 and (kind != "b1" or rng.random() < 0.35):
        m = np.array([rng.random() < 0.4 for _ in range(n)]).reshape(shape)
        if rng.random() < 0.15:
            m[...] = True
        if m.any():
            masked = True
            under = a.copy()
            if kind == "f8" and rng.random() < 0.3:
                under[m] = np.nan  # what lies under the mask is not observable
            a = np.ma.array(under, mask=m)
            tags.append("emit:data:masked" + (":bool" if kind == "b1" else ""))
    kw = {}
    if kind not in ("U", "S", "b1") and rng.random() < 0.6:
        u = rng.choice(UNITS)
        if rng.random() < rare * 0.4:
            u = rng.choice([np.int32(1), np.float64(1.0)])
            tags.append("emit:data:numpy-units")
        if u is not None:
            kw["units"] = u
        if isinstance(u, str) and "since" in u and rng.random() < 0.6:
            kw["calendar"] = rng.choice(["noleap", "360_day", "gregorian"])
        elif rng.random() < 0.04:
            kw["calendar"] = "noleap"
    if rng.random() < 0.25 and kind in ("f8", "f4", "i4", "i8"):
        kw["fill_value"] = rng.choice([-999.0, -1, 0.5, np.float32(-999.0), np.int16(-1)])
    elif kind == "U" and rng.random() < rare:
        kw["fill_value"] = "x"
        tags.append("emit:data:string-fill")
    tags.append("emit:data:dtype:" + kind)
    return C.Data(a, **kw)


def rand_props(rng, tags, rare=0.03):
    p = {}
    if rng.random() < 0.6:
        p["standard_name"] = rng.choice(["air_temperature", "latitude", "time"])
    if rng.random() < 0.4:
        p["long_name"] = rng.choice(["a long name", "it's \"quoted\"", "x", "tab\there", "naïve"])
    if rng.random() < 0.5:
        p["units"] = rng.choice(["K", "m", "degrees_east", "days since 2000-01-01"])
        if "since" in p["units"] and rng.random() < 0.6:
            p["calendar"] = rng.choice(["gregorian", "360_day"])
    if rng.random() < rare * 0.5:
        p["units"] = rng.choice([np.int32(1), np.float64(1.0)])
        tags.append("emit:props:numpy-units")
    if rng.random() < 0.3:
        p["_FillValue"] = rng.choice([-999.0, np.float32(-999.0), np.int16(-1), -1])
    if rng.random() < 0.15:
        p["missing_value"] = rng.choice([-1.0, np.float64(-1.0)])
    if rng.random() < 0.2:
        p["valid_range"] = rng.choice([np.array([0.0, 10.0]), [0.0, 10.0], np.array([1, 5], dtype="i2")])
    if rng.random() < 0.15:
        p["flag_values"] = rng.choice([np.array([1, 2, 4], dtype="i1"), [1, 2]])
    if rng.random() < 0.1:
        p["comment"] = rng.choice(["", "multi\nline", "semi;colon, comma | bar ~ tilde + plus"])
    if rng.random() < rare * 0.5:
        p["scale"] = float("nan")
        tags.append("emit:props:nonfinite")
    items = list(p.items())
    rng.shuffle(items)
    return dict(items)


def set_leaf_data(rng, x, cls, tags, shape=None):
    if cls in ("Count", "Index", "List", "TiePointIndex"):
        x.set_data(rand_data(rng, tags, shape=shape or [rng.randint(1, 4)], kinds=["i4", "i8"], plain=rng.random() < 0.7))
    elif cls == "InteriorRing":
        x.set_data(rand_data(rng, tags, shape=shape or [rng.randint(1, 3), rng.randint(1, 2)], kinds=["i4", "i8"]))
    elif cls in ("DomainTopology", "CellConnectivity"):
        x.set_data(rand_data(rng, tags, shape=shape or [rng.randint(1, 3), rng.randint(2, 4)], kinds=["i4", "i8"]))
    else:
        x.set_data(rand_data(rng, tags, shape=shape, kinds=["f8", "f8", "f4", "i4", "U", "b1"] if shape is None else ["f8", "f4", "i4"]))


def make_leaf(rng, cls, tags, shape=None):
    C = cfdm()
    x = getattr(C, cls)(properties=rand_props(rng, tags))
    if cls not in NO_DATA and rng.random() < 0.85:
        set_leaf_data(rng, x, cls, tags, shape)
    if rng.random() < 0.6:
        x.nc_set_variable(rng.choice(NAMES))
        if rng.random() < 0.02:
            x.nc_set_variable(rng.choice(["it's", "a\\b"]))
            tags.append("emit:ncvar-with-quote")
    if cls in HAS_DIM and rng.random() < 0.6:
        x.nc_set_dimension(rng.choice(NAMES))
    if cls in HAS_SDIM and rng.random() < 0.6:
        x.nc_set_sample_dimension(rng.choice(NAMES))
    if cls in ATTR and rng.random() < 0.8:
        getattr(x, "set_" + ATTR[cls])(rng.choice({"measure": ["area", "volume"], "cell": ["face", "edge", "point"],
                                                    "connectivity": ["edge", "node"]}[ATTR[cls]]))
    return x


def make_pobj(rng, cls, tags):
    C = cfdm()
    x = getattr(C, cls)(properties=rand_props(rng, tags))
    shape = rng.choice([[1], [2], [3], [4], [2, 2]]) if cls != "DimensionCoordinate" else [rng.randint(1, 4)]
    has = rng.random() < 0.9
    if has:
        x.set_data(rand_data(rng, tags, shape=shape, kinds=["f8", "f8", "f4", "i4"]))
    if rng.random() < 0.6:
        x.nc_set_variable(rng.choice(NAMES))
    if rng.random() < 0.65:
        bshape = list(shape) + [rng.choice([2, 2, 3])]
        b = make_leaf(rng, "Bounds", tags, shape=bshape)
        if not has and rng.random() < 0.5:
            b.del_data(None)
        x.set_bounds(b)
    if rng.random() < 0.25:
        x.set_interior_ring(make_leaf(rng, "InteriorRing", tags))
    if rng.random() < 0.25:
        x.set_geometry(rng.choice(["polygon", "line", "point"]))
    if cls != "DomainAncillary" and rng.random() < 0.15:
        try:
            x.set_climatology(True)
        except Exception:
            pass
    if cls == "AuxiliaryCoordinate" and rng.random() < 0.3:
        x.nc_set_node_coordinate_variable(rng.choice(NAMES))
    return x


def make_axis(rng, tags):
    C = cfdm()
    x = C.DomainAxis(rng.choice([None, 1, 7, 0]))
    if rng.random() < 0.6:
        x.nc_set_dimension(rng.choice(NAMES + ["/grp/x"]))
    if rng.random() < 0.3:
        x.nc_set_unlimited(True)
    return x


def make_cm(rng, tags):
    C = cfdm()
    x = C.CellMethod()
    if rng.random() < 0.85:
        x.set_axes(rng.choice([["domainaxis0"], ["area"], ["domainaxis1", "domainaxis0"], [], "time"]))
    if rng.random() < 0.85:
        x.set_method(rng.choice(["mean", "maximum", "point", "it's"]))
    qs = rng.sample(["within", "where", "over", "comment", "interval"], rng.randint(0, 3))
    for q in qs:
        if q == "interval":
            x.set_qualifier("interval", [rand_data(rng, tags, shape=rng.choice([[], [], [1], [2]]), kinds=["f8", "i8"])
                                         for _ in range(rng.randint(1, 2))])
        else:
            x.set_qualifier(q, rng.choice(["years", "land", "days", "a comment", "it's"]))
    return x


def rand_params(rng, tags):
    C = cfdm()
    p = {}
    pool = ["earth_radius", "grid_mapping_name", "semi_major_axis", "standard_parallel", "north_pole", "towgs84", "scale"]
    for k in rng.sample(pool, rng.randint(0, 4)):
        r = rng.random()
        if k == "grid_mapping_name":
            p[k] = rng.choice(["rotated_latitude_longitude", "it's"])
        elif r < 0.25:
            p[k] = rand_data(rng, tags, shape=rng.choice([[], [], [2]]), kinds=["f8", "i8"])
        elif r < 0.45:
            p[k] = rng.choice([np.array([25.0, 30.0]), np.float64(25.0), np.int32(3)])
        elif r < 0.6:
            p[k] = [25.0, 30.0]
        elif r < 0.61:
            p[k] = float("inf")
            tags.append("emit:ref:nonfinite")
        else:
            p[k] = rng.choice([6371007, 6371007.0, True])
    return p


def make_ref(rng, tags):
    C = cfdm()
    x = C.CoordinateReference(
        coordinates=rng.sample(["dimensioncoordinate0", "auxiliarycoordinate1", "dimensioncoordinate2", "auxiliarycoordinate10"],
                               rng.randint(0, 3)),
        datum=C.Datum(parameters=rand_params(rng, tags)),
        coordinate_conversion=C.CoordinateConversion(parameters=rand_params(rng, tags), domain_ancillaries={
            t: rng.choice([None, "domainancillary0", "domainancillary2"]) for t in rng.sample(["a", "b", "orog", "p0"], rng.randint(0, 3))}))
    if rng.random() < 0.5:
        x.nc_set_variable(rng.choice(NAMES))
    return x


def rand_kw(rng, kind):
    kw = {}
    if rng.random() < 0.55:
        kw["namespace"] = rng.choice(NAMESPACES)
    if rng.random() < 0.3:
        kw["name"] = rng.choice(["x", "obj", "c2", "d", "mask", "b", "data"])
    if kind != "data" and rng.random() < 0.3:
        kw["header"] = rng.random() < 0.5
    if kind in ("leaf", "pobj") and rng.random() < 0.3:
        kw["data_name"] = rng.choice(["dd", "d2", "mask", "c", "b", "i", "x"])
    if kind == "pobj" and rng.random() < 0.3:
        kw["bounds_name"] = rng.choice(["bb", "i", "c", "data", "x"])
    if kind == "pobj" and rng.random() < 0.2:
        kw["interior_ring_name"] = rng.choice(["ring", "b", "c", "bb"])
    if rng.random() < 0.2:
        kw["indent"] = rng.choice([0, 2, 4])
    if rng.random() < 0.2:
        kw["string"] = rng.random() < 0.5
    return kw


KINDS = ["data", "data", "leaf", "leaf", "leaf", "pobj", "pobj", "pobj", "axis", "cm", "ref", "ref"]


def gen_emit_payload(rng):
    kind = rng.choice(KINDS)
    p = dict(kind=kind, seed=rng.randrange(1 << 40))
    if kind == "leaf":
        p["cls"] = rng.choice(LEAF_CLASSES)
        p["from_parent"] = p["cls"] == "Bounds" and rng.random() < 0.3
    elif kind == "pobj":
        p["cls"] = rng.choice(POBJ_CLASSES)
    p["kw"] = rand_kw(rng, kind)
    return p


def build_emit(p):
    """(object, tags) of a recipe"""
    C = cfdm()
    rng = fw.rng_for(p["seed"], "emit")
    tags = []
    kind = p["kind"]
    if kind == "data":
        x = rand_data(rng, tags)
    elif kind == "leaf":
        if p.get("from_parent"):
            parent = make_pobj(rng, "AuxiliaryCoordinate", tags)
            parent.set_property("units", "degrees_north")
            if not parent.has_bounds():
                parent.set_bounds(make_leaf(rng, "Bounds", tags, shape=(list(parent.shape) if parent.has_data() else [2]) + [2]))
            x = parent.bounds
            if "emit:ncvar-with-quote" in tags:  # one finding per object
                tags[:] = [t for t in tags if t != "emit:ncvar-with-quote"]
                x.nc_set_variable("lat_bnds")
            tags.append("emit:leaf:bounds-from-parent")
        else:
            x = make_leaf(rng, p["cls"], tags)
    elif kind == "pobj":
        x = make_pobj(rng, p["cls"], tags)
    elif kind == "axis":
        x = make_axis(rng, tags)
    elif kind == "cm":
        x = make_cm(rng, tags)
    elif kind == "ref":
        x = make_ref(rng, tags)
    else:
        raise fw.HarnessError("unknown kind " + kind)
    return x, tags


# =========================================================================== C19.emit implementation side
def applicable_kw(x, kw):
    import inspect
    sig = inspect.signature(x.creation_commands).parameters
    return {k: v for k, v in kw.items() if k in sig}


def nc_fingerprint(x):
    """every netCDF name the emitted commands are meant to carry"""
    out = {}
    for m in ("nc_get_variable", "nc_get_dimension", "nc_get_sample_dimension", "nc_get_node_coordinate_variable", "nc_is_unlimited"):
        if hasattr(x, m):
            try:
                out[m] = getattr(x, m)(None) if m != "nc_is_unlimited" else bool(x.nc_is_unlimited())
            except Exception as e:
                out[m] = "raised " + type(e).__name__
    if hasattr(x, "has_bounds") and x.has_bounds():
        out["bounds"] = nc_fingerprint(x.bounds)
    if hasattr(x, "has_interior_ring") and x.has_interior_ring():
        out["ring"] = nc_fingerprint(x.interior_ring)
    return out


def fresh_namespace(namespace):
    C = cfdm()
    if namespace is None:
        return {"cfdm": C}, "cfdm."
    ns = namespace.rstrip(".") if namespace.endswith(".") else namespace
    prefix = "" if namespace == "" else (namespace if namespace.endswith(".") else namespace + ".")
    if ns == "":
        return {k: getattr(C, k) for k in dir(C) if not k.startswith("_")}, prefix
    # a dotted prefix: a chain of simple namespaces
    import types
    parts = ns.split(".")
    top = cur = types.SimpleNamespace() if len(parts) > 1 else C
    for q in parts[1:-1]:
        nxt = types.SimpleNamespace()
        setattr(cur, q, nxt)
        cur = nxt
    if len(parts) > 1:
        setattr(cur, parts[-1], C)
    return {parts[0]: top}, prefix


def both_equal(x, y):
    try:
        return bool(x.equals(y)) and bool(y.equals(x))
    except Exception:
        return None


def impl_emit(c):
    p = c.payload
    x, tags = build_emit(p)
    kind = p["kind"]
    kw = applicable_kw(x, p["kw"])
    c.tags = tuple(c.tags) + tuple(sorted(set(tags))) + ("emit:class:" + type(x).__name__,)
    try:
        c.line = object_line(kind, x, kw)
    except Unsupported as e:
        c.line = None
        c.tags += ("emit:outside-the-model",)
        c.extra = dict(unsupported=str(e))
    extra = dict(kw=kw, tags=sorted(set(tags)), cls=type(x).__name__)
    try:
        x0 = x.copy()
        pre = both_equal(x, x0)
        out = x.creation_commands(**kw)
    except ValueError as e:
        c.extra = fw_json(dict(extra, cc_detail=f"ValueError: {str(e)[:200]}"))
        return "cc=raised:ValueError"
    except Exception as e:
        c.extra = fw_json(dict(extra, cc_detail=f"{type(e).__name__}: {str(e)[:200]}"))
        return "cc=raised:" + fw.exc_enum(e)
    string = kw.get("string", True)
    if string:
        if not isinstance(out, str):
            c.extra = fw_json(extra)
            return "cc=notstr"
        ind = " " * kw.get("indent", 0)
        lines = out.split("\n")
        if any(not l.startswith(ind) for l in lines):
            c.extra = fw_json(extra)
            return "cc=badindent"
        lines = [l[len(ind):] for l in lines]
    else:
        if not isinstance(out, list):
            c.extra = fw_json(extra)
            return "cc=notlist"
        lines = list(out)
    text = canon_text(lines)
    nsd, prefix = fresh_namespace(kw.get("namespace"))
    ctor_bad, use_bad = static_checks(lines, prefix)
    extra.update(text="\n".join(lines)[:1500], ctor_bad=ctor_bad, use_bad=use_bad)
    name = kw.get("name", "data" if kind == "data" else "c")
    try:
        exec("\n".join(lines), nsd)
    except Exception as e:
        extra["exec_detail"] = f"{type(e).__name__}: {str(e)[:200]}"
        c.extra = fw_json(extra)
        return f"cc=ok text={text} exec=raised same=_"
    if name not in nsd:
        c.extra = fw_json(extra)
        return f"cc=ok text={text} exec=noname same=_"
    y = nsd[name]
    eq = type(y) is type(x) and both_equal(x, y) and nc_fingerprint(x) == nc_fingerprint(y)
    unchanged = both_equal(x, x0) if pre else None
    extra.update(type=type(y).__name__, equal=both_equal(x, y) if type(y) is type(x) else False,
                 nc=nc_fingerprint(x) == nc_fingerprint(y), unchanged=unchanged)
    c.extra = fw_json(extra)
    return f"cc=ok text={text} exec=ok same={int(bool(eq))}"


def fw_json(d):
    import json
    return json.dumps(d, default=str)


def toks(out):
    return dict(t.split("=", 1) for t in str(out).split(" ") if "=" in t)


def agree_emit(c):
    """the implementation against the model with the proposed repair applied (`fix…` fields)"""
    i, m = toks(c.impl_out), toks(c.model_out)
    if i.get("cc") != m.get("fixcc"):
        return False
    if i.get("cc") != "ok":
        return True
    return i.get("text") == m.get("fixtext") and i.get("exec") == m.get("fixexec") and i.get("same") == m.get("fixsame") \
        and m.get("ctors") == "ok" and m.get("dbu") == "ok"


def _no_ncvar(text):
    """the text without the netCDF-variable-name statements (for objects of the quote / backslash family, whose
    defect is outside the model)"""
    return ";".join("ncvar" if (t.startswith("ncvar:") or t == "?syntax") else t for t in str(text).split(";"))


def matches_code_as_is(c, loose=False):
    """the whole observed outcome is what the model of the code as it is predicts"""
    if c.model_out is None:
        return None
    i, m = toks(c.impl_out), toks(c.model_out)
    if i.get("cc") != m.get("cc"):
        return False
    if i.get("cc") != "ok":
        return True
    if loose:
        return _no_ncvar(i.get("text")) == _no_ncvar(m.get("text")) and (i.get("exec"), i.get("same")) in (
            (m.get("exec"), m.get("same")), ("ok", "0") if m.get("exec") == "ok" else None)
    return i.get("text") == m.get("text") and i.get("exec") == m.get("exec") and i.get("same") == m.get("same")


def names_clash(p, kind):
    kw = p["kw"]
    name = kw.get("name", "data" if kind == "data" else "c")
    dn, bn, rn = kw.get("data_name", "data"), kw.get("bounds_name", "b"), kw.get("interior_ring_name", "i")
    if kind == "data":
        return name == "mask"
    if kind == "leaf":
        return name == dn or dn == "mask"
    if kind == "pobj":
        return name in (dn, bn, rn) or dn in (bn, rn) or dn == "mask"
    return False


def oracle_emit(c):
    import json
    out = str(c.impl_out)
    t = toks(out)
    ex = json.loads(c.extra) if isinstance(c.extra, str) and c.extra.startswith("{") else {}
    p = c.payload
    if not t:
        return f"harness: {out} {str(c.extra)[:300]}"
    if t["cc"] != "ok":
        if t["cc"] == "raised:ValueError" and names_clash(p, p["kind"]) and "parameter" in str(ex.get("cc_detail")):
            return None  # a documented refusal of clashing names
        return f"creation_commands({ex.get('kw')}) of {ex.get('cls')}: {t['cc']}: {ex.get('cc_detail')}"
    if ex.get("ctor_bad") is None:
        return f"the emitted text is not Python: {ex.get('text', '')[:200]}"
    if ex.get("ctor_bad"):
        return f"constructor call(s) without the namespace prefix: {ex['ctor_bad'][:3]} (kw {ex.get('kw')})"
    if ex.get("use_bad"):
        # an unbound name: exec must have failed; reported through exec below
        pass
    if t.get("exec") != "ok":
        return f"exec of creation_commands({ex.get('kw')}) of {ex.get('cls')}: {t.get('exec')}: {ex.get('exec_detail')}"
    if ex.get("unchanged") is False:
        return "creation_commands changed the object"
    if t.get("same") != "1":
        if ex.get("equal") is None:
            return None  # equals() itself raises: C05
        return (f"rebuilt {ex.get('cls')} is not the original (kw {ex.get('kw')}): type {ex.get('type')}, equal {ex.get('equal')}, "
                f"netCDF names equal {ex.get('nc')}")
    return None


S_INHERITED = "bounds-with-inherited-properties:rebuilt-not-equal"
S_NONFINITE = "non-finite-data-value:exec-NameError"
S_MASKED_NOFILL = "masked-data-without-default-fill-value:creation_commands-ValueError"
S_ZEROSIZE = "zero-size-leading-dimension:rebuilt-shape-differs"
S_NPUNITS = "numpy-valued-units:exec-NameError"
S_STRFILL = "string-fill-value:exec-NameError"
S_NCQUOTE = "netcdf-variable-name-with-quote:exec-SyntaxError"


def classify_emit(c):
    """a known-finding signature: a predicate of the input's tags AND of the failure, tied to the
    model of the code as it is (the whole outcome must be the predicted one)"""
    import json
    t = toks(c.impl_out)
    ex = json.loads(c.extra) if isinstance(c.extra, str) and c.extra.startswith("{") else {}
    tags = set(ex.get("tags") or [])
    asis = matches_code_as_is(c, loose="emit:ncvar-with-quote" in tags)
    d = str(ex.get("exec_detail"))
    cc = str(ex.get("cc_detail"))
    if "emit:ncvar-with-quote" in tags and t.get("cc") == "ok":
        # not mirrored by the model (strings are opaque to it): tied to the text itself
        text = str(ex.get("text"))
        if t.get("exec") == "raised" and "SyntaxError" in d and ".nc_set_variable('it's')" in text:
            return S_NCQUOTE
        if t.get("exec") == "ok" and t.get("same") == "0" and ex.get("equal") and not ex.get("nc") and ".nc_set_variable('a\\b')" in text:
            return S_NCQUOTE
    if asis is False and not (c.model_out is not None and agree_emit(c)):
        # neither what the model of the code as it is predicts, nor what the model of the repaired code predicts
        return None
    if t.get("cc") == "raised:ValueError" and "Can't determine fill value" in cc and any(x.startswith("emit:data:masked") for x in tags):
        return S_MASKED_NOFILL
    if t.get("cc") != "ok":
        return None
    if t.get("exec") == "raised":
        if re.search(r"NameError: name '(nan|inf)' is not defined", d) and tags & {"emit:data:nonfinite", "emit:props:nonfinite", "emit:ref:nonfinite"}:
            return S_NONFINITE
        if "NameError: name 'np' is not defined" in d and tags & {"emit:data:numpy-units", "emit:props:numpy-units"}:
            return S_NPUNITS
        if "NameError: name 'x' is not defined" in d and "emit:data:string-fill" in tags:
            return S_STRFILL
        return None
    if t.get("exec") == "ok" and t.get("same") == "0":
        if "emit:leaf:bounds-from-parent" in tags and ex.get("nc"):
            return S_INHERITED
        if "emit:data:zero-size" in tags and ex.get("nc"):
            return S_ZEROSIZE
    return None


# =========================================================================== C19.dstr
def gen_dstr_payload(rng):
    return dict(seed=rng.randrange(1 << 40))


def build_dstr(p):
    C = cfdm()
    rng = fw.rng_for(p["seed"], "dstr")
    tags = []
    shape = rng.choice([[], [1], [2], [3], [4], [7], [1, 1], [1, 3], [3, 1], [2, 3], [1, 1, 3], [3, 1, 1], [2, 1], [1, 2], [0], [0, 3], [2, 0]])
    n = int(np.prod(shape)) if shape else 1
    # in-memory bytes ('S') data are left out: subspacing them raises ValueError in netcdf_indexer (an indexing
    # matter, C03), which Data.__str__ catches and then shows no elements at all
    kind = rng.choice(["f8", "f8", "f8", "i4", "U", "b1", "f4"])
    a = rand_values(rng, kind, n).reshape(shape)
    reftime = rng.random() < 0.5
    if kind == "f8" and n and rng.random() < 0.35:
        # a displayed element (first / second / last) that no calendar can convert, or that is not finite
        pos = rng.choice([0, -1, 1 if n > 1 else 0])
        a.flat[pos] = rng.choice([1e20, 9.969209968386869e36, -1e30, np.nan, np.inf, 1e9, 3e6])
        tags.append("dstr:extreme-value")
    if n and rng.random() < 0.4:
        m = np.array([rng.random() < 0.5 for _ in range(n)]).reshape(shape)
        if rng.random() < 0.2:
            m[...] = True
        a = np.ma.array(a, mask=m)
        tags.append("dstr:masked")
    kw = {}
    if reftime:
        kw["units"] = rng.choice(["days since 2001-02-03", "hours since 1970-01-01 00:00:00", "days since 1-1-1", "days since foo",
                                  "since", "months since 2000-01-01", "seconds since 1970-01-01T00:00:00Z"])
        if rng.random() < 0.6:
            kw["calendar"] = rng.choice(["noleap", "360_day", "gregorian", "standard", "abc", ""])
        tags.append("dstr:reftime:" + kind)
    else:
        r = rng.random()
        if r < 0.5:
            kw["units"] = rng.choice(["K", "m", "1", "", "degrees_north"])
        elif r < 0.6:
            kw["units"] = rng.choice([np.int32(1), 1.5, 1])
            tags.append("dstr:non-string-units")
        if rng.random() < 0.1:
            kw["calendar"] = rng.choice(["noleap", ""])
    tags.append("dstr:size:" + (str(n) if n <= 3 else ">3") + (":last3" if shape[-1:] == [3] else ""))
    return C.Data(a, **kw), tags


def _date(arr, units, calendar):
    """what `datetime_array` asks of netCDF4 for an unmasked array"""
    import netCDF4
    return netCDF4.num2date(arr, units=units, calendar="standard" if calendar is None else calendar, only_use_cftime_datetimes=True)


def _conv(fn):
    try:
        return fn()
    except (ValueError, OverflowError, AttributeError):
        return "C"
    except KeyError:
        return "Q"  # cftime's answer to an empty calendar string
    except Exception:
        return "U"


def dstr_line(d):
    arr = np.ma.asanyarray(d.array)
    mask = np.ma.getmaskarray(arr).reshape(-1)
    raw = np.ma.getdata(arr).reshape(-1)
    n = raw.size

    def el(i):
        return None if mask[i] else raw[i].item()

    def etok(v):
        return "M" if v is None else "V" + enc(f"{v}")
    elems = [etok(el(i)) for i in range(n)] if n <= 8 else [etok(el(i)) for i in range(4)] + ["V0"] * (n - 8) + [etok(el(i)) for i in range(n - 4, n)]
    u = d.get_units(None)
    c = d.get_calendar(None)
    if u is None:
        ut = "_"
    elif isinstance(u, str):
        ut = ("S" if "since" in u else "s") + enc(u)
    else:
        ut = "o" + enc(str(u))
    c1 = cm = c2 = "C"
    if isinstance(u, str) and "since" in u and n:
        def zero(v):
            return 0 if v is None else v
        first, last = el(0), el(n - 1)

        def one(v):
            def f():
                r = _date(np.array(v), u, c)
                return "K" + enc(f"{np.array(r, dtype=object)}")
            return _conv(f)

        def two():
            r = _date(np.array([zero(first), zero(last)]), u, c)
            if first is None or last is None:
                # an input mask is laid over whatever netCDF4 returns (which masks non-finite values itself)
                r = np.ma.masked_where([first is None, last is None], r)
            else:
                # without an input mask the result is taken as a plain object array (a value netCDF4 masked shows through)
                r = np.array(r, dtype=object)
            return "K" + enc(f"{r[0]}") + "~" + enc(f"{r[1]}")
        if first is not None:
            c1 = one(first)
        if n > 1:
            c2 = _conv(two)
            if el(1) is not None:
                cm = one(el(1))
    return (f"C19.dstr shape={fmt_list(str(s) for s in d.shape)} elems={fmt_list(elems)} units={ut} cal={opt(c)} "
            f"c1={c1} cm={cm} c2={c2}")


def impl_dstr(c):
    d, tags = build_dstr(c.payload)
    c.tags = tuple(c.tags) + tuple(tags)
    try:
        c.line = dstr_line(d)
    except Unsupported:
        c.line = None
    res = []
    det = {}
    d0 = d.copy()
    pre = both_equal(d, d0)
    for k, fn in (("str", str), ("repr", repr)):
        try:
            res.append(f"{k}=ok:{enc(fn(d))}")
        except Exception as e:
            res.append(f"{k}=raised")
            det[k] = f"{type(e).__name__}: {str(e)[:160]}"
    det["unchanged"] = both_equal(d, d0) if pre else None
    det["calendar"] = d.get_calendar(None)
    det["shape"] = list(d.shape)
    c.extra = fw_json(det)
    return " ".join(res)


def _decode_model(s):
    return dec(s.replace("~", " "))


def agree_dstr(c):
    i, m = toks(c.impl_out), toks(c.model_out)
    for k in ("str", "repr"):
        a, b = i.get(k, ""), m.get(k, "")
        if a.startswith("ok:") != b.startswith("ok:"):
            return False
        if a.startswith("ok:") and dec(a[3:]) != _decode_model(b[3:]):
            return False
    return True


def oracle_dstr(c):
    """independent restatement of the layout: brackets, elements or first/.../last, units"""
    import json
    i = toks(c.impl_out)
    ex = json.loads(c.extra) if isinstance(c.extra, str) and c.extra.startswith("{") else {}
    for k in ("str", "repr"):
        if not i.get(k, "").startswith("ok:"):
            return f"{k}() of Data raised: {ex.get(k)}"
    if ex.get("unchanged") is False:
        return "str()/repr() changed the Data object"
    s = dec(i["str"][3:])
    r = dec(i["repr"][3:])
    shape = ex.get("shape") or []
    n = int(np.prod(shape)) if shape else 1
    shp = "(" + ", ".join(str(x) for x in shape) + ")"
    if r != f"<Data{shp}: {s}>":
        return f"repr {r!r} is not <Data{shp}: str>"
    if n == 0:
        if "[" in s:
            return f"size 0 data displayed with elements: {s!r}"
        return None
    nd = len(shape)
    if not s.startswith("[" * nd) or (nd and s[nd:nd + 1] == "["):
        return f"str {s!r} does not open {nd} bracket(s)"
    body = s[nd:]
    if "]" * nd not in body and nd:
        return f"str {s!r} does not close {nd} bracket(s)"
    inner = body.split("]" * nd)[0] if nd else body
    want_ellipsis = n > 3 or (n == 3 and shape[-1:] != [3])
    if want_ellipsis != (", ..., " in inner):
        return f"str {s!r}: ellipsis {'expected' if want_ellipsis else 'not expected'} for shape {shape}"
    return None


S_EMPTYCAL = "empty-calendar-reference-time:str-KeyError"


def classify_dstr(c):
    import json
    i = toks(c.impl_out)
    m = toks(c.model_out) if c.model_out else None
    ex = json.loads(c.extra) if isinstance(c.extra, str) and c.extra.startswith("{") else {}
    if i.get("str") == "raised" and i.get("repr") == "raised" and ex.get("calendar") == "" and "KeyError: ''" in str(ex.get("str")):
        if m is None or (m.get("oldstr") == "raised" and m.get("str", "").startswith("ok:")):
            return S_EMPTYCAL
    return None


# =========================================================================== C19.cstr
def gen_cstr_payload(rng):
    return dict(seed=rng.randrange(1 << 40), cls=rng.choice(POBJ_CLASSES + ["FieldAncillary", "CellMeasure", "Bounds", "DomainTopology", "Count"]))


def _uval(rng, tags, what):
    r = rng.random()
    if r < 0.35:
        return None
    if r < 0.6:
        return rng.choice(["K", "m", "", "degrees_north"]) if what == "units" else rng.choice(["noleap", "360_day"])
    if r < 0.96:
        return rng.choice(["days since 2000-01-01", "since", "hours since 1970-01-01"]) if what == "units" else rng.choice(["gregorian", "standard"])
    tags.append(f"cstr:non-string-{what}")
    return rng.choice([1, np.int32(1), 1.5, np.float64(2.0)])


def build_cstr(p):
    C = cfdm()
    rng = fw.rng_for(p["seed"], "cstr")
    tags = []
    cls = p["cls"]
    x = getattr(C, cls)()
    if rng.random() < 0.6:
        x.set_property(rng.choice(["standard_name", "long_name"]), rng.choice(["air_temperature", "a name", "x"]))
    if rng.random() < 0.4:
        x.nc_set_variable("ncv")
    u, c = _uval(rng, tags, "units"), _uval(rng, tags, "calendar")
    if u is not None:
        x.set_property("units", u)
    if c is not None:
        x.set_property("calendar", c)
    shape = rng.choice([[], [1], [3], [2, 2], [1, 3, 2]])
    if cls in ("DomainTopology",):
        shape = [2, 3]
    if cls in ("Count", "DimensionCoordinate"):
        shape = [3]
    if rng.random() < 0.85:
        x.set_data(C.Data(np.arange(int(np.prod(shape)) if shape else 1, dtype="i4" if cls in ("DomainTopology", "Count") else "f8").reshape(shape)))
    if cls in POBJ_CLASSES and rng.random() < 0.5:
        b = C.Bounds()
        bu, bc = _uval(rng, tags, "units"), _uval(rng, tags, "calendar")
        if bu is not None:
            b.set_property("units", bu)
        if bc is not None:
            b.set_property("calendar", bc)
        if rng.random() < 0.8:
            b.set_data(C.Data(np.zeros(list(shape) + [2])))
        x.set_bounds(b)
    names = None
    r = rng.random()
    nd = len(shape)
    if r < 0.6:
        k = rng.choice([nd, nd, max(nd - 1, 0), nd + 1, 0])
        names = [f"axis{j}({j + 2})" for j in range(k)]
    return x, tags, names


def _utok(v):
    if v is None:
        return "_"
    if isinstance(v, str):
        return ("S" if "since" in v else "s") + enc(v)
    return "o" + enc(str(v))


def impl_cstr(c):
    x, tags, names = build_cstr(c.payload)
    C = cfdm()
    cls = type(x).__name__
    c.tags = tuple(c.tags) + tuple(tags) + ("cstr:class:" + cls,)
    b = x.get_bounds(None) if hasattr(x, "get_bounds") else None
    has = x.has_data()
    shape = list(x.get_data(None, _units=False, _fill_value=False).shape) if has else []
    c.line = (f"C19.cstr id={enc(x.identity(''))} dims={fmt_list(str(s) for s in shape) if has else '_'} u={_utok(x.get_property('units', None))} "
              f"c={_utok(x.get_property('calendar', None))} bu={_utok(b.get_property('units', None) if b is not None else None)} "
              f"bc={_utok(b.get_property('calendar', None) if b is not None else None)} "
              f"names={'_' if not names else fmt_list(enc(n) for n in names)} shape={fmt_list(str(s) for s in shape)}")
    res = []
    det = {"cls": cls}
    for k, fn in (("str", str), ("repr", repr)):
        try:
            res.append(f"{k}=ok:{enc(fn(x))}")
        except Exception as e:
            res.append(f"{k}=raised:{fw.exc_enum(e)}")
            det[k] = f"{type(e).__name__}: {str(e)[:160]}"
    dims = "_"
    try:
        axes = [f"domainaxis{j}" for j in range(len(names or []))]
        text = x.dump(display=False, _axes=axes or None, _axis_names=dict(zip(axes, names or [])) or None)
        if has:
            m = re.search(r"^\s*Data\((.*?)\) = ", text, flags=re.M)
            dims = ",".join(enc(t) for t in m.group(1).split(", ")) if m and m.group(1) else ""
        res.append("dump=ok")
    except Exception as e:
        res.append(f"dump=raised:{fw.exc_enum(e)}")
        det["dump"] = f"{type(e).__name__}: {str(e)[:160]}"
    res.append(f"dims={dims}")
    c.extra = fw_json(det)
    return " ".join(res)


def agree_cstr(c):
    """against the model of the repaired formatters"""
    import json
    i, m = toks(c.impl_out), toks(c.model_out)
    ex = json.loads(c.extra) if isinstance(c.extra, str) and c.extra.startswith("{") else {}
    key = "pdb" if ex.get("cls") in POBJ_CLASSES else "pd"
    want = m.get(key, "")
    got = i.get("str", "")
    if got.startswith("ok:") != want.startswith("ok:"):
        return False
    if got.startswith("ok:") and dec(got[3:]) != _decode_model(want[3:]):
        return False
    if i.get("dims") not in ("_",) and i.get("dump") == "ok":
        if [dec(t) for t in i["dims"].split(",")] != [dec(t) for t in m.get("dims", "").split(",")]:
            return False
    return True


S_NONSTR = "non-string-units-or-calendar:str-repr-TypeError"


def oracle_cstr(c):
    import json
    i = toks(c.impl_out)
    ex = json.loads(c.extra) if isinstance(c.extra, str) and c.extra.startswith("{") else {}
    for k in ("str", "repr", "dump"):
        if not i.get(k, "").startswith("ok"):
            return f"{k}() of {ex.get('cls')} {i.get(k)}: {ex.get(k)}"
    return None


def classify_cstr(c):
    import json
    i = toks(c.impl_out)
    m = toks(c.model_out) if c.model_out else None
    ex = json.loads(c.extra) if isinstance(c.extra, str) and c.extra.startswith("{") else {}
    if i.get("dump") != "ok":
        return None
    if i.get("str") == "raised:TypeError" and i.get("repr") == "raised:TypeError":
        key = "oldpdb" if ex.get("cls") in POBJ_CLASSES else "oldpd"
        if m is None or m.get(key) == "raised:TypeError":
            if any(t.startswith("cstr:non-string-") for t in c.tags) and re.search(r"not iterable|can only concatenate str", str(ex.get("str"))):
                return S_NONSTR
    return None
