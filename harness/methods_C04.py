"""Reflection over the public method table of cfdm classes and generated arguments (C04).

`operations(cls)` lists every public operation of a class: public methods
(reflection over dir(), so new methods are covered), public properties (read),
and the indexing/inspection dunders that are part of the public API.
`make_call(x, op, rng)` returns a closure calling the operation on `x` with
generated arguments, or None when no arguments can be generated for it (those
operations are counted and listed in the evidence as UNCALLABLE).
"""
import inspect

import numpy as np

from .gen import fields as genfields
from .gen import objects_C04 as G

DUNDERS = ["__getitem__", "__setitem__", "__str__", "__repr__", "__array__", "__len__", "__iter__", "__contains__",
           "__deepcopy__", "__copy__", "__data__", "__bool__", "__int__", "__float__", "__eq__", "__and__"]

# operations that cannot be driven with generated arguments (each with the reason); size printed in the evidence
UNCALLABLE = {
    "close": "needs the open netCDF4/h5netcdf dataset handle that only the reader holds",
    "get_groups": "static helper over a netCDF address string, no receiver state",
    "open": "opens the file behind a file array and returns a handle that must be closed by the caller's context manager",
    "fromconstructs": "class method building a *view* of its argument (documented sharing, no receiver)",
    "empty": "class method, no receiver",
}


def cfdm():
    return genfields.cfdm()


def unwrap(f):
    """The function behind cfdm's decorators.

    functools.wraps chains are followed; the docstring-rewriting metaclass re-creates inherited methods, which
    can leave a wrapper whose `__wrapped__` is another wrapper without one: then the wrapped function is the
    function object held in the wrapper's closure."""
    f = getattr(f, "__func__", f)
    for _ in range(12):
        g = getattr(f, "__wrapped__", None)
        if g is None:
            code = getattr(f, "__code__", None)
            if code is None or not code.co_name.endswith("_wrapper"):
                break
            cands = []
            for cell in getattr(f, "__closure__", None) or ():
                try:
                    v = cell.cell_contents
                except ValueError:
                    continue
                if inspect.isfunction(v):
                    cands.append(v)
            if len(cands) != 1:
                break
            g = cands[0]
        f = g
    return f


def sig_of(f):
    """inspect.Signature of the undecorated function (without `self` for a bound method)."""
    g = unwrap(f)
    sig = inspect.signature(g)
    ps = list(sig.parameters.values())
    if inspect.ismethod(f) and not inspect.ismethod(g) and ps and ps[0].name in ("self", "cls"):
        ps = ps[1:]
    return sig.replace(parameters=ps)


_ops = {}


def operations(K):
    """[(name, kind)] with kind in {'method', 'switch', 'property', 'dunder'}."""
    if K in _ops:
        return _ops[K]
    out = []
    for n in sorted(dir(K)):
        if n.startswith("_"):
            continue
        st = inspect.getattr_static(K, n)
        if isinstance(st, property) or (not callable(st) and hasattr(st, "__get__") and not inspect.isfunction(st)
                                        and not isinstance(st, (classmethod, staticmethod))):
            out.append((n, "property"))
            continue
        f = getattr(K, n, None)
        if not callable(f):
            continue
        try:
            sw = "inplace" in inspect.signature(unwrap(f)).parameters
        except (TypeError, ValueError):
            sw = False
        out.append((n, "switch" if sw else "method"))
    for n in DUNDERS:
        if any(n in vars(B) for B in K.__mro__ if B is not object):
            out.append((n, "dunder"))
    _ops[K] = out
    return out


def inplace_default(K, name):
    try:
        return bool(inspect.signature(unwrap(getattr(K, name))).parameters["inplace"].default)
    except Exception:
        return False


# --------------------------------------------------------------------------- argument generation
def _data_of(x):
    C = cfdm()
    if isinstance(x, C.core.Data):
        return x
    fn = getattr(x, "get_data", None)
    if fn is None:
        return None
    try:
        return fn(None)
    except Exception:
        return None


def _keys(x, types=None):
    cs = x if hasattr(x, "todict") and hasattr(x, "construct_type") else getattr(x, "constructs", None)
    if cs is None:
        return []
    try:
        d = cs.todict()
    except Exception:
        return []
    return sorted(k for k in d if types is None or cs.construct_type(k) in types)


def _new_like_data(x, rng, extra=()):
    C = cfdm()
    d = _data_of(x)
    shape = list(d.shape) if d is not None else [rng.randint(1, 3)]
    shape = [s if s == s else 2 for s in shape] + list(extra)
    n = int(np.prod(shape)) if shape else 1
    a = np.array([float(rng.randint(0, 90)) for _ in range(n)]).reshape(shape)
    if rng.random() < 0.3 and n > 1:
        a = np.ma.array(a, mask=[rng.random() < 0.3 for _ in range(n)])
    return C.Data(a, units=rng.choice([None, "m", "K"]))


def _index(x, rng, assign=False):
    d = _data_of(x)
    C = cfdm()
    if isinstance(x, C.Constructs):
        ks = _keys(x)
        return rng.choice(ks) if ks and rng.random() < 0.9 else "nokey"
    shape = ()
    try:
        shape = tuple(d.shape) if d is not None else tuple(x.shape)
    except Exception:
        pass
    shape = tuple(int(s) if s == s else 2 for s in shape)
    if not shape or rng.random() < 0.25:
        return Ellipsis
    ix = []
    for s in shape:
        r = rng.random()
        if r < 0.4:
            ix.append(slice(None))
        elif r < 0.6:
            ix.append(rng.randrange(s))
        elif r < 0.8:
            a = rng.randrange(s)
            ix.append(slice(a, rng.randint(a + 1, s)))
        elif r < 0.9:
            ix.append(slice(None, None, -1))
        else:
            ix.append(sorted(set(rng.randrange(s) for _ in range(2))))
    return tuple(ix)


def _construct_for(x, rng):
    """A fresh construct that fits the field/domain/constructs x (or fits nothing, to exercise the refusal)."""
    C = cfdm()
    cs = x if isinstance(x, C.Constructs) else x.constructs
    axes = _keys(x, ("domain_axis",))
    r = rng.random()
    if r < 0.2 or not axes:
        return C.DomainAxis(rng.randint(1, 4)), {}
    if r < 0.35:
        return C.CellMethod(axes=[rng.choice(axes)], method="mean", qualifiers={"interval": [C.Data(1, "hour")]}), {}
    if r < 0.45:
        ks = _keys(x, ("dimension_coordinate", "auxiliary_coordinate"))
        return C.CoordinateReference(coordinates=ks[:2], datum=C.Datum(parameters={"earth_radius": 6371007.0}),
                                     coordinate_conversion=C.CoordinateConversion(parameters={"grid_mapping_name": "latitude_longitude"})), {}
    ax = rng.choice(axes)
    try:
        n = cs[ax].get_size(None) or 1
    except Exception:
        n = 1
    K = rng.choice([C.AuxiliaryCoordinate, C.DimensionCoordinate, C.CellMeasure, C.DomainAncillary, C.FieldAncillary])
    c = K(properties={"long_name": "added by C04", "units": "m"})
    c.set_data(C.Data(np.arange(float(n)) + rng.randint(0, 5)))
    if K in (C.AuxiliaryCoordinate, C.DimensionCoordinate) and rng.random() < 0.5:
        c.set_bounds(C.Bounds(data=C.Data(np.stack([np.arange(float(n)) - 0.5, np.arange(float(n)) + 0.5], axis=-1))))
    if K is C.CellMeasure:
        c.set_measure("area")
    return c, {"axes": [ax]}


COMPONENTS = ["count", "index", "list", "interior_ring", "node_count", "part_node_count", "tie_point_index",
              "interpolation_parameter", "bogus"]


STYLES = ("valid", "invalid", "unusual")


def _perturb(x, name, kw, rng, style, d, nd):
    """Turn generated (mostly valid) keyword arguments of an in-place-switchable method into INVALID ones (the call
    is expected to raise — possibly half-way) or into VALID BUT UNUSUAL ones (explicit axes that differ from the
    current data axes, square data with swapped axes, arguments for a data-less template).  All from `rng`."""
    C = cfdm()
    shape = ()
    try:
        shape = tuple(int(s) for s in d.shape) if d is not None else ()
    except Exception:
        pass
    isfield = isinstance(x, C.Field)
    if style == "invalid":
        if name == "squeeze":
            big = [i for i, s in enumerate(shape) if s != 1]
            kw["axes"] = rng.choice([[nd + 2], [-nd - 3], big[:1] or [7], [0, 0], "x", [1.5]])
        elif name == "transpose":
            kw["axes"] = rng.choice([list(range(nd)) + [nd], [0] * max(nd, 1), list(range(1, nd + 1)), [nd + 4], "xy",
                                     list(range(max(nd - 1, 0)))])
            if isfield and rng.random() < 0.5:
                kw["constructs"] = True
        elif name == "insert_dimension":
            if isfield:
                spanned = list(x.get_data_axes(default=()))
                bigs = [k for k in _keys(x, ("domain_axis",)) if x.constructs[k].get_size(0) != 1 and k not in spanned]
                kw["axis"] = rng.choice(spanned[:1] + bigs[:1] + ["domainaxis99", 3])
                if rng.random() < 0.5:
                    kw["position"] = rng.choice([nd + 3, -nd - 4])
            else:
                kw["position"] = rng.choice([nd + 3, -nd - 4, "x", 1.5])
        elif name == "flatten":
            kw["axes"] = rng.choice([[nd + 2], [0, 0], "x"])
        elif name == "compress":
            kw["method"] = rng.choice(["bogus", "contiguous" if nd != 2 else "indexed_contiguous", None])
        elif name == "apply_masking":
            if "fill_values" in kw or not hasattr(x, "get_data"):
                kw.update(rng.choice([dict(valid_range=[1.0, 2.0, 3.0]), dict(valid_min=1.0, valid_range=[0.0, 5.0]),
                                      dict(valid_max=9.0, valid_range=[0.0, 5.0]), dict(valid_range=3.0)]))
            else:
                return False
        elif name == "masked_values":
            kw["value"] = rng.choice(["x", None, [1, 2, 3, 4, 5, 6, 7]])
        elif name == "filled":
            kw["fill_value"] = rng.choice(["x", [1, 2, 3, 4, 5, 6, 7]])
        elif name == "set_data":
            bad = C.Data(__import__("numpy").arange(float((shape[0] if shape else 1) + 3)).reshape(-1, 1, 1)[:, :, :0 + 1])
            r = rng.random()
            if isfield:
                axes = list(x.get_data_axes(default=()))
                allax = _keys(x, ("domain_axis",))
                if r < 0.25:
                    kw["axes"] = axes + ["domainaxis99"]          # too many / unknown
                elif r < 0.45:
                    kw["axes"] = ["domainaxis98"] * max(nd, 1)
                elif r < 0.65 and allax:
                    kw["axes"] = [rng.choice(allax)] * max(nd, 2)  # repeated
                elif r < 0.85:
                    kw["data"] = bad                               # wrong shape for the recorded / given axes
                    if rng.random() < 0.5 and axes:
                        kw["axes"] = axes
                else:
                    kw["axes"] = axes[:-1] if axes else ["domainaxis0"]
            else:
                kw["data"] = rng.choice([bad, "not data", 3.5]) if r < 0.7 else C.Data(
                    __import__("numpy").zeros((2, 3, 2, 2)))
        else:
            return False
        return True
    if style == "unusual":
        if name == "set_data" and isfield:
            axes = list(x.get_data_axes(default=()))
            allax = _keys(x, ("domain_axis",))
            sizes = {k: x.constructs[k].get_size(None) for k in allax}
            r = rng.random()
            np = __import__("numpy")
            if r < 0.4 and len(axes) >= 2:
                # explicit axes in another order, data shaped for that order (square or not)
                perm = axes[:]
                rng.shuffle(perm)
                if perm == axes:
                    perm = axes[::-1]
                shp = [sizes[k] or 1 for k in perm]
                kw["axes"] = perm
                kw["data"] = C.Data(np.arange(float(np.prod(shp))).reshape(shp), units="K")
            elif r < 0.7 and allax:
                # other axes than the current ones (a subset / other domain axes of the field)
                pick = rng.sample(allax, rng.randint(1, min(3, len(allax))))
                shp = [sizes[k] or 1 for k in pick]
                kw["axes"] = pick
                kw["data"] = C.Data(np.arange(float(np.prod(shp))).reshape(shp), units="K")
            else:
                # same shape, axes stated explicitly although already recorded
                kw["axes"] = axes
            return True
        if name == "transpose" and nd >= 2:
            # square data with two equal-sized axes swapped
            eq = [(i, j) for i in range(nd) for j in range(i + 1, nd) if shape[i] == shape[j]]
            perm = list(range(nd))
            i, j = rng.choice(eq) if eq else (0, nd - 1)
            perm[i], perm[j] = perm[j], perm[i]
            kw["axes"] = perm if rng.random() < 0.7 else [k - nd for k in perm]
            if isfield:
                kw["constructs"] = rng.random() < 0.6
            return True
        if name == "squeeze":
            ones = [i for i, s in enumerate(shape) if s == 1]
            if not ones:
                kw["axes"] = []
            else:
                kw["axes"] = rng.choice([[ones[-1] - nd], ones[::-1], ones[0], tuple(ones)])
            return True
        if name == "insert_dimension" and not isfield:
            kw["position"] = rng.choice([-1, nd, -nd - 1, 0])
            return True
        return False
    return True


def make_call(x, name, kind, rng, other=None, inplace=None, style="valid"):
    """(callable, description) or None.  `inplace` is True/False/None (None: leave the default).
    `style` (in-place-switchable methods only): "valid" | "invalid" | "unusual", see `_perturb`."""
    C = cfdm()
    K = type(x)
    if name in UNCALLABLE:
        return None
    if kind == "property":
        return (lambda: getattr(x, name)), f"{name}"
    if kind == "dunder":
        if name == "__getitem__":
            ix = _index(x, rng)
            return (lambda: x[ix]), f"[{ix!r}]"
        if name == "__setitem__":
            ix = _index(x, rng, assign=True)
            v = rng.choice([0, -7.5, np.ma.masked, 3])
            return (lambda: x.__setitem__(ix, v)), f"[{ix!r}]={v!r}"
        if name == "__contains__":
            k = rng.choice(_keys(x) or ["nokey"])
            return (lambda: k in x), f"{k} in"
        if name == "__deepcopy__":
            import copy as _copy
            return (lambda: _copy.deepcopy(x)), "deepcopy"
        if name == "__copy__":
            import copy as _copy
            return (lambda: _copy.copy(x)), "copy.copy"
        if name == "__iter__":
            return (lambda: list(iter(x))), "list(iter)"
        if name in ("__eq__", "__and__"):
            o = other if other is not None else x.copy()
            return (lambda: getattr(x, name)(o)), name
        fn = {"__str__": str, "__repr__": repr, "__len__": len, "__bool__": bool, "__int__": int, "__float__": float,
              "__array__": np.asanyarray, "__data__": lambda y: y.__data__()}[name]
        return (lambda: fn(x)), name
    f = getattr(x, name)
    try:
        sig = sig_of(f)
    except (TypeError, ValueError):
        return (lambda: f()), f"{name}()"
    args, kw = [], {}
    desc = []
    d = _data_of(x)
    nd = 0
    try:
        nd = d.ndim if d is not None else 0
    except Exception:
        pass
    for pn, p in sig.parameters.items():
        if p.kind in (p.VAR_POSITIONAL, p.VAR_KEYWORD):
            if pn in ("identities", "identity") or (p.kind == p.VAR_POSITIONAL and name.startswith(("filter_by", "construct", "domain_ax", "coord", "dimension_c", "auxiliary_c", "cell_", "field_anc", "domain_anc", "domain_top", "has_construct", "del_construct", "get_construct"))):
                if rng.random() < 0.6:
                    args_extra = [rng.choice(["latitude", "longitude", "time", "long_name=aux 0", "ncvar%lat0", "X", "area"] + _keys(x)[:6])]
                    args += args_extra
            continue
        required = p.default is inspect._empty
        val = _arg(x, name, pn, rng, required, d, nd, other)
        if val is _SKIP:
            if required:
                return None
            continue
        if p.kind == p.POSITIONAL_ONLY:
            args.append(val)
        else:
            kw[pn] = val
    if inplace is not None and "inplace" in sig.parameters:
        kw["inplace"] = inplace
    if style != "valid" and kind == "switch":
        # positional-only parameters do not occur among the switchable methods; everything is in kw
        for pn in list(kw):
            if pn not in sig.parameters:
                kw.pop(pn)
        kw0 = dict(kw)
        if not _perturb(x, name, kw, rng, style, d, nd):
            # no invalid / unusual arguments exist for this method (uncompress, to_memory, …): the valid ones
            kw.clear()
            kw.update(kw0)
            style = "valid"
        for pn in list(kw):
            if pn not in sig.parameters and not any(q.kind == q.VAR_KEYWORD for q in sig.parameters.values()):
                kw.pop(pn)
    if name == "set_construct" and "construct" in kw:
        c, extra = kw.pop("construct")
        kw["construct"] = c
        for k, v in extra.items():
            kw.setdefault(k, v)
    if name == "replace" and "construct" in kw:
        kw["construct"] = kw["construct"][0]
    desc = f"{name}({', '.join([_short(a)[:40] for a in args] + [k + '=' + _short(v) for k, v in kw.items()])})"
    call = (lambda: f(*args, **kw))
    call.kw = kw            # for the evidence tags of the correspondence module
    call.style = style
    return call, desc


def _short(v):
    try:
        s = repr(v).replace("\n", " ")
    except Exception:  # repr of e.g. a Data without an array raises (inspection is C19's subject)
        s = "<" + type(v).__name__ + ">"
    return s if len(s) <= 48 else s[:45] + "..."


_SKIP = object()


def _arg(x, name, pn, rng, required, d, nd, other):
    """A value for parameter `pn` of method `name` on x, or _SKIP to leave the default."""
    C = cfdm()
    opt = (lambda p: (not required) and rng.random() > p)  # leave an optional parameter alone with probability 1-p
    if pn == "inplace":
        return _SKIP
    if pn.startswith("_") or pn in ("verbose", "display", "kwargs", "args"):
        return _SKIP
    if pn == "default":
        return None if (required or rng.random() < 0.8) else _SKIP
    if pn == "value":
        if name == "masked_values":
            try:
                # an unmasked element (the memory under masked elements is arbitrary)
                vals = np.ma.compressed(d.array)
                return float(vals[0]) if vals.size else 0.0
            except Exception:
                return 0.0
        if name in ("nc_set_unlimited", "nc_set_external"):
            return rng.random() < 0.5
        if name == "nc_set_global_attribute" or name == "nc_set_group_attribute":
            return rng.choice([None, "v", np.array([1, 2])])
        if name == "set_property":
            return rng.choice(["new value", np.array([3, 4]), [1.5, 2.5], 7])
        if name == "set_qualifier":
            return rng.choice(["sea", [C.Data(2, "days")]])
        if name == "set_parameter":
            return rng.choice([1.0, C.Data(3.0, "m"), np.array([1.0, 2.0])])
        if name == "set_domain_ancillary":
            return rng.choice([None, "domainancillary7"])
        return rng.choice(G.NAMES) + ("/grp" if False else "")
    if pn == "key":
        if isinstance(x, C.CoordinateReference):
            return rng.choice(sorted(x.coordinates()) + ["auxiliarycoordinate9"])
        ks = _keys(x)
        if name in ("get_data_axes", "del_data_axes", "has_data_axes", "set_data_axes"):
            ks = [k for k in ks if k in x.constructs.data_axes()] if hasattr(x, "constructs") else ks
        if name == "domain_axis_identity":
            ks = _keys(x, ("domain_axis",))
        if not required and rng.random() < 0.5:
            return _SKIP
        return rng.choice(ks) if ks and rng.random() < 0.9 else "nokey"
    if pn == "component":
        return rng.choice(COMPONENTS)
    if pn == "groups":
        return rng.choice([["g1", "g2"], ["forecast"], ()])
    if pn == "prop":
        ps = []
        try:
            ps = sorted(x.properties())
        except Exception:
            pass
        return rng.choice(ps + ["comment", "flag_values", "new_prop"])
    if pn == "properties":
        if name == "del_properties":
            return ["long_name", "comment"]
        return {"comment": "set by C04", "flag_values": np.array([1, 2, 4]), "history": None} if name.startswith("nc_") else \
            {"comment": "set by C04", "flag_values": np.array([1, 2, 4]), "valid_range": [0.0, 5.0]}
    if pn == "qualifier":
        return rng.choice(["within", "where", "over", "interval", "comment"])
    if pn in ("domain_ancillary", "term"):
        return rng.choice(G.TERMS)
    if pn == "parameter":
        ps = []
        try:
            ps = sorted(x.parameters())
        except Exception:
            pass
        return rng.choice(ps + ["earth_radius", "standard_parallel"])
    if pn == "construct":
        if name == "replace":
            ks = _keys(x)
            return (x[rng.choice(ks)].copy() if ks else C.DomainAxis(1),)
        return _construct_for(x, rng)
    if pn == "chunksizes":
        return rng.choice(["contiguous", 4096, None, [1] * nd, {0: 1} if nd else 128])
    if pn == "bounds" and name != "set_bounds":
        return rng.random() < 0.7 if not opt(0.3) else _SKIP
    if pn == "interior_ring" and name != "set_interior_ring":
        return rng.random() < 0.7 if not opt(0.3) else _SKIP
    if pn == "bounds":
        return C.Bounds(data=_new_like_data(x, rng, extra=(2,)), properties={"long_name": "new bounds"})
    if pn == "climatology":
        return rng.random() < 0.5
    if pn == "data":
        if name == "copy":
            return rng.random() < 0.5 if not opt(0.5) else _SKIP
        if name in ("filter_by_data",):
            return _SKIP
        return _new_like_data(x, rng)
    if pn == "array":
        if name == "copy":
            return rng.random() < 0.5 if not opt(0.5) else _SKIP
        return _SKIP
    if pn == "interior_ring":
        dd = _new_like_data(x, rng)
        return C.InteriorRing(data=C.Data(np.zeros(dd.shape if dd.ndim else (1,), dtype=int)))
    if pn == "node_count":
        return C.NodeCountProperties(properties={"long_name": "new node count"})
    if pn == "part_node_count":
        return C.PartNodeCountProperties(properties={"long_name": "new part node count"})
    if pn == "connectivity":
        return rng.choice(["edge", "node"])
    if pn == "measure":
        return rng.choice(["area", "volume"])
    if pn == "cell":
        return rng.choice(["face", "edge", "point"])
    if pn == "other":
        if other is not None and rng.random() < 0.7:
            return other
        return x.copy() if hasattr(x, "copy") else x
    if pn == "external":
        return rng.random() < 0.5
    if pn == "construct_type":
        return rng.choice(["dimension_coordinate", "auxiliary_coordinate", "cell_method", "domain_axis"])
    if pn == "domain_ancillaries":
        return {"a": "domainancillary0", "b": None}
    if pn == "parameters":
        if name == "del_parameters":
            return ["earth_radius"]
        return {"earth_radius": 6371007.0, "towgs84": np.array([1.0, 2.0]), "semi_major_axis": C.Data(6378137.0, "m")}
    if pn == "coordinate_conversion":
        return C.CoordinateConversion(parameters={"grid_mapping_name": "latitude_longitude"}, domain_ancillaries={"a": "domainancillary0"})
    if pn == "datum":
        return C.Datum(parameters={"earth_radius": 6371007.0})
    if pn == "coordinates":
        return ["dimensioncoordinate0", "auxiliarycoordinate3"]
    if pn == "coordinate":
        return "dimensioncoordinate1"
    if pn == "axes":
        if name in ("set_data_axes",):
            try:
                k = None
                return list(x.get_data_axes())
            except Exception:
                return ["domainaxis0"]
        if name == "set_axes":
            return rng.choice([["domainaxis0"], ["area"], ["domainaxis1", "domainaxis0"]])
        if name in ("transpose",):
            if opt(0.6):
                return _SKIP
            p = list(range(nd))
            rng.shuffle(p)
            if isinstance(x, C.Field):
                return p
            return p
        if name in ("squeeze", "flatten", "maximum", "minimum", "sum", "max", "min"):
            if opt(0.5):
                return _SKIP
            if name == "squeeze":
                try:
                    ones = [i for i, s in enumerate(d.shape) if s == 1]
                except Exception:
                    ones = []
                return ones[:rng.randint(0, len(ones))] if ones else _SKIP
            return sorted(rng.sample(range(nd), rng.randint(1, nd))) if nd else _SKIP
        if name == "set_data":
            try:
                return list(x.get_data_axes())
            except Exception:
                return _SKIP
        if name == "set_construct":
            return _SKIP
        return _SKIP
    if pn == "mesh_id":
        return rng.randint(1, 99)
    if pn == "size":
        return rng.randint(1, 9)
    if pn == "method":
        if name == "compress":
            return rng.choice(["contiguous", "indexed", "indexed_contiguous", "gathered"])
        if name == "set_method":
            return rng.choice(["mean", "sum"])
        return _SKIP
    if pn == "axis":
        if name == "insert_dimension":
            try:
                cand = [k for k in _keys(x, ("domain_axis",)) if k not in x.get_data_axes(default=()) and x.constructs[k].get_size(0) == 1]
            except Exception:
                cand = []
            return rng.choice(cand) if cand else "domainaxis99"
        return _SKIP
    if pn == "position":
        return rng.randint(0, nd) if not opt(0.7) else _SKIP
    if pn == "shapes":
        return rng.choice([-1, "auto", 2])
    if pn == "copy":
        if required:
            return True
        r = rng.random()
        return _SKIP if r < 0.4 else (r < 0.7)
    if pn == "indices":
        return _index(x, rng) if not opt(0.5) else _SKIP
    if pn in ("fill_value",):
        return rng.choice([-999.0, 0]) if not opt(0.5) else _SKIP
    if pn == "fill_values":
        return rng.choice([True, [1.0, 2.0], False]) if not opt(0.7) else _SKIP
    if pn in ("valid_min", "valid_max"):
        return float(rng.randint(0, 50)) if not opt(0.4) else _SKIP
    if pn == "todict":
        return rng.random() < 0.5 if not opt(0.5) else _SKIP
    if pn == "units":
        return rng.choice(["m", "K"]) if (required or not opt(0.3)) else _SKIP
    if pn == "calendar":
        return rng.choice(["gregorian", "noleap"]) if (required or not opt(0.3)) else _SKIP
    if pn in ("squeeze", "cached", "header", "representative_data", "string", "full_domain", "generator", "remove_empty_columns"):
        return rng.random() < 0.5 if not opt(0.3) else _SKIP
    if pn == "start_index":
        return rng.choice([0, 1]) if not opt(0.5) else _SKIP
    if pn in ("types",):
        return _SKIP
    if pn == "depth":
        return _SKIP
    if pn == "field":
        return _SKIP
    if pn in ("rtol", "atol"):
        return _SKIP
    if pn in ("ignore_data_type", "ignore_fill_value", "ignore_type", "ignore_compression"):
        return rng.random() < 0.5 if not opt(0.2) else _SKIP
    if pn == "constructs" and name in ("transpose", "insert_dimension"):
        # Field.transpose / insert_dimension: also act on the metadata constructs
        return rng.random() < 0.5 if not opt(0.6) else _SKIP
    if pn in ("shape", "dataset", "address", "constructs"):
        return _SKIP
    if pn in ("filename",):
        return _SKIP
    if pn in ("count_properties", "index_properties", "list_properties"):
        return {"long_name": "made by compress"} if not opt(0.4) else _SKIP
    if required:
        return _SKIP
    return _SKIP
