"""C04 — translator: in-place mutation sites of stored containers, extracted from /repo by `ast`.

For every function of every module of cfdm (tests and the reader/writer plumbing excluded) the
translator follows, statement by statement, which local names *may* hold a container that was fetched
from the storage of `self`:

    self._components            the component dictionary itself            root  comps
    self._get_component("c")    self._components["c"]   self._custom      root  comp c
    self.<_attr>                a private instance attribute               root  attr <_attr>
    <stored>[k]   <stored>.get(k)   <stored>.setdefault(k, …)              one key deeper (literal key or *)

(a name bound to anything else — `out = out.copy()`, `out = {}` — stops being an alias; branches are
merged as *may* alias) and records every statement that mutates such a container in place:

    <stored>[k] = v   <stored>[k] += v   del <stored>[k]
    <stored>.update/.pop/.popitem/.clear/.setdefault/.append/.extend/.insert/.remove/.add/.discard/.sort/.reverse(…)
    self.<attr> = v   del self.<attr>   setattr(self, …)   self.__dict__[…] = v          (root obj)
    @cached_property def <attr>(self)                                                    (root obj)

Output: a list of sites (file, line, class, function, root, keys, op) and the Lean table
lean/Cfdm/Generated/HeapSites.lean whose theorem `C04_code_sites_disciplined` (Props/C04.lean) is
re-checked by `lake build` whenever the code changes.
"""
import ast
import os
from pathlib import Path

MUTATORS = {"update", "pop", "popitem", "clear", "setdefault", "append", "extend", "insert", "remove", "add", "discard",
            "sort", "reverse", "difference_update", "intersection_update", "symmetric_difference_update", "fill", "put",
            "itemset", "resize", "__setitem__", "__delitem__"}
FETCHERS = {"get", "setdefault", "__getitem__"}
EXCLUDE_DIRS = {"test", "read_write", "docstring"}
EXCLUDE_FILES = {"cfdmimplementation.py", "abstract/implementation.py", "core/abstract/implementation.py", "functions.py", "constants.py",
                 "examplefield.py", "cfvalidation.py", "units.py", "data/netcdfindexer.py"}


class Ref:
    """a storage reference: root in {'comps', 'comp', 'attr', 'obj'}, name (component / attribute), keys below"""
    __slots__ = ("root", "name", "keys")

    def __init__(self, root, name="", keys=()):
        self.root, self.name, self.keys = root, name, tuple(keys)

    def deeper(self, k):
        return Ref(self.root, self.name, self.keys + (k,))

    def tup(self):
        return (self.root, self.name, self.keys)


def _lit(node):
    if isinstance(node, ast.Constant) and isinstance(node.value, (str, int)):
        return str(node.value)
    return "*"


class FuncScan:
    def __init__(self, fn, selfname):
        self.fn = fn
        self.selfname = selfname
        self.sites = []          # (lineno, Ref, op)
        # names that may be the receiver itself: `f = self`, `d = _inplace_enabled_define_and_cleanup(self)`
        # (the working object of an in-place-switchable method: self, or a copy of it)
        self.selfnames = {selfname}
        changed = True
        while changed:
            changed = False
            for n in ast.walk(fn):
                if isinstance(n, ast.Assign) and len(n.targets) == 1 and isinstance(n.targets[0], ast.Name):
                    v = n.value
                    alias = isinstance(v, ast.Name) and v.id in self.selfnames
                    if isinstance(v, ast.Call) and isinstance(v.func, ast.Name) and \
                            v.func.id == "_inplace_enabled_define_and_cleanup" and v.args and \
                            isinstance(v.args[0], ast.Name) and v.args[0].id in self.selfnames:
                        alias = True
                    if alias and n.targets[0].id not in self.selfnames:
                        self.selfnames.add(n.targets[0].id)
                        changed = True

    # ---- storage expressions
    def ref_of(self, e, env):
        """Ref if expression `e` may evaluate to a container held in the storage of self, else None"""
        if isinstance(e, ast.Name):
            return env.get(e.id)
        if isinstance(e, ast.Attribute) and isinstance(e.value, ast.Name) and e.value.id in self.selfnames:
            if e.attr == "_components":
                return Ref("comps")
            if e.attr == "_custom":
                return Ref("comp", "custom")
            if e.attr == "__dict__":
                return Ref("obj")
            if e.attr.startswith("_") and not e.attr.startswith("__"):
                return Ref("attr", e.attr)
            return None
        if isinstance(e, ast.Call):
            f = e.func
            if isinstance(f, ast.Attribute):
                # self._get_component("c", …)
                if isinstance(f.value, ast.Name) and f.value.id in self.selfnames and f.attr == "_get_component" and e.args:
                    return Ref("comp", _lit(e.args[0]))
                if f.attr in FETCHERS and e.args:
                    base = self.ref_of(f.value, env)
                    if base is not None:
                        if base.root == "comps":
                            return Ref("comp", _lit(e.args[0]))
                        return base.deeper(_lit(e.args[0]))
            return None
        if isinstance(e, ast.Subscript):
            base = self.ref_of(e.value, env)
            if base is not None:
                if base.root == "comps":
                    return Ref("comp", _lit(e.slice))
                return base.deeper(_lit(e.slice))
            return None
        if isinstance(e, ast.IfExp):
            return self.ref_of(e.body, env) or self.ref_of(e.orelse, env)
        if isinstance(e, ast.BoolOp):
            for v in e.values:
                r = self.ref_of(v, env)
                if r is not None:
                    return r
        if isinstance(e, ast.NamedExpr):
            return self.ref_of(e.value, env)
        return None

    def rooted_at_self(self, e):
        while True:
            if isinstance(e, ast.Name):
                return e.id in self.selfnames
            if isinstance(e, ast.Attribute):
                e = e.value
            elif isinstance(e, ast.Call):
                e = e.func
            elif isinstance(e, ast.Subscript):
                e = e.value
            else:
                return False

    # ---- mutation sites inside an expression
    def scan_expr(self, e, env):
        for n in ast.walk(e):
            if isinstance(n, ast.Call) and isinstance(n.func, ast.Attribute) and n.func.attr in MUTATORS:
                base = self.ref_of(n.func.value, env)
                if base is not None:
                    key = "*"
                    if n.func.attr in ("pop", "setdefault", "__setitem__", "__delitem__") and n.args:
                        key = _lit(n.args[0])
                    self.sites.append((n.lineno, base, n.func.attr, key))
            if isinstance(n, ast.Call) and isinstance(n.func, ast.Name) and n.func.id in ("setattr", "delattr") and n.args:
                a0 = n.args[0]
                if isinstance(a0, ast.Name) and a0.id in self.selfnames:
                    self.sites.append((n.lineno, Ref("obj"), n.func.id, _lit(n.args[1]) if len(n.args) > 1 else "*"))
            if isinstance(n, ast.NamedExpr) and isinstance(n.target, ast.Name):
                r = self.ref_of(n.value, env)
                if r is not None:
                    env[n.target.id] = r

    def target_write(self, t, env, op, lineno):
        if isinstance(t, (ast.Tuple, ast.List)):
            for x in t.elts:
                self.target_write(x, env, op, lineno)
            return
        if isinstance(t, ast.Starred):
            self.target_write(t.value, env, op, lineno)
            return
        if isinstance(t, ast.Subscript):
            base = self.ref_of(t.value, env)
            if base is not None:
                self.sites.append((lineno, base, op, _lit(t.slice)))
            self.scan_expr(t.value, env)
            return
        if isinstance(t, ast.Attribute):
            if isinstance(t.value, ast.Name) and t.value.id in self.selfnames:
                # `self.__dict__ = …` rebinds every attribute
                self.sites.append((lineno, Ref("obj"), op, "*" if t.attr == "__dict__" else t.attr))
            else:
                base = self.ref_of(t.value, env)
                if base is not None:
                    # attribute of a stored object: a write into that object
                    self.sites.append((lineno, base.deeper("." + t.attr), op, t.attr))
                elif self.rooted_at_self(t.value):
                    # `self.constructs._field_data_axes = axes`: an attribute of a cfdm object that an accessor of
                    # self hands out is rebound — a write at that object itself, whatever its class
                    self.sites.append((lineno, Ref("nested"), op, t.attr))
            return

    def bind(self, t, value, env):
        """(re)bind assignment targets that are plain names"""
        if isinstance(t, ast.Name):
            r = self.ref_of(value, env) if value is not None else None
            if r is not None and r.root != "obj":
                env[t.id] = r
            else:
                env.pop(t.id, None)
        elif isinstance(t, (ast.Tuple, ast.List)):
            for x in t.elts:
                self.bind(x, None, env)

    # ---- statements
    def block(self, stmts, env):
        for s in stmts:
            self.stmt(s, env)

    @staticmethod
    def merge(envs):
        out = {}
        for e in envs:
            for k, v in e.items():
                out.setdefault(k, v)
        return out

    def stmt(self, s, env):
        if isinstance(s, (ast.FunctionDef, ast.AsyncFunctionDef, ast.ClassDef)):
            return  # nested definitions are scanned on their own
        if isinstance(s, ast.Assign):
            self.scan_expr(s.value, env)
            for t in s.targets:
                self.target_write(t, env, "set", s.lineno)
            for t in s.targets:
                self.bind(t, s.value, env)
            return
        if isinstance(s, ast.AnnAssign):
            if s.value is not None:
                self.scan_expr(s.value, env)
                self.target_write(s.target, env, "set", s.lineno)
                self.bind(s.target, s.value, env)
            return
        if isinstance(s, ast.AugAssign):
            self.scan_expr(s.value, env)
            if isinstance(s.target, ast.Name):
                # `alias += …` / `alias |= …` mutates lists, sets, dicts and numpy arrays in place
                r = env.get(s.target.id)
                if r is not None:
                    self.sites.append((s.lineno, r, "aug", "*"))
            else:
                self.target_write(s.target, env, "aug", s.lineno)
            return
        if isinstance(s, ast.Delete):
            for t in s.targets:
                if isinstance(t, ast.Name):
                    env.pop(t.id, None)
                else:
                    self.target_write(t, env, "del", s.lineno)
            return
        if isinstance(s, ast.Expr):
            self.scan_expr(s.value, env)
            return
        if isinstance(s, ast.Return):
            if s.value is not None:
                self.scan_expr(s.value, env)
            return
        if isinstance(s, ast.If):
            self.scan_expr(s.test, env)
            e1, e2 = dict(env), dict(env)
            self.block(s.body, e1)
            self.block(s.orelse, e2)
            m = self.merge([e1, e2])
            env.clear(); env.update(m)
            return
        if isinstance(s, (ast.For, ast.AsyncFor)):
            self.scan_expr(s.iter, env)
            # the loop variable of `for k, v in stored.items()` / `for v in stored.values()` may alias a nested value
            it = s.iter
            r = None
            if isinstance(it, ast.Call) and isinstance(it.func, ast.Attribute) and it.func.attr in ("values", "items"):
                r = self.ref_of(it.func.value, env)
                if r is not None and r.root == "comps":
                    r = Ref("comp", "*")
                elif r is not None:
                    r = r.deeper("*")
            e1 = dict(env)
            if r is not None:
                tgt = s.target
                if isinstance(tgt, ast.Tuple) and len(tgt.elts) == 2 and isinstance(tgt.elts[1], ast.Name):
                    e1[tgt.elts[1].id] = r
                elif isinstance(tgt, ast.Name) and it.func.attr == "values":
                    e1[tgt.id] = r
            else:
                self.bind(s.target, None, e1)
            # twice: an alias made at the end of the body reaches its start
            self.block(s.body, e1)
            n0 = len(self.sites)
            self.block(s.body, e1)
            del self.sites[n0:]
            e2 = dict(env)
            self.block(s.orelse, e2)
            m = self.merge([e1, e2, env])
            env.clear(); env.update(m)
            return
        if isinstance(s, ast.While):
            self.scan_expr(s.test, env)
            e1 = dict(env)
            self.block(s.body, e1)
            n0 = len(self.sites)
            self.block(s.body, e1)
            del self.sites[n0:]
            e2 = dict(env)
            self.block(s.orelse, e2)
            m = self.merge([e1, e2, env])
            env.clear(); env.update(m)
            return
        if isinstance(s, (ast.With, ast.AsyncWith)):
            for it in s.items:
                self.scan_expr(it.context_expr, env)
                if it.optional_vars is not None:
                    self.bind(it.optional_vars, it.context_expr, env)
            self.block(s.body, env)
            return
        if isinstance(s, ast.Try) or type(s).__name__ == "TryStar":
            e1 = dict(env)
            self.block(s.body, e1)
            envs = [e1]
            for h in s.handlers:
                eh = self.merge([env, e1])
                self.block(h.body, eh)
                envs.append(eh)
            eo = dict(e1)
            self.block(s.orelse, eo)
            envs.append(eo)
            m = self.merge(envs)
            self.block(s.finalbody, m)
            env.clear(); env.update(m)
            return
        if isinstance(s, ast.Match):
            self.scan_expr(s.subject, env)
            envs = []
            for c in s.cases:
                ec = dict(env)
                self.block(c.body, ec)
                envs.append(ec)
            m = self.merge(envs + [env])
            env.clear(); env.update(m)
            return
        for n in ast.iter_child_nodes(s):
            if isinstance(n, ast.expr):
                self.scan_expr(n, env)

    def run(self):
        self.block(self.fn.body, {})
        return self.sites


def _self_calls(fn, selfname):
    """names of methods/properties of `self` that the function uses (self.m(...), self.m, super().m(...)), and —
    prefixed with `@` — the global names it refers to (decorators included): helper functions outside classes"""
    out = set()
    for d in fn.decorator_list:
        for n in ast.walk(d):
            if isinstance(n, ast.Name):
                out.add("@" + n.id)
    for n in ast.walk(fn):
        if isinstance(n, ast.Name) and isinstance(n.ctx, ast.Load):
            out.add("@" + n.id)
        if isinstance(n, ast.Attribute):
            v = n.value
            if isinstance(v, ast.Name) and v.id == selfname:
                out.add(n.attr)
            elif isinstance(v, ast.Call) and isinstance(v.func, ast.Name) and v.func.id == "super":
                out.add(n.attr)
    return out


def _external_private_calls(tree):
    """private method names invoked on a receiver other than the first argument of the enclosing function"""
    out = set()
    for n in ast.walk(tree):
        if isinstance(n, ast.Call) and isinstance(n.func, ast.Attribute) and n.func.attr.startswith("_") \
                and not n.func.attr.startswith("__"):
            v = n.func.value
            if isinstance(v, ast.Name) and v.id in ("self", "cls"):
                continue
            if isinstance(v, ast.Call) and isinstance(v.func, ast.Name) and v.func.id == "super":
                continue
            out.add(n.func.attr)
    return out


def scan_file(path, rel):
    """(sites, functions, external private calls); functions = {(cls, func): set of self-call names}"""
    tree = ast.parse(Path(path).read_text())
    out = []
    funcs = {}

    def visit(node, cls, top=None):
        for n in ast.iter_child_nodes(node):
            if isinstance(n, ast.ClassDef):
                visit(n, n.name, top)
            elif isinstance(n, (ast.FunctionDef, ast.AsyncFunctionDef)):
                args = n.args.posonlyargs + n.args.args
                static = any(isinstance(d, ast.Name) and d.id in ("staticmethod", "classmethod") for d in n.decorator_list)
                if args and not static and (cls is not None or args[0].arg in ("self", "instance")):
                    # a helper outside any class is known by its own name and by that of the module-level function
                    # (decorator) that encloses it
                    owner = cls if cls is not None else "*" + (top or n.name)
                    sc = FuncScan(n, args[0].arg)
                    for lineno, ref, op, key in sc.run():
                        out.append(dict(file=rel, line=lineno, cls=owner, func=n.name, root=ref.root, name=ref.name,
                                        keys=list(ref.keys), op=op, key=key, via="self"))
                    # functools.cached_property stores the computed value as an instance attribute of that name
                    for dcr in n.decorator_list:
                        nm = dcr.attr if isinstance(dcr, ast.Attribute) else getattr(dcr, "id", "")
                        if nm == "cached_property":
                            out.append(dict(file=rel, line=n.lineno, cls=owner, func=n.name, root="obj", name="", keys=[],
                                            op="set", key=n.name, via="self"))
                    funcs.setdefault((owner, n.name), set()).update(_self_calls(n, args[0].arg))
                    if n.name == "__init__" and any(a.arg == "source" for a in args + n.args.kwonlyargs):
                        # does the constructor mutate the storage of the object it copies?
                        sc2 = FuncScan(n, "source")
                        for lineno, ref, op, key in sc2.run():
                            if ref.root != "obj" or op not in ("set",):
                                out.append(dict(file=rel, line=lineno, cls=owner, func="__init__", root=ref.root, name=ref.name,
                                                keys=list(ref.keys), op=op, key=key, via="source"))
                visit(n, cls, top if (top is not None or cls is not None) else n.name)
    visit(tree, None)
    return out, funcs, _external_private_calls(tree)


def scan_repo(repo):
    base = Path(repo) / "cfdm"
    sites, funcs, ext = [], {}, set()
    for p in sorted(base.rglob("*.py")):
        rel = p.relative_to(base).as_posix()
        parts = rel.split("/")
        if parts[0] in EXCLUDE_DIRS or rel in EXCLUDE_FILES:
            continue
        s, f, e = scan_file(p, rel)
        sites += s
        for (cls, fn), calls in f.items():
            funcs[(rel, cls, fn)] = calls
        ext |= e
    return sites, funcs, ext


# --------------------------------------------------------------------------- attribution to class families
FAM_LEAN = {"c": "container", "n": "nparray", "k": "constructs", "f": "filearray", "s": "subarray"}
REMOVERS = {"pop", "popitem", "clear", "remove", "discard", "del", "delattr", "__delitem__"}
NOT_ENTRY = {"__init__", "__new__", "__init_subclass__", "__class__", "__subclasshook__", "__getattribute__", "__setattr__",
             "__delattr__", "__dir__", "__reduce__", "__reduce_ex__", "__sizeof__", "__format__", "__doc__", "__module__",
             "__dict__", "__weakref__", "__hash__", "__getstate__", "__docstring_substitutions__",
             "__docstring_package_depth__", "__docstring_method_exclusions__"}


def attribute(repo, sites, funcs, ext, classes, family_of):
    """[(fam, root, name, keys, removes, key, provenance)] — every site that an operation on an object of a class of
    that family can reach.

    classes: the concrete classes in scope (class objects); family_of(cls) in 'cnkfs' (others are skipped).
    A site in method m of class B counts for class K (B in K's MRO) when m is reachable, through calls on
    self / super(), from an entry point of K: a public method or property, an indexing/inspection dunder, or — except
    for the classes whose copies share their `_components` dict (family n: no other object ever calls a private
    method on them; the meth stream polices that dynamically) — a private method that some code of cfdm invokes on
    another object.  Constructors are not entry points (they write to a new object)."""
    import inspect
    base = str(Path(repo) / "cfdm") + os.sep
    by_owner = {}
    for s in sites:
        by_owner.setdefault((s["file"], s["cls"], s["func"]), []).append(s)
    rows = {}
    reach_stats = {}
    helpers = {}
    for (rel, cls, fn) in funcs:
        if cls.startswith("*"):
            helpers.setdefault(fn, []).append((rel, cls, fn))
            helpers.setdefault(cls[1:], []).append((rel, cls, fn))
    for K in classes:
        fam = family_of(K)
        if fam not in FAM_LEAN:
            continue
        mro = []
        for B in K.__mro__:
            try:
                f = inspect.getsourcefile(B)
            except TypeError:
                continue
            if f and f.startswith(base):
                mro.append((f[len(base):].replace(os.sep, "/"), B.__name__))
        defined = {}
        for (rel, cls, fn) in funcs:
            if (rel, cls) in mro:
                defined.setdefault(fn, []).append((rel, cls, fn))
        entries = set()
        for n in defined:
            if n in NOT_ENTRY:
                continue
            if not n.startswith("_") or (n.startswith("__") and n.endswith("__")):
                entries.add(n)
            elif fam != "n" and n in ext:
                entries.add(n)
        seen = set()
        todo = [t for n in entries for t in defined[n]]
        while todo:
            t = todo.pop()
            if t in seen:
                continue
            seen.add(t)
            for m in funcs.get(t, ()):
                if m.startswith("@"):
                    # helpers outside classes that take the instance as first argument (the in-place decorator)
                    for t2 in helpers.get(m[1:], ()):
                        if t2 not in seen:
                            todo.append(t2)
                    continue
                for t2 in defined.get(m, ()):
                    if t2 not in seen:
                        todo.append(t2)
        reach_stats[K.__name__] = len(seen)
        for t in seen:
            for s in by_owner.get(t, ()):
                keys = list(s["keys"])
                key = s["key"]
                if keys and keys[-1].startswith("."):
                    key = keys.pop()[1:]
                # (no line numbers: the generated file should only change when the sites do)
                prov = f"{s['file']} {s['cls']}.{s['func']}"
                if s["root"] == "nested":
                    # the object written is another one than the receiver: any family
                    for fam2 in FAM_LEAN:
                        rows.setdefault((fam2, "obj", "", (), s["op"] in REMOVERS, key), set()).add(prov + " (nested object)")
                    continue
                row = (fam, s["root"] if s["via"] == "self" else "source:" + s["root"], s["name"], tuple(keys),
                       s["op"] in REMOVERS, key)
                rows.setdefault(row, set()).add(prov)
    out = [r + (sorted(p),) for r, p in sorted(rows.items())]
    return out, reach_stats


def lean_table(rows, repo_desc="/repo"):
    def q(x):
        return '"' + x.replace("\\", "\\\\").replace('"', '\\"') + '"'
    lines = [
        "/- GENERATED by harness/corr/C04.py:pre() (harness/heapsites_C04.py) from the sources of cfdm under " + repo_desc + ":",
        "   every statement that mutates, in place, a container fetched from the storage of `self`",
        "   (`self._components`, `self._get_component(c)`, `self._custom`, private instance attributes), attributed to",
        "   the class families whose operations reach it.  Do not edit.",
        "   entry = (family, root, name, keys below the root, removes entries, entry written); \"*\" = not a literal. -/",
        "namespace Cfdm.Generated.HeapSites",
        "",
        "def rawSites : List (String × String × String × List String × Bool × String) := [",
    ]
    body = []
    for fam, root, name, keys, rem, key, prov in rows:
        ks = "[" + ", ".join(q(k) for k in keys) + "]"
        body.append(f"  -- {'; '.join(prov[:4])}{' …' if len(prov) > 4 else ''}\n"
                    f"  ({q(FAM_LEAN[fam])}, {q(root)}, {q(name)}, {ks}, {'true' if rem else 'false'}, {q(key)})")
    lines.append(",\n".join(body))
    lines += ["]", "", "end Cfdm.Generated.HeapSites", ""]
    return "\n".join(lines)


def classification(rows):
    """component -> how its stored value is written: the table of 'replaced on write / entries set in place /
    nested values mutated in place' that the copy table has to match (evidence)"""
    out = {}
    for fam, root, name, keys, rem, key, prov in rows:
        if root == "comps":
            continue
        label = {"comp": "component", "attr": "attribute", "obj": "instance"}.get(root, root)
        ident = f"{FAM_LEAN[fam]}:{label}:{name or '-'}"
        depth = 1 + len(keys) if root in ("comp", "attr") else 0
        cur = out.setdefault(ident, dict(max_depth=0, sites=0))
        cur["max_depth"] = max(cur["max_depth"], depth)
        cur["sites"] += len(prov)
    for v in out.values():
        v["kind"] = {0: "attribute (re)bound", 1: "entries set/removed in place", 2: "nested values mutated in place"}.get(
            v["max_depth"], "deeper values mutated in place")
    return out


_SELFTEST_SRC = '''
class K:
    def a(self, prop, value):
        out = self._get_component("netcdf").get("global_attributes")
        if out is None:
            out = {}
        out[prop] = value
        self._get_component("netcdf")["global_attributes"] = out
    def b(self):
        out = self._get_component("netcdf").get("global_attributes")
        out = out.copy()
        out["x"] = 1
        return out
    def c(self):
        for k, v in self._get_component("parameters").items():
            v.append(1)
    def d(self):
        d = _inplace_enabled_define_and_cleanup(self)
        d._custom["cache"] = {}
        d._custom["cache"]["k"] = 2
        del d._components["data"]
        x = d._components
        x.pop("bounds")
    def e(self):
        arr = self._get_component("array")
        arr[...] = 0
        arr += 1
        self.constructs._field_data_axes = None
    def f(self):
        try:
            q = self._custom
        except KeyError:
            q = {}
        q["w"] = 1
    def __init__(self, source=None):
        n = source._get_component("netcdf")
        n["variable"] = "x"
'''
_SELFTEST_EXPECTED = [
    ("a", "self", "comp", "netcdf", ["global_attributes"], "set", "*"),
    ("a", "self", "comp", "netcdf", [], "set", "global_attributes"),
    ("c", "self", "comp", "parameters", ["*"], "append", "*"),
    ("d", "self", "comp", "custom", [], "set", "cache"),
    ("d", "self", "comp", "custom", ["cache"], "set", "k"),
    ("d", "self", "comps", "", [], "del", "data"),
    ("d", "self", "comps", "", [], "pop", "bounds"),
    ("e", "self", "comp", "array", [], "set", "*"),
    ("e", "self", "comp", "array", [], "aug", "*"),
    ("e", "self", "nested", "", [], "set", "_field_data_axes"),
    ("f", "self", "comp", "custom", [], "set", "w"),
    ("__init__", "source", "comp", "netcdf", [], "set", "variable"),
]


def selftest():
    """the translator on a fixed snippet (nested fetches, rebinding, loop variables, aliases of self, numpy in-place
    assignment, attribute of a nested object, try/except merge, a constructor writing into its source);
    returns None or a description of the first difference"""
    import tempfile
    with tempfile.TemporaryDirectory() as d:
        f = os.path.join(d, "t.py")
        Path(f).write_text(_SELFTEST_SRC)
        sites, _, _ = scan_file(f, "t.py")
    got = [(s["func"], s["via"], s["root"], s["name"], list(s["keys"]), s["op"], s["key"]) for s in sites]
    if got != _SELFTEST_EXPECTED:
        for g, e in zip(got + [None] * len(_SELFTEST_EXPECTED), _SELFTEST_EXPECTED + [None] * len(got)):
            if g != e:
                return f"translator self-test: got {g}, expected {e}"
    return None


if __name__ == "__main__":
    import sys
    sites, funcs, ext = scan_repo(sys.argv[1] if len(sys.argv) > 1 else os.environ.get("CFDM_REPO", "/repo"))
    for s in sites:
        print(f"{s['file']}:{s['line']} {s['cls']}.{s['func']} {s['via']} {s['root']}:{s['name']}/{'/'.join(s['keys'])} {s['op']} [{s['key']}]")
