"""C10.path — which name the refusals of cfdm.write are decided on, and which file is opened.

A scratch directory with X, Y, Z (regular files), an optional second hard link to X or Z, chains
of symbolic links of depth 1-3 (to X, to Z, to an absent name), a dangling link, a directory, a
sub-directory with a symbolic link back to its parent, and environment variables one of which has a
value that itself contains a `$`.  A field is read lazily from X under some spelling (absolute,
relative, ./, sub/../, ~, $VAR, ${VAR}, through the directory link, through a link chain, through
the hard link), then `cfdm.write(items, target)` with the target (and an `external=` file) under
some spelling, mode w / a / r+, overwrite on/off, injected failures.

Model input (`lean/Cfdm/Model/FilesPath.lean`): the directory entries (inode / link / directory),
for every string involved its expansion and the entry it denotes (computed by the harness from
`os.path.expandvars/expanduser`, `os.path.realpath` of the PARENT directory and `os.lstat` — never
by cfdm), the items as (names of the file arrays reachable from them, `get_original_filenames()`).
Compared: ok / raised:<enum>; same / touched of every directory entry (kind, inode, sha256 of the
inode's bytes, link target); the sequence of `os.remove` / `netCDF4.Dataset(…, 'w'|'a')` calls with the
entry their argument denotes.
Oracle: every file array reachable from an item names a file whose bytes are identical afterwards;
overwrite=False leaves what the target resolved to byte-identical and creates nothing; a refusal
changes nothing at all.
"""
import gc
import hashlib
import json
import os
import shutil

import numpy as np

from . import fw
from .fw import Case
from .c10_tree import deep_files

SIG_HARDLINK = "append-through-a-second-hard-link-of-a-source-file"
SIG_EXT2 = "external-name-expanded-twice"

BASE = {"x.nc": 0, "y.nc": 1, "z.nc": 2, "w.nc": 3, "l1.nc": 4, "l2.nc": 5, "h.nc": 6, "l3.nc": 7, "dl.nc": 8,
        "missing.nc": 9, "adir": 10, "e.nc": 11}
SPELL = ["abs", "rel", "dot", "dotdot", "tilde", "env", "envb", "dirlink"]

_cfdm = None
_c10 = None


def cfdm():
    global _cfdm
    if _cfdm is None:
        import logging
        import cfdm as m
        m.log_level("DISABLE")
        logging.disable(logging.CRITICAL)
        _cfdm = m
    return _cfdm


def C10():
    global _c10
    if _c10 is None:
        from .corr import C10 as m
        _c10 = m
    return _c10


class Env:
    """The scratch directory of one case."""

    def __init__(self, p):
        C = cfdm()
        m = C10()
        self.p = p
        m._counter[0] += 1
        self.dir = os.path.realpath(os.path.join(m.scratch(), f"p{os.getpid()}_{m._counter[0]}"))
        os.makedirs(os.path.join(self.dir, "sub"))
        os.makedirs(os.path.join(self.dir, "adir"))
        os.symlink("..", os.path.join(self.dir, "sub", "back"))
        self.cwd = os.getcwd()
        self.saved = {k: os.environ.get(k) for k in ("HOME", "C10DIR", "C10A", "C10B")}
        os.chdir(self.dir)
        os.environ["HOME"] = self.dir
        os.environ["C10DIR"] = self.dir
        os.environ["C10B"] = self.dir
        os.environ["C10A"] = "$C10B/x.nc"        # expanding `$C10A` once leaves a `$` behind
        J = lambda b: os.path.join(self.dir, b)
        shutil.copyfile(m.seed_path(dict(kind="example", i=p.get("seed", 0))), J("x.nc"))
        shutil.copyfile(m.seed_path(dict(kind="example", i=1)), J("y.nc"))
        shutil.copyfile(m.seed_path(dict(kind="example", i=2)), J("z.nc"))
        if p.get("hard"):
            os.link(J(p["hard"]), J("h.nc"))
        for name in ("l1.nc", "l2.nc", "l3.nc"):
            to = (p.get("links") or {}).get(name)
            if to:
                os.symlink(to, J(name))
        os.symlink("missing.nc", J("dl.nc"))
        # entries: names in the directory, numbered; other places get numbers from 50 on
        self.ent_id = dict(BASE)
        self.other = {}
        self.raw_id = {}
        self.raws = []

    # ---- strings
    def spell(self, base, how):
        d = self.dir
        return {"abs": os.path.join(d, base), "rel": base, "dot": "./" + base, "dotdot": "sub/../" + base,
                "tilde": "~/" + base, "env": "$C10DIR/" + base, "envb": "${C10DIR}/" + base,
                "dirlink": "sub/back/" + base, "twice": "$C10A"}[how]

    @staticmethod
    def expand(s):
        return os.path.expanduser(os.path.expandvars(s))

    def ent_of(self, s):
        """The directory entry a string denotes: every component but the last resolved by the OS."""
        a = os.path.join(self.dir, s)
        parent, base = os.path.split(a.rstrip("/") if len(a) > 1 else a)
        rp = os.path.realpath(parent)
        if rp == self.dir and os.path.isdir(rp):
            if base not in self.ent_id:
                self.ent_id[base] = 20 + len(self.ent_id)
            return self.ent_id[base]
        key = os.path.join(rp, base)
        if key not in self.other:
            self.other[key] = 50 + len(self.other)
        return self.other[key]

    def raw(self, s):
        """Number of a string; its expansions are numbered with it."""
        if s not in self.raw_id:
            self.raw_id[s] = 100 + len(self.raw_id)
            self.raws.append(s)
            self.raw(self.expand(s))
        return self.raw_id[s]

    # ---- the file system, observed
    def entries(self):
        """{entry id: ('f', inode number) | ('l', entry id) | ('d',)} for what exists."""
        out = {}
        inos = {}
        for base, e in sorted(self.ent_id.items(), key=lambda kv: kv[1]):
            q = os.path.join(self.dir, base)
            if os.path.islink(q):
                out[e] = ("l", self.ent_of(os.path.join(os.path.dirname(q), os.readlink(q))))
            elif os.path.isdir(q):
                out[e] = ("d",)
            elif os.path.isfile(q):
                ino = os.lstat(q).st_ino
                inos.setdefault(ino, len(inos))
                out[e] = ("f", inos[ino])
        for key, e in self.other.items():
            # a name outside the scratch directory or in a directory that does not exist: nothing can be
            # created there (the model's `dir` entry: not a file, cannot be opened for writing)
            out[e] = ("d",)
        return out

    def state(self):
        """{entry id: identity of what is under the entry}."""
        out = {}
        for base, e in self.ent_id.items():
            q = os.path.join(self.dir, base)
            if os.path.islink(q):
                out[e] = ("l", os.readlink(q))
            elif os.path.isdir(q):
                out[e] = ("d",)
            elif os.path.isfile(q):
                with open(q, "rb") as fh:
                    st = os.lstat(q)
                    out[e] = ("f", st.st_ino, st.st_mtime_ns, hashlib.sha256(fh.read()).hexdigest())
            else:
                out[e] = None
        return out

    def close(self):
        try:
            os.chdir(self.cwd)
            for k, v in self.saved.items():
                if v is None:
                    os.environ.pop(k, None)
                else:
                    os.environ[k] = v
        finally:
            gc.collect()
            shutil.rmtree(self.dir, ignore_errors=True)


def make_items(env, p):
    """The constructs written: 'x' lazily read from X under the spelling `readvia`, 'y' from Y, 'm' in memory,
    'xe' / 'me' the same with an external cell measure held in memory."""
    C = cfdm()
    out = []
    rv = p["readvia"]
    name = {"chain": "l" + str(p.get("chainlen", 1)) + ".nc", "hard": "h.nc"}.get(rv)
    spelled = env.spell(name, "abs") if name else env.spell("x.nc", rv)
    fx = None
    for it in p["items"]:
        if it[0] == "x":
            if fx is None:
                fx = C.read(spelled)[0]
            f = fx.copy()
        elif it[0] == "y":
            f = C.read(env.spell("y.nc", "abs"))[0]
        else:
            f = C.example_field(p.get("seed", 0))
        if it.endswith("e"):
            axes = f.get_data_axes()
            cm = C.CellMeasure(measure="area", properties={"units": "m2"})
            cm.set_data(C.Data(np.arange(f.data.size, dtype="f8").reshape(f.data.shape)))
            cm.nc_set_variable("c10_external_area")
            cm.nc_set_external(True)
            f.set_construct(cm, axes=axes)
        out.append(f)
    return out


def abs_items(env, items, p):
    parts = []
    for f, it in zip(items, p["items"]):
        need = sorted(env.raw(s) for s in deep_files(f))
        orig = sorted(env.raw(s) for s in f.get_original_filenames())
        ext = "-~-" if it.endswith("e") else "_"
        parts.append(f"{_N(need)}/{_N(orig)}/{ext}")
    return ";".join(parts)


def _N(xs):
    xs = sorted(set(xs))
    return ".".join(str(x) for x in xs) if xs else "-"


def target_string(env, p):
    if p["tspell"] == "twice":
        return env.spell("x.nc", "twice")
    return env.spell(p["target"], p["tspell"])


def ext_string(env, p):
    if p.get("ext") is None:
        return None
    if p["espell"] == "twice":
        return env.spell("x.nc", "twice")
    return env.spell(p["ext"], p["espell"])


def line_of(env, items, p):
    fields = abs_items(env, items, p)
    t = env.raw(target_string(env, p))
    es = ext_string(env, p)
    e = env.raw(es) if es is not None else None
    # every string: its expansion and the entry it denotes (closure under expansion)
    i = 0
    while i < len(env.raws):
        env.raw(env.expand(env.raws[i]))
        i += 1
    raws = ",".join(f"{env.raw_id[s]}:{env.raw_id[env.expand(s)]}:{env.ent_of(s)}" for s in env.raws)
    ents = env.entries()
    et = ",".join(f"{k}=" + ("f%d" % v[1] if v[0] == "f" else "l%d" % v[1] if v[0] == "l" else "d")
                  for k, v in sorted(ents.items()))
    show = sorted(set(env.ent_id.values()) | set(env.other.values()))
    mode = "a" if p["mode"] in ("a", "r+") else "w"
    return (f"C10.path ents={et or '-'} raws={raws} fuel=40 fields={fields} target={t} mode={mode} ow={p['ow']} "
            f"ext={'-' if e is None else e} fault={p['fault']} omit=0 show={_N(show)}")


# --------------------------------------------------------------------------- generation
def gen_one(rng):
    links = {}
    r = rng.random()
    if r < 0.75:
        links["l1.nc"] = rng.choice(["x.nc", "x.nc", "x.nc", "z.nc", "w.nc", "h.nc", "y.nc"])
        if rng.random() < 0.6:
            links["l2.nc"] = "l1.nc"
            if rng.random() < 0.6:
                links["l3.nc"] = "l2.nc"
    hard = rng.choice([None, "x.nc", "x.nc", "x.nc", "z.nc"])
    if links.get("l1.nc") == "h.nc" and not hard:
        hard = "x.nc"
    chainlen = 3 if "l3.nc" in links else 2 if "l2.nc" in links else 1
    readvias = SPELL + ["abs", "abs"]
    if links.get("l1.nc") in ("x.nc", "h.nc") and (links.get("l1.nc") != "h.nc" or hard == "x.nc"):
        readvias += ["chain", "chain", "chain"]
    if hard == "x.nc":
        readvias += ["hard", "hard"]
    readvia = rng.choice(readvias)
    items = rng.choice([["x"], ["x"], ["x"], ["m", "x"], ["x", "m"], ["xe"], ["m", "xe"], ["me", "x"], ["m"], ["y", "x"]])
    has_ext = any(i.endswith("e") for i in items)
    mode = rng.choice(["w"] * 6 + ["a", "a", "a", "r+"])
    names = ["x.nc"] * 4 + ["z.nc", "w.nc", "y.nc", "dl.nc", "adir"] + [k for k in links] * 3 + (["h.nc"] * 3 if hard else [])
    target = rng.choice(names)
    if mode != "w" and hard == "x.nc" and (target == "h.nc" or links.get("l1.nc") == "h.nc" and target in links) \
            and rng.random() < 0.75:
        mode = "w"      # appending through the hard link is a known finding: keep it present, not dominant
    tspell = rng.choice(SPELL + ["abs"])
    if target == "x.nc" and rng.random() < 0.1:
        tspell = "twice"
    ext = espell = None
    if mode == "w" and (has_ext or rng.random() < 0.1):
        ext = rng.choice(["e.nc", "e.nc", "x.nc", "x.nc", "z.nc", "y.nc"] + [k for k in links] * 2 + (["h.nc"] * 2 if hard else []))
        if rng.random() < 0.08:
            ext = target
        espell = rng.choice(SPELL + ["abs"])
        if ext == "x.nc" and rng.random() < 0.25:
            espell = "twice"
    ow = 0 if rng.random() < 0.2 else 1
    if not ow and mode == "w" and rng.random() < 0.6:
        # overwrite=False where it matters: the target is (another name of) an existing file that no input needs
        how = rng.choice(["plain", "chain", "chain", "hard"])
        if how == "chain":
            if links.get("l1.nc") not in ("z.nc", "y.nc") and readvia != "chain":
                links["l1.nc"] = rng.choice(["z.nc", "y.nc"])
            if links.get("l1.nc") in ("z.nc", "y.nc"):
                target = rng.choice(sorted(links))
        elif how == "hard" and readvia != "hard" and links.get("l1.nc") != "h.nc":
            hard, target = "z.nc", "h.nc"
        else:
            target = rng.choice(["z.nc", "y.nc"])
    fr = rng.random()
    fault, fk = "none", 0
    if fr < 0.06:
        fault = "pre"
    elif fr < 0.2:
        fault, fk = f"emit:{rng.randrange(len(items))}", rng.randint(1, 3)
    p = dict(seed=rng.choice([0, 0, 1, 2]), links=links, hard=hard, chainlen=chainlen, readvia=readvia, items=items,
             target=target, tspell=tspell, mode=mode, ow=ow, ext=ext, espell=espell, fault=fault, faultk=fk)
    return p


def needed_inode(env, items):
    out = set()
    for f in items:
        for s in deep_files(f):
            try:
                out.add(os.stat(s).st_ino)
            except OSError:
                pass
    return out


def finish(p):
    """Make the request one that cfdm can carry out at all, and describe it."""
    env = Env(p)
    try:
        items = make_items(env, p)
        ts = Env.expand(target_string(env, p))
        needed = needed_inode(env, items)
        if p["mode"] != "w":
            # appending to a file nobody needs: only if a plain append of these items works at all
            tino = os.stat(ts).st_ino if os.path.isfile(ts) else None
            if tino is not None and tino not in needed:
                if not C10()._append_works(items, ts, {}):
                    p["mode"] = "w"
        line = line_of(env, items, p)
        info = dict(needed=bool(needed),
                    target_needed=os.path.isfile(ts) and os.stat(ts).st_ino in needed)
        return line, info
    finally:
        env.close()


def make_case(p, line, info):
    tags = ["path-mode:" + p["mode"], "path-target:" + p["target"], "path-tspell:" + p["tspell"],
            "path-readvia:" + p["readvia"], "path-fault:" + p["fault"].split(":")[0]]
    if p["hard"]:
        tags.append("path-hardlink:" + p["hard"])
    if p["links"]:
        tags.append("path-chain:" + str(p["chainlen"]) + "->" + p["links"]["l1.nc"])
    if p["ext"] is not None:
        tags += ["path-external:" + p["ext"], "path-espell:" + p["espell"]]
    if not p["ow"]:
        tags.append("path-overwrite=False")
    if info.get("target_needed"):
        tags.append("path-target-needed")
    key = json.dumps(p, sort_keys=True)
    return Case("C10.path", p, line, key=key, nontrivial=bool(info.get("needed", True)), tags=tags)


def from_payload(payload):
    p = dict(payload)
    line, info = finish(p)
    return make_case(p, line, info)


# --------------------------------------------------------------------------- implementation side
def impl(c):
    C = cfdm()
    m = C10()
    p = c.payload
    env = Env(p)
    try:
        items = make_items(env, p)
        # register every string the model line knows, in the same order
        line_of(env, items, p)
        tpath = target_string(env, p)
        epath = ext_string(env, p)
        kw = dict(mode=p["mode"], overwrite=bool(p["ow"]))
        if epath is not None:
            kw["external"] = epath
        if p["fault"] == "pre":
            kw["hdf5_chunks"] = "bad"
        need_strings = sorted(set(s for f in items for s in deep_files(f)))

        def content(s):
            try:
                with open(s, "rb") as fh:
                    return hashlib.sha256(fh.read()).hexdigest()
            except OSError:
                return None

        need0 = {s: content(s) for s in need_strings}
        st0 = env.state()
        fn = Env.expand(tpath)
        existed = os.path.isfile(fn)
        target_ino = os.stat(fn).st_ino if existed else None
        target_content = content(fn) if existed else None
        listing0 = sorted(os.listdir(env.dir))
        arg = items[0] if len(items) == 1 else items

        rfd, wfd = os.pipe()
        pid = os.fork()
        if pid == 0:
            code = 1
            try:
                os.close(rfd)
                events = []
                import netCDF4
                real_remove = os.remove
                RealDataset = netCDF4.Dataset

                def remove(path, *a, **k):
                    events.append(("rm", str(path)))
                    return real_remove(path, *a, **k)

                class Recording(RealDataset):
                    def __init__(self, filename, mode="r", *a, **k):
                        if mode in ("w", "a", "r+"):
                            events.append(("cr" if mode == "w" else "ap", str(filename)))
                        super().__init__(filename, mode, *a, **k)

                os.remove = remove
                netCDF4.Dataset = Recording
                try:
                    if p["fault"].startswith("emit"):
                        with m.Injector(int(p["fault"].split(":")[1]), p["faultk"]):
                            C.write(arg, tpath, **kw)
                    else:
                        C.write(arg, tpath, **kw)
                    out = "ok"
                except Exception as e:
                    out = "raised:" + ("fault" if isinstance(e, m.InjectedFault) else fw.exc_enum(e))
                finally:
                    os.remove = real_remove
                    netCDF4.Dataset = RealDataset
                with os.fdopen(wfd, "w") as fh:
                    fh.write(json.dumps([out, events]))
                code = 0
            finally:
                os._exit(code)
        os.close(wfd)
        with os.fdopen(rfd) as fh:
            txt = fh.read()
        os.waitpid(pid, 0)
        if txt:
            outcome, events = json.loads(txt)
        else:
            outcome, events = "crashed", None
        st1 = env.state()
        need1 = {s: content(s) for s in need_strings}
        refused = outcome in ("raised:ValueError", "raised:OSError") and st0 == st1
        states = []
        for e in sorted(set(env.ent_id.values()) | set(env.other.values())):
            a, b = st0.get(e), st1.get(e)
            if p["mode"] != "w" and not refused and a is not None and a[0] == "f" and a[1] == target_ino:
                states.append(f"{e}=open")
            else:
                states.append(f"{e}=" + ("same" if a == b else "touched"))
        ev = "-"
        if events is not None:
            ev = ",".join(f"{k}:{env.ent_of(s)}" for k, s in events) or "-"
        else:
            ev = "?"
        O = dict(outcome=outcome, damaged=[os.path.basename(s) for s in need_strings if need0[s] != need1[s]],
                 existed=existed, target_same=(content(fn) == target_content) if existed else None,
                 new_entries=sorted(set(os.listdir(env.dir)) - set(listing0)), all_same=st0 == st1,
                 hard_alias=bool(existed and target_ino in needed_inode(env, items) and
                                 os.path.realpath(fn) not in [os.path.realpath(s) for s in need_strings]),
                 ext_twice=bool(epath is not None and Env.expand(Env.expand(epath)) != Env.expand(epath)))
        return outcome + "|" + ",".join(states) + "|" + ev + "@@" + json.dumps(O, sort_keys=True)
    finally:
        env.close()


def split(c):
    if c.impl_out is None or "@@" not in c.impl_out:
        return None, None
    a, b = c.impl_out.split("@@", 1)
    return a.split("|"), json.loads(b)


def halves(c):
    if not c.model_out or "#" not in c.model_out:
        return None, None
    new, old = c.model_out.split("#", 1)
    return new.split("|"), old.split("|")


def same_half(a, h):
    """outcome, entry states and operating-system calls of the implementation agree with a half of the model line"""
    if a is None or h is None or len(a) != 3 or len(h) != 3:
        return False
    if h[0] == "raised:*":
        if not a[0].startswith("raised:") and a[0] != "crashed":
            return False
    elif a[0] != h[0]:
        return False
    sa, sh = a[1].split(","), h[1].split(",")
    if len(sa) != len(sh):
        return False
    for x, y in zip(sa, sh):
        # an inode opened for appending may or may not end up with other bytes
        if x != y and not (y.endswith("=open") and x == y[:-4] + "same") and not (x.endswith("=open") and y == x[:-4] + "same"):
            return False
    return a[2] == "?" or a[2] == h[2]


def agree(c):
    a, O = split(c)
    new, old = halves(c)
    return same_half(a, new) or same_half(a, old)


def oracle(c):
    a, O = split(c)
    if O is None:
        return f"the harness could not observe the case: {c.impl_out}"
    p = c.payload
    msgs = []
    if O["outcome"] == "crashed":
        msgs.append("the interpreter crashed (fatal signal) during the write")
    for b in O["damaged"]:
        msgs.append(f"file {b}, from which an input still has unread data, was deleted or altered (write outcome {O['outcome']})")
    if p["mode"] == "w" and not p["ow"] and O["existed"]:
        if not O["target_same"] or not O["all_same"]:
            msgs.append("overwrite=False but the existing file (or something else) was altered")
        if O["outcome"] == "ok":
            msgs.append("overwrite=False on an existing file did not raise")
    return "; ".join(msgs) if msgs else None


def classify(c):
    a, O = split(c)
    new, old = halves(c)
    if O is None or old is None:
        return None
    if new[0] == "raised:ValueError" and not old[0] in ("raised:ValueError", "raised:OSError") and not same_half(a, new):
        # Once the guard has let such a request through, what the write then does is not predictable (it
        # writes into the inode it is reading from: an exception, a silent success, a dead interpreter), so
        # the outcome is not compared.
        if O["hard_alias"] and c.payload["mode"] != "w":
            return SIG_HARDLINK
        if O["ext_twice"] and same_half(a, old):
            return SIG_EXT2
    if O["outcome"] == "crashed":
        return "unexplained:interpreter-crashed"
    if O["damaged"]:
        return "unexplained:needed-file-damaged"
    if c.payload["mode"] == "w" and not c.payload["ow"] and O["existed"]:
        return "unexplained:overwrite-false-altered"
    return None
