"""C08 — a written dataset is a faithful CF-netCDF encoding at file level.

Every file is inspected ONLY with netCDF4 (dimensions, variables, attributes, dtype, chunking(),
filters(), endian(), isunlimited()); cfdm.read is never called.

Streams
  C08.glob    1-4 fields with agreeing / disagreeing / missing property values x global_attributes /
              variable_attributes / file_descriptors / Conventions (str, list, CF entries, blanks, commas) /
              nc_set_global_attribute(s) (flags and forced values)  ->  cfdm.write  ->  the Conventions
              attribute, the global attributes and the attributes of every data variable
                                              (model: Globals.lean  +  independent placement oracle)
  C08.names   field lists with clashing netCDF names (same ncvar on several constructs, blanks, equal standard
              names, dimension/variable clashes, bounds / string-length dimension reuse); `_netcdf_name` is
              wrapped from the harness to log the request sequence of the real write, which is replayed through
              the model; the names found in the file are checked against the allocation
                                              (model: NcNames.lean  +  freshness / presence oracle)
  C08.struct  field lists (shared generator, example fields, DSG compression, domains)  ->  cfdm.write  ->
              abstract(file)  ->  WFFile by the Lean driver and by the Python restatement, plus an independent
              naive CF decoder whose output is compared with abstract(original fields)
                                              (model: NcFile.lean  +  decoder oracle)
  C08.emit    the same field lists; the writer's netCDF calls (createDimension / createVariable / setncatts /
              setncattr) are logged through a proxy of the dataset object and replayed, in the writer's order,
              through the guarded emission steps of the model (every reference must name what exists at that
              moment); the dataset rebuilt by the replay must be the file
                                              (model: NcFile.lean applySteps  +  Python replay)
  C08.store   realised storage options: datatype mapping, endian, compress / shuffle / fletcher32, string vs
              char storage, unlimited dimensions, hdf5_chunks and per-data chunk settings, _FillValue typing
                                              (model: NcStore.lean for the type of each variable, of its
                                               _FillValue / missing_value and the extra string-length dimension;
                                               everything else oracle only)
  C08.field   1-3 fields in the input language of the whole-field model (axes with / without dimension
              coordinate, on / off the data; 1-d and N-d auxiliary coordinates, cell measures, field ancillaries;
              cell methods over any covered axis; clashing netCDF names; the later fields are mostly twins of an
              earlier one, so that constructs take the already-in-the-file path)  ->  cfdm.write  ->  the dataset
              (dimensions, unlimited flags, variables with dimensions and references) and, per field, data
              variable / dimensions / coordinates / cell_methods axes, compared LITERALLY with the model's
                                              (model: NcField.lean  +  WFFile, repeated-dimension test,
                                               independent decoder, unlimited flags)
"""
import atexit
import ast
import json
import os
import re
import shutil
import sys
import tempfile

import numpy as np

from .. import fw
from .. import c08_file as CF
from ..fw import Case
from ..gen import fields_C08 as GF
from ..gen import axes_C08 as GA

REQUIRED = [
    "C08_names_fresh",
    "C08_names_shape",
    "C08_names_injective",
    "C08_old_names_counterexample",
    "C08_conventions",
    "C08_conventions_comma_rejected",
    "C08_old_conventions_counterexample",
    "C08_global_iff",
    "C08_written_globals",
    "C08_written_globals_distinct",
    "C08_no_information_lost",
    "C08_global_blocked",
    "C08_global_order_independent",
    "C08_wf_step",
    "C08_wf_steps",
    "C08_wf_coordinates_partial",
    "C08_fields_written",
    "C08_fields_closure",
    "C08_cell_method_axis_needs_cover",
    "C08_old_dimension_name_counterexample",
    "C08_old_equal_dimension_coordinates_counterexample",
    "C08_fill_type_is_variable_type",
    "C08_datatype_requested",
    "C08_string_storage",
]
BUDGET = {"quick": 7400, "thorough": 190000}
QUICK_JOBS = 8
TIME_LIMIT = {"quick": 170, "thorough": 1400}
RULE = (
    "glob: 1-4 fields x 1-6 property names drawn from the description-of-file-contents attributes and free names, "
    "per name a scenario (all equal / one differs / one lacks it / absent; string, integer, float or array value), "
    "per field nc_global_attributes flags and forced values (agreeing, disagreeing, partial, list/array valued, "
    "Conventions), global_attributes / variable_attributes as None, str or list, file_descriptors, Conventions as "
    "None, '', str, list or tuple with CF entries, blanks and commas. names: 1-3 fields from the shared generator "
    "or the example fields with 1-5 name mutations from a clashing pool. struct: 1-3 fields (random, example 0-7 and "
    "11, DSG-compressed examples, domains) x coordinates / fmt / string options. store: one field x fmt x datatype x "
    "endian x compress x shuffle x fletcher32 x string x unlimited axes x hdf5_chunks x per-data chunks (four fifths "
    "made representable in the chosen format, one fifth as drawn so that every documented refusal is met). "
    "field: 1-3 fields of 1-4 axes (size 1-4, optional netCDF dimension name, unlimited flag, optional dimension "
    "coordinate named by ncvar / standard name / nothing), data over a shuffled subset of the axes, 0-3 auxiliary "
    "coordinates (1-d or 2-d), optional cell measure and field ancillary, 0-3 cell methods over covered axes or area; "
    "60% of the later fields are twins of an earlier one with 0-2 alterations; glob: 30% of the multi-field cases are "
    "also written in reverse order. "
    "non-trivial = glob: >= 2 fields or any option set; names: some request answered with a suffixed or reused "
    "name; struct: >= 1 reference attribute in the file; store: any non-default option; field: any of axis without "
    "dimension coordinate / coordinate off the data / N-d construct / cell methods / unlimited / shared construct. "
    "distinct = distinct payloads"
)
ASSUMPTIONS = [
    "property values are compared exactly: numerically close but unequal values (inside cfdm's rtol/atol) and values "
    "that differ only in type (1 vs 1.0) are not generated",
    "the Conventions *property* of a field is outside the placement theorem (write() handles Conventions through its "
    "own parameter and documents the property as ignored); the model still mirrors what the code does with it",
    "flat files only (groups are C11's subject); write mode 'w' (append is C17's); no external file",
    "C08.field: uncompressed fields without bounds, domain ancillaries, coordinate references or geometries (those are "
    "the subject of C08.struct / C08.emit); `scalar=False` is a parameter of NetCDFWrite.write that cfdm.write does "
    "not expose: modelled, never driven; construct contents are exactly equal or clearly different (no values inside "
    "cfdm's tolerance); when several fields share a dimension the unlimited flag is compared with the model only",
    "the naive decoder compares bounds by values only (bounds properties are inherited), ignores "
    "computed_standard_name (added by the writer), and does not decode geometry containers or ragged/gathered "
    "compression (those variables are checked by WFFile only)",
    "storage options are checked by the sampled oracle only (outside every theorem)",
]

_cfdm = None


def cfdm():
    global _cfdm
    if _cfdm is None:
        import cfdm as m
        m.log_level("DISABLE")
        _cfdm = m
    return _cfdm


# ----------------------------------------------------------------------------- scratch + generated table
_scratch = None


def scratch():
    global _scratch
    if _scratch is None or not os.path.isdir(_scratch):
        _scratch = tempfile.mkdtemp(prefix="verif_c08_")
        atexit.register(shutil.rmtree, _scratch, True)
    return _scratch


_counter = [0]


def tmpfile(tag="f"):
    _counter[0] += 1
    return os.path.join(scratch(), f"{tag}_{os.getpid()}_{_counter[0]}.nc")


def descr_attributes():
    """`cf_description_of_file_contents_attributes()` read from the source with ast (no import)."""
    src = (fw.REPO / "cfdm" / "read_write" / "netcdf" / "netcdfwrite.py").read_text()
    tree = ast.parse(src)
    for node in ast.walk(tree):
        if isinstance(node, ast.FunctionDef) and node.name == "cf_description_of_file_contents_attributes":
            for sub in ast.walk(node):
                if isinstance(sub, ast.Return):
                    return list(ast.literal_eval(sub.value))
    raise fw.HarnessError("cf_description_of_file_contents_attributes not found in netcdfwrite.py")


_descr = None


def descr():
    global _descr
    if _descr is None:
        _descr = descr_attributes()
    return _descr


def pre():
    names = descr()
    text = (
        "/- GENERATED by harness/corr/C08.py:pre() from /repo/cfdm/read_write/netcdf/netcdfwrite.py\n"
        "   (NetCDFWrite.cf_description_of_file_contents_attributes).  Do not edit. -/\n"
        "namespace Cfdm.Generated\n\n"
        "/-- The description-of-file-contents attributes, in definition order. -/\n"
        "def fileContentsAttributes : List String :=\n  [" + ", ".join(json.dumps(n) for n in names) + "]\n\n"
        "end Cfdm.Generated\n"
    )
    fw.write_if_changed(fw.LEAN / "Cfdm" / "Generated" / "FileContents.lean", text)
    scratch()


# ----------------------------------------------------------------------------- protocol helpers
def enc(s):
    return ".".join(str(ord(ch)) for ch in s) if s else "e"


def dec(s):
    return "" if s == "e" else "".join(chr(int(x)) for x in s.split("."))


def value_of(vs):
    """valspec -> python value."""
    t = vs[0]
    if t == "s":
        return vs[1]
    if t == "i":
        return int(vs[1])
    if t == "f":
        return float(vs[1])
    if t == "a":
        return np.array(vs[2], dtype=vs[1])
    if t == "l":
        return list(vs[1])
    raise ValueError(vs)


def vtoken(vs):
    """Protocol token of a valspec: `v…` hashable in Python, `u…` unhashable (list / ndarray)."""
    h = CF._h(CF.tok(value_of(vs)).encode())
    return ("u" if vs[0] in ("a", "l") else "v") + h


_IDENT = re.compile(r"^[A-Za-z_][A-Za-z0-9_]*$")


# ============================================================================= stream: glob
FREE_NAMES = ["project", "experiment", "doi", "foo", "bar", "realization"]
CONV_POOL = [
    None, None, None, "", [], "ACDD-1.3", "UGRID-1.0", ["ACDD-1.3"], ["CMIP-6.2", "UGRID-1.0"], "CF-1.7",
    ["CF-1.7", "UGRID-1.0"], ["CF-1.7", "CF-1.8", "ACDD-1.3"], ["ACDD-1.3", "CF-1.6"], ["x", "CF-1.6", "y"],
    ["A B", "C"], "UGRID-1.0 ACDD", ["CF-1.7", "CF-1.8"], ["CF-1.6", "CF-1.7", "CF-1.8", "Z"], "A,B", ["A,B", "C"],
    ["a", "b", "c", "d"], ["CF-2", "notCF-x", "myCF-1x"], " ", ["ACDD-1.3", "ACDD-1.3"], ["CF-1.7", "X Y", "CF-1.8", "W"],
]
FORCED_CONV = ["CF-1.8", "CF-1.8 ACDD-1.3", "CF-1.7,UGRID-1.0", "A B,C", "ACDD-1.3", "CF-1.6 CF-1.7 Z"]


def gen_value(rng, kind=None, k=0):
    kind = kind or rng.choice(["s", "s", "s", "i", "f", "a"])
    if kind == "s":
        return ["s", rng.choice(["alpha", "beta gamma", "x", "2019-01-01 created", "A,B"]) + ("" if k == 0 else f" #{k}")]
    if kind == "i":
        return ["i", rng.choice([1, 7, 42]) + 100 * k]
    if kind == "f":
        return ["f", rng.choice([0.5, 2.25, -3.0]) + 10.0 * k]
    if kind == "a":
        return ["a", rng.choice(["i4", "f8"]), [1 + k, 2, 4] if rng.random() < 0.7 else [1 + k, 2]]
    if kind == "l":
        return ["l", [3 + k, 5]]
    raise ValueError(kind)


def gen_glob(rng):
    nf = rng.choice([1, 2, 2, 2, 3, 3, 4])
    d = [x for x in descr() if x not in ("Conventions", "featureType")]
    names = rng.sample(d, rng.randint(1, min(3, len(d)))) + rng.sample(FREE_NAMES, rng.randint(0, 3))
    if rng.random() < 0.08:
        names.append("Conventions")
    fields = [dict(props={}, ncg={}) for _ in range(nf)]
    for n in names:
        kind = rng.choice(["s", "s", "s", "i", "f", "a"])
        v0 = gen_value(rng, kind, 0)
        sc = rng.choice(["equal", "equal", "equal", "differ", "lack", "lack0", "absent"])
        jd = rng.randrange(nf)
        for i, f in enumerate(fields):
            if sc == "absent":
                continue
            if sc == "lack" and i == nf - 1 and nf > 1:
                continue
            if sc == "lack0" and i == 0 and nf > 1:
                continue
            if sc == "differ" and i == jd and nf > 1:
                f["props"][n] = gen_value(rng, kind, 1)
            else:
                f["props"][n] = v0
        # flags / forced values
        r = rng.random()
        if r < 0.25:
            for f in fields:
                if rng.random() < 0.7:
                    f["ncg"][n] = None
        elif r < 0.5 and n != "Conventions":
            fk = rng.choice(["s", "s", "i", "l", "a"])
            fv = gen_value(rng, fk, 2)
            fsc = rng.choice(["all", "all", "all", "differ", "partial"])
            for i, f in enumerate(fields):
                if fsc == "partial" and i == 0 and nf > 1:
                    continue
                if fsc == "differ" and i == nf - 1 and nf > 1:
                    f["ncg"][n] = gen_value(rng, fk, 3)
                else:
                    f["ncg"][n] = fv
    if rng.random() < 0.2:
        fc = ["s", rng.choice(FORCED_CONV)]
        for i, f in enumerate(fields):
            if rng.random() < 0.85:
                f["ncg"]["Conventions"] = fc
    pool = names + rng.sample(FREE_NAMES, 1)

    def sel():
        r = rng.random()
        if r < 0.45:
            return None
        if r < 0.6:
            return rng.choice(pool)
        return rng.sample(pool, rng.randint(1, min(3, len(pool))))
    fd = {}
    if rng.random() < 0.4:
        for n in rng.sample(pool, rng.randint(1, min(2, len(pool)))):
            if n != "Conventions":
                fd[n] = gen_value(rng, rng.choice(["s", "s", "i", "l"]), 4)
    p = dict(fields=fields, global_attributes=sel(), variable_attributes=sel(), file_descriptors=fd or None,
             Conventions=rng.choice(CONV_POOL))
    if rng.random() < 0.03:
        p["variable_attributes"] = ["Conventions"]
    if nf > 1 and rng.random() < 0.3:
        p["perm"] = True  # also written with the fields in reverse order: same placement expected
    return p


def _aslist(x):
    if x is None:
        return []
    if isinstance(x, str):
        return [x]
    return list(x)


def conv_arg(C):
    if not C:
        return "n"
    if isinstance(C, str):
        return "s:" + enc(C)
    return "l:" + "/".join(enc(x) for x in C)


def glob_line(p):
    """Protocol line, or None when the case is outside the model's input language."""
    va = _aslist(p["variable_attributes"])
    ga = _aslist(p["global_attributes"])
    fd = p["file_descriptors"] or {}
    if "Conventions" in va or "Conventions" in fd:
        return None
    names = set(va) | set(ga) | set(fd)
    for f in p["fields"]:
        names |= set(f["props"]) | set(f["ncg"])
    if not all(_IDENT.match(n) for n in names):
        return None
    fs = []
    for f in p["fields"]:
        props = ",".join(f"{k}~{vtoken(v)}" for k, v in f["props"].items())
        parts = []
        for k, v in f["ncg"].items():
            if v is None:
                parts.append(f"{k}~_")
            elif k == "Conventions":
                if v[0] != "s":
                    return None
                parts.append(f"{k}~c{enc(v[1])}")
            else:
                parts.append(f"{k}~{vtoken(v)}")
        fs.append(props + "|" + ",".join(parts))
    fdl = ",".join(f"{k}~{vtoken(v)}" for k, v in fd.items())
    ver = cfdm().CF()
    return (f"C08.glob conv=new ver={enc(ver)} carg={conv_arg(p['Conventions'])} glob=[{','.join(ga)}] "
            f"var=[{','.join(va)}] fd=[{fdl}] fields=[{';'.join(fs)}]")


def mk_glob(p):
    nf = len(p["fields"])
    tags = [f"glob:fields={nf}", f"glob:Conventions={type(p['Conventions']).__name__}"]
    for k in ("global_attributes", "variable_attributes", "file_descriptors"):
        tags.append(f"glob:{k}={'set' if p[k] else 'none'}")
    if any(v is not None for f in p["fields"] for v in f["ncg"].values()):
        tags.append("glob:forced")
    if any(v is None for f in p["fields"] for v in f["ncg"].values()):
        tags.append("glob:flagged")
    if p.get("perm"):
        tags.append("glob:reversed-order-too")
    nontrivial = nf >= 2 or any(p[k] for k in ("global_attributes", "variable_attributes", "file_descriptors", "Conventions"))
    return Case("C08.glob", p, glob_line(p), nontrivial=nontrivial, tags=tags)


def glob_fields(p):
    fs = []
    for i, f in enumerate(p["fields"]):
        x = GF.simple_field(dict(shape=[2], ncvar=f"f{i}", props={k: value_of(v) for k, v in f["props"].items()}))
        for k, v in f["ncg"].items():
            if v is None:
                x.nc_set_global_attribute(k)
            else:
                x.nc_set_global_attribute(k, value_of(v))
        fs.append(x)
    return fs


def _input_tokens(p):
    out = set()
    for f in p["fields"]:
        for v in list(f["props"].values()) + [x for x in f["ncg"].values() if x is not None]:
            out.add(vtoken(v))
    for v in (p["file_descriptors"] or {}).values():
        out.add(vtoken(v))
    return out


def _file_token(value, inputs):
    h = CF._h(CF.tok(value).encode())
    for pre in ("v", "u"):
        if pre + h in inputs:
            return pre + h
    return "x" + h


def impl_glob(c):
    p = c.payload
    fs = glob_fields(p)
    path = tmpfile("g")
    kw = {}
    for k in ("global_attributes", "variable_attributes", "Conventions"):
        if p[k] is not None:
            kw[k] = p[k]
    if p["file_descriptors"] is not None:
        kw["file_descriptors"] = {k: value_of(v) for k, v in p["file_descriptors"].items()}
    try:
        cfdm().write(fs, path, **kw)
    except Exception as e:
        _rm(path)
        return "raised:" + fw.exc_enum(e)
    try:
        A = CF.abstract_file(path)
    finally:
        _rm(path)
    inputs = _input_tokens(p)

    def observe(A):
        conv = A["globals"].get("Conventions")
        glob = sorted((k, _file_token(v, inputs)) for k, v in A["globals"].items() if k != "Conventions")
        vs = []
        for i in range(len(fs)):
            v = A["vars"].get(f"f{i}")
            if v is None:
                return f"missing-variable:f{i}"
            vs.append(",".join(f"{k}~{t}" for k, t in sorted((k, _file_token(x, inputs)) for k, x in v["attrs"].items()
                                                                if k not in CF.STRUCTURAL or k == "Conventions")))
        return f"conv={enc(str(conv)) if conv is not None else '-'} glob=[{','.join(f'{k}~{t}' for k, t in glob)}] vars=[{';'.join(vs)}]"
    out = observe(A)
    if p.get("perm") and len(fs) > 1:
        path2 = tmpfile("g")
        try:
            cfdm().write(glob_fields(p)[::-1], path2, **kw)
            out2 = observe(CF.abstract_file(path2))
        except Exception as e:
            out2 = "raised:" + fw.exc_enum(e)
        finally:
            _rm(path2)
        c.extra = dict(perm=None if out2 == out else out2)
    return out


def _rm(path):
    try:
        os.remove(path)
    except OSError:
        pass


_CF_RE = re.compile(r"CF-[0-9]")


def _parse_out(out):
    m = re.match(r"^conv=(\S+) glob=\[(.*?)\] vars=\[(.*?)\]$", out)
    if not m:
        return None
    conv = None if m.group(1) == "-" else dec(m.group(1))
    glob = dict(t.split("~") for t in m.group(2).split(",") if t)
    vs = [dict(t.split("~") for t in s.split(",") if t) for s in m.group(3).split(";")] if m.group(3) != "" or True else []
    return conv, glob, vs


def oracle_glob(c):
    """The placement rule and the Conventions rule, restated from the write() documentation and the
    property text — no cfdm code."""
    p = c.payload
    out = c.impl_out
    va = set(_aslist(p["variable_attributes"]))
    ga = set(_aslist(p["global_attributes"]))
    fd = p["file_descriptors"] or {}
    fields = p["fields"]
    nf = len(fields)
    # documented refusals
    if "Conventions" in va or "Conventions" in fd:
        return None if out == "raised:ValueError" else f"Conventions as variable attribute / file descriptor must be refused, got {out}"
    # requested Conventions entries
    C = p["Conventions"]
    if C:
        req = [C] if isinstance(C, str) else list(C)
    else:
        forced = [f["ncg"].get("Conventions") for f in fields]
        if all(x is not None for x in forced) and len({json.dumps(x) for x in forced}) == 1 and "Conventions" not in fd:
            s = forced[0][1]
            req = s.split(",") if "," in s else s.split()
        else:
            req = []
    extras = [e for e in req if not _CF_RE.search(e)]
    if any("," in e for e in extras):
        return None if out == "raised:ValueError" else f"an entry with a comma must be refused, got {out}"
    if out.startswith("raised:") or out.startswith("missing-variable"):
        return f"write refused a valid request: {out}"
    parsed = _parse_out(out)
    if parsed is None:
        return f"unparseable observation {out[:80]}"
    if isinstance(c.extra, dict) and c.extra.get("perm"):
        return f"the placement depends on the order of the fields: reversed order gives {c.extra['perm'][:200]}"
    conv, glob, vs = parsed
    want = ["CF-" + cfdm().CF()] + extras
    if conv is None:
        return "no Conventions attribute"
    got = conv.split(",") if "," in conv else conv.split(" ")
    if got != want:
        return f"Conventions {conv!r}: entries {got} != CF version first then requested extras {want}"
    if ("," in conv) != any(" " in e for e in extras):
        return f"Conventions {conv!r}: comma delimiter iff an entry contains a blank"
    # placement
    eligible = (set(descr()) | ga | {k for f in fields for k, v in f["ncg"].items() if v is None})
    forced_kept = {}
    for k in {k for f in fields for k, v in f["ncg"].items() if v is not None}:
        vals = [f["ncg"].get(k) for f in fields]
        if all(v is not None for v in vals) and len({vtoken(v) if k != "Conventions" else json.dumps(v) for v in vals}) == 1 and k not in fd:
            forced_kept[k] = vals[0]
    expect_glob = {k: vtoken(v) for k, v in fd.items()}
    for k, v in forced_kept.items():
        if k != "Conventions":
            expect_glob[k] = vtoken(v)
    allnames = {k for f in fields for k in f["props"]}
    prop_global = {}
    for k in allnames:
        if k == "Conventions":
            continue
        vals = [f["props"].get(k) for f in fields]
        same = all(v is not None for v in vals) and len({vtoken(v) for v in vals}) == 1
        if k in eligible and same and k not in va and k not in fd and k not in forced_kept:
            prop_global[k] = vtoken(vals[0])
            expect_glob[k] = vtoken(vals[0])
    if glob != expect_glob:
        ks = sorted(k for k in set(glob) | set(expect_glob) if glob.get(k) != expect_glob.get(k))
        return f"global attributes differ on {ks}: file {[glob.get(k) for k in ks]} expected {[expect_glob.get(k) for k in ks]}"
    if len(vs) != nf:
        return f"{len(vs)} data variables for {nf} fields"
    for i, f in enumerate(fields):
        exp = {k: vtoken(v) for k, v in f["props"].items() if k not in prop_global and k != "Conventions"}
        got_i = {k: v for k, v in vs[i].items() if k != "Conventions"}
        if got_i != exp:
            ks = sorted(k for k in set(got_i) | set(exp) if got_i.get(k) != exp.get(k))
            return f"field {i}: data variable attributes differ on {ks}: file {[got_i.get(k) for k in ks]} expected {[exp.get(k) for k in ks]}"
    return None


# ============================================================================= stream: names
def gen_fieldspec(rng, heavy_names=False, allow_domain=True, examples=(0, 1, 2, 3, 5, 6, 7, 11)):
    r = rng.random()
    if r < 0.22:
        s = dict(k="ex", i=rng.choice(list(examples)))
        if s["i"] == 3 and rng.random() < 0.5:
            s["compress"] = rng.choice(["contiguous", "indexed"])
    elif r < 0.26 and not heavy_names:
        # compression by gathering (hand-built) / indexed contiguous ragged array: WFFile only
        s = dict(k="gathered", seed=rng.randrange(1 << 30), compress="gathered")
    elif r < 0.30 and not heavy_names:
        s = dict(k="dsg3", seed=rng.randrange(1 << 30), compress="indexed_contiguous")
    else:
        s = dict(k="rand", seed=rng.randrange(1 << 30))
        if allow_domain and rng.random() < 0.08:
            s["domain"] = True
        if not heavy_names and rng.random() < 0.1:
            # a scalar parameter of a parametric vertical coordinate (when the field has one): `_write_scalar_data`
            s["mut"] = [["ftparam", rng.choice(["p0", "ptop", "a"]), rng.choice([1000.0, 5.0])]]
    if heavy_names or rng.random() < 0.3:
        s["mut"] = GF.gen_mutations(rng, heavy=heavy_names)
    if not heavy_names and rng.random() < 0.15:
        # an external cell measure (when the field has a cell measure): named in external_variables only
        s["mut"] = (s.get("mut") or []) + [["ext", rng.randint(0, 3), rng.choice(["areacella", "volcello"])]]
    return s


def gen_names(rng):
    nf = rng.choice([1, 1, 2, 2, 3])
    return dict(fields=[gen_fieldspec(rng, heavy_names=True, allow_domain=False) for _ in range(nf)],
                string=rng.choice([True, True, False]))


def mk_names(p):
    tags = [f"names:fields={len(p['fields'])}"]
    for s in p["fields"]:
        tags.append("names:" + s["k"])
        for m in s.get("mut") or []:
            tags.append("names:mut=" + m[0])
            if len(m) > 2 and " " in str(m[2]):
                tags.append("names:blank")
    return Case("C08.names", p, None, nontrivial=True, tags=sorted(set(tags)))


class NameLog:
    """Wraps NetCDFWrite._netcdf_name for the duration of one write: logs (base, dimsize, role) -> result and
    the dimensions registered in `ncdim_to_size` between calls."""

    def __init__(self):
        self.events = []
        self.known_dims = {}

    def __enter__(self):
        from cfdm.read_write.netcdf import netcdfwrite as W
        self.W = W
        self.orig = getattr(W.NetCDFWrite, "_netcdf_name", None)
        if self.orig is None:
            return self
        log = self

        def wrapped(self_, base, dimsize=None, role=None):
            g = self_.write_vars
            log.sync(g)
            try:
                out = log.orig(self_, base, dimsize=dimsize, role=role)
            except ValueError:
                if base is not None:
                    log.events.append(("r", base, dimsize, role, "ve"))
                raise
            except KeyError:
                if base is not None:
                    log.events.append(("r", base, dimsize, role, "ke"))
                raise
            if base is not None:
                log.events.append(("r", base, dimsize, role, out))
            log.last_g = g
            return out
        W.NetCDFWrite._netcdf_name = wrapped
        return self

    def sync(self, g):
        for n, size in g["ncdim_to_size"].items():
            if self.known_dims.get(n) != size:
                self.known_dims[n] = size
                self.events.append(("d", n, size))

    def __exit__(self, *a):
        if self.orig is not None:
            self.W.NetCDFWrite._netcdf_name = self.orig
            g = getattr(self, "last_g", None)
            if g is not None:
                self.sync(g)
        return False


def names_line(events):
    parts = []
    for e in events:
        if e[0] == "d":
            if e[2] is None:
                return None
            parts.append(f"d:{enc(e[1])}:{int(e[2])}")
        else:
            _, base, dimsize, role, _ = e
            if not isinstance(base, str):
                return None
            parts.append(f"r:{enc(base)}:{'_' if dimsize is None else int(dimsize)}:{'_' if role is None else enc(role)}")
    return "C08.names evs=[" + ";".join(parts) + "]"


def _classify_results(events):
    """fresh/reused as the *oracle* sees it from the log alone."""
    vars_, dims, roles = set(), {}, {}
    out = []
    for e in events:
        if e[0] == "d":
            dims[e[1]] = e[2]
            continue
        _, base, dimsize, role, res = e
        if res in ("ve", "ke"):
            out.append(res)
            continue
        if dimsize is not None and role and res in roles.get(role, []) and dims.get(res) == dimsize:
            out.append("u:" + enc(res))
            continue
        out.append("f:" + enc(res))
        vars_.add(res)
        if dimsize is not None and role:
            roles.setdefault(role, []).append(res)
    return out


def impl_names(c):
    p = c.payload
    fs = [GF.build(s) for s in p["fields"]]
    path = tmpfile("n")
    status = "ok"
    with NameLog() as log:
        try:
            cfdm().write(fs, path, string=p.get("string", True))
        except Exception as e:
            status = "raised:" + fw.exc_enum(e) + ":" + ("name-in-use" if "name in use" in str(e) else "other")
    if log.orig is None:
        c.line = None
        c.extra = dict(nohook=True)
    else:
        c.line = names_line(log.events)
    names = dict(vars=[], dims=[])
    if status == "ok":
        try:
            A = CF.abstract_file(path)
            names = dict(vars=sorted(A["order"]), dims=sorted(A["dims"]))
        finally:
            _rm(path)
    else:
        _rm(path)
    c.extra = dict(events=[list(e) for e in log.events], names=names, pinned=_pinned(fs))
    c.nontrivial = any(e[0] == "r" and isinstance(e[4], str) and e[4] != sanitize(str(e[1])) or
                       (e[0] == "r" and e[2] is not None) for e in log.events)
    return f"res=[{';'.join(_classify_results(log.events))}] status={status}"


def sanitize(s):
    return s.replace(" ", "_")


def _pinned(fs):
    """netCDF variable names set on things that are certainly written as their own variable: every field's
    data variable, and the constructs of the first field that no other construct of it could be shared with."""
    out = []
    for i, f in enumerate(fs):
        n = f.nc_get_variable(None)
        if n is not None:
            out.append(n)
        if i > 0:
            continue
        sigs = {}
        things = GF.named_things(f)[1:]
        for k, x in things:
            d = x.get_data(None)
            sigs[k] = None if d is None else json.dumps([CF.hash_array(d.array), sorted((a, CF.tok(b)) for a, b in x.properties().items())])
        for k, x in things:
            n = x.nc_get_variable(None)
            if n is None or sigs[k] is None:
                continue
            if sum(1 for v in sigs.values() if v is not None and json.loads(v)[0] == json.loads(sigs[k])[0]) > 1:
                continue
            out.append(n)
    return out


def oracle_names(c):
    ex = c.extra if isinstance(c.extra, dict) else {}
    m = re.match(r"^res=\[(.*)\] status=(\S+)$", c.impl_out or "")
    if not m:
        return f"write failed before naming: {c.impl_out}"
    status = m.group(2)
    events = ex.get("events", [])
    # freshness, recomputed from the log alone
    in_use, dims, roles = set(), {}, {}
    for e in events:
        if e[0] == "d":
            dims[e[1]] = e[2]
            continue
        _, base, dimsize, role, res = e
        if res in ("ve", "ke"):
            continue
        if dimsize is not None and role and res in roles.get(role, []) and dims.get(res) == dimsize:
            continue
        if res in in_use or res in dims:
            return f"_netcdf_name({base!r}) returned {res!r}, which is in use"
        if " " in res:
            return f"_netcdf_name({base!r}) returned a name with a blank: {res!r}"
        sb = sanitize(base)
        if not (res == sb or re.fullmatch(re.escape(sb) + r"_[0-9]+", res)):
            return f"_netcdf_name({base!r}) returned {res!r}: neither the base nor base_<k>"
        in_use.add(res)
        if dimsize is not None and role:
            roles.setdefault(role, []).append(res)
    if status != "ok":
        return f"write refused valid fields: {status}"
    names = ex.get("names", {})
    allocated = in_use | set(dims)
    extra_names = [n for n in names.get("vars", []) + names.get("dims", []) if n not in allocated]
    if extra_names:
        return f"names in the file that were never allocated: {extra_names[:4]}"
    # every pinned netCDF variable name is found, as given or de-duplicated
    in_file = set(names.get("vars", [])) | set(names.get("dims", []))
    for pn in ex.get("pinned", []):
        sb = sanitize(pn.split("/")[-1])
        if not any(n == sb or re.fullmatch(re.escape(sb) + r"_[0-9]+", n) for n in in_file):
            return f"pinned variable name {pn!r} not found in the file (names {sorted(in_file)[:12]})"
    return None


# ============================================================================= stream: struct
def gen_struct(rng):
    nf = rng.choice([1, 1, 2, 2, 3])
    p = dict(fields=[gen_fieldspec(rng) for _ in range(nf)], opts={})
    if rng.random() < 0.3:
        p["opts"]["coordinates"] = True
    r = rng.random()
    if r < 0.15:
        p["opts"]["fmt"] = "NETCDF3_CLASSIC"
    elif r < 0.25:
        p["opts"]["fmt"] = "NETCDF4_CLASSIC"
    elif r < 0.35:
        p["opts"]["string"] = False
    return p


def mk_struct(p):
    tags = [f"struct:fields={len(p['fields'])}"] + [f"struct:{k}={v}" for k, v in sorted(p["opts"].items())]
    for s in p["fields"]:
        tags.append("struct:" + s["k"] + (str(s.get("i")) if s["k"] == "ex" else "") + (":" + s["compress"] if s.get("compress") else "")
                    + (":domain" if s.get("domain") else ""))
    return Case("C08.struct", p, None, nontrivial=True, tags=sorted(set(tags)))


NC3_UNSUPPORTED = ("i8", "u1", "u2", "u4", "u8")


def _dtypes_of(f):
    out = set()
    d = f.get_data(None) if hasattr(f, "get_data") else None
    if d is not None:
        out.add(d.dtype.str[1:])
    for c in f.constructs.filter_by_data(todict=True).values():
        try:
            out.add(c.data.dtype.str[1:])
        except Exception:
            pass
    return out


def impl_struct(c):
    p = c.payload
    fs = []
    for i, s in enumerate(p["fields"]):
        f = GF.build(s)
        f.set_property(CF.MARKER, f"F{i}")
        fs.append(f)
    path = tmpfile("s")
    opts = dict(p["opts"])
    try:
        cfdm().write(fs, path, **opts)
    except Exception as e:
        _rm(path)
        c.extra = dict(error=repr(e)[:300], dtypes=sorted(set().union(*[_dtypes_of(f) for f in fs])),
                       fillprop=any(x.has_property("_FillValue") for f in fs for _, x in GF.named_things(f)),
                       blank=_blank_names(fs),
                       unlimited=[_unlim_axes(f) for f in fs])
        return "raised:" + fw.exc_enum(e)
    try:
        A = CF.abstract_file(path, dedup_refs=any(CF.has_twins(f) for f in fs))
        c.line = CF.wf_line(A)
        verdict = CF.wf_py(A)
        info = dict(nrefs=sum(len(v["refs"]) for v in A["vars"].values()), decode=None, ft_conflict=_ft_conflict(fs),
                    geom_props_nodata=_geom_props_nodata(fs))
        datavars = {str(v["attrs"][CF.MARKER]): n for n, v in A["vars"].items() if v["isData"]}
        c.nontrivial = info["nrefs"] > 0
        if len(datavars) != len(fs) or sorted(datavars) != sorted(f"F{i}" for i in range(len(fs))):
            info["decode"] = f"{len(fs)} fields but data variables {sorted(datavars.items())}"
        else:
            D = CF.Decoder(path)
            try:
                globals_as_props = [k for k in A["globals"] if k not in CF.STRUCTURAL]
                for i, f in enumerate(fs):
                    if p["fields"][i].get("compress") or _has_geometry(f):
                        continue  # ragged arrays / geometry containers: WFFile only
                    try:
                        decd = D.field(datavars[f"F{i}"])
                        orig = CF.abstract_field(f)
                        diff = CF.compare(orig, decd)
                    except Exception as e:  # the decoder could not make sense of the file
                        diff = f"decoder failed: {e!r}"[:200]
                    if diff:
                        info["decode"] = f"field {i} ({datavars[f'F{i}']}): {diff}"
                        break
                    # pinned name of the data variable
                    pinned = f.nc_get_variable(None)
                    if pinned is not None:
                        sb = sanitize(pinned.split("/")[-1])
                        n = datavars[f"F{i}"]
                        if not (n == sb or re.fullmatch(re.escape(sb) + r"_[0-9]+", n)):
                            info["decode"] = f"field {i}: variable {n!r} does not carry the pinned name {pinned!r}"
                            break
            finally:
                D.close()
        c.extra = info
        return verdict
    finally:
        _rm(path)


def _ft_conflict(fs):
    """Two fields whose parametric vertical coordinates are equal (so the writer shares the variable) but whose
    formula terms name different domain ancillary constructs (different data or different properties)."""
    seen = {}
    for f in fs:
        try:
            dimc = f.dimension_coordinates(todict=True)
            auxc = f.auxiliary_coordinates(todict=True)
            danc = f.domain_ancillaries(todict=True)
            for r in f.coordinate_references(todict=True).values():
                cc = r.coordinate_conversion
                sn = cc.get_parameter("standard_name", None)
                if sn is None:
                    continue
                owners = [k for k in r.coordinates() if (dimc.get(k) or auxc.get(k)) is not None
                          and (dimc.get(k) or auxc.get(k)).get_property("standard_name", None) == sn]
                if len(owners) != 1:
                    continue
                oc = dimc.get(owners[0]) or auxc.get(owners[0])
                owner = json.dumps([CF.hash_array(oc.data.array), sorted((a, CF.tok(b)) for a, b in oc.properties().items()
                                                                          if a != "computed_standard_name")])
                terms = []
                for term, dk in cc.domain_ancillaries().items():
                    if dk is not None and dk in danc:
                        x = danc[dk]
                        # the variable is shared only when it also stands on the same netCDF dimensions: the axes are
                        # identified by their dimension coordinates (content and properties), else by their size
                        axsig = []
                        for ax in f.get_data_axes(dk):
                            dcs = [d for k, d in dimc.items() if tuple(f.get_data_axes(k)) == (ax,)]
                            if dcs:
                                axsig.append([CF.hash_array(dcs[0].data.array), sorted((a, CF.tok(b)) for a, b in dcs[0].properties().items()
                                                                                       if a != "computed_standard_name")])
                            else:
                                axsig.append(f.domain_axes(todict=True)[ax].get_size())
                        terms.append([term, CF.hash_array(x.data.array), sorted((a, CF.tok(b)) for a, b in x.properties().items()), axsig])
                t = json.dumps(sorted(terms))
                if owner in seen and seen[owner] != t:
                    return True
                seen.setdefault(owner, t)
        except Exception:
            continue
    return False


def _geom_props_nodata(fs):
    """A geometry auxiliary coordinate that has properties and node bounds but no representative data."""
    for f in fs:
        try:
            for c in f.auxiliary_coordinates(todict=True).values():
                if c.get_geometry(None) is not None and c.get_data(None) is None and c.properties():
                    return True
        except Exception:
            pass
    return False


def _blank_names(fs):
    """The netCDF names (set, or defaulted from a standard name) that contain a blank, blanks replaced."""
    out = []
    for f in fs:
        for _, x in GF.named_things(f) + GF.bounds_things(f):
            n = x.nc_get_variable(None)
            if n is None and hasattr(x, "get_property"):
                n = x.get_property("standard_name", None)
            if isinstance(n, str) and " " in n:
                out.append(sanitize(n))
        for a in f.domain_axes(todict=True).values():
            if " " in str(a.nc_get_dimension("")):
                out.append(sanitize(a.nc_get_dimension()))
    return sorted(set(out))


def _has_geometry(f):
    try:
        return any(c.get_geometry(None) is not None for c in f.auxiliary_coordinates(todict=True).values())
    except Exception:
        return False


def _unlim_axes(f):
    try:
        return sorted(k for k, a in f.domain_axes(todict=True).items() if a.nc_is_unlimited())
    except Exception:
        return []


def oracle_struct(c):
    ex = c.extra if isinstance(c.extra, dict) else {}
    out = c.impl_out or ""
    if out.startswith("raised:"):
        fmt = c.payload["opts"].get("fmt", "NETCDF4")
        if fmt != "NETCDF4":
            # netCDF-3 data model: no 64-bit / unsigned integers, one leading unlimited dimension
            if set(ex.get("dtypes", [])) & set(NC3_UNSUPPORTED) or any(ex.get("unlimited", [])):
                return None
            if any(s.get("compress") for s in c.payload["fields"]):
                return None  # Field.compress makes 64-bit integer count / index variables
        return f"write refused valid fields: {out} {ex.get('error', c.extra)}"
    if out != "ok":
        return f"file is not well formed: {out}"
    if ex.get("decode"):
        return "independent decoder: " + ex["decode"]
    return None


# ============================================================================= stream: emit
class _VarProxy:
    def __init__(self, var, name, log):
        object.__setattr__(self, "_v", var)
        object.__setattr__(self, "_n", name)
        object.__setattr__(self, "_log", log)

    def setncattr(self, k, v):
        self._log.append(("att", self._n, {k: v}))
        return self._v.setncattr(k, v)

    def setncatts(self, d):
        self._log.append(("att", self._n, dict(d)))
        return self._v.setncatts(d)

    def __getattr__(self, k):
        return getattr(self._v, k)

    def __setitem__(self, k, v):
        self._v[k] = v

    def __getitem__(self, k):
        return self._v[k]


class _DatasetProxy:
    """Stands for the netCDF4.Dataset the writer works on; logs createDimension / createVariable /
    attribute settings in the order the writer makes them and passes everything through."""

    def __init__(self, ds, log):
        object.__setattr__(self, "_ds", ds)
        object.__setattr__(self, "_log", log)

    def createDimension(self, name, size=None):
        self._log.append(("dim", name, size))
        return self._ds.createDimension(name, size)

    def createVariable(self, *a, **kw):
        v = self._ds.createVariable(*a, **kw)
        name = kw.get("varname", a[0] if a else None)
        dt = kw.get("datatype", a[1] if len(a) > 1 else None)
        self._log.append(("var", name, list(kw.get("dimensions", ())), "S1" if dt == "S1" else ("str" if dt is str else "n")))
        if kw.get("fill_value") is not None:
            pass
        return _VarProxy(v, name, self._log)

    def setncattr(self, k, v):
        self._log.append(("gatt", k, v))
        return self._ds.setncattr(k, v)

    def __getattr__(self, k):
        return getattr(self._ds, k)


class EmitLog:
    def __init__(self):
        self.log = []

    def __enter__(self):
        from cfdm.read_write.netcdf import netcdfwrite as W
        self.W = W
        self.orig = getattr(W.NetCDFWrite, "file_open", None)
        log = self.log
        orig = self.orig
        if orig is not None:
            def file_open(self_, *a, **kw):
                return _DatasetProxy(orig(self_, *a, **kw), log)
            W.NetCDFWrite.file_open = file_open
        return self

    def __exit__(self, *a):
        if self.orig is not None:
            self.W.NetCDFWrite.file_open = self.orig
        return False


def steps_of_log(log):
    """The writer's netCDF calls as abstract emission steps (string-length dimensions of character
    variables are storage detail: dropped, like in abstract(file))."""
    steps = []
    chars = {}
    ext = []
    for e in log:
        if e[0] == "dim":
            steps.append(("d", e[1], 0 if e[2] is None else int(e[2])))
        elif e[0] == "var":
            _, name, dims, kind = e
            dims = list(dims)
            if kind == "S1" and dims:
                dims = dims[:-1]
            steps.append(("v", name, dims))
        elif e[0] == "att":
            _, name, attrs = e
            refs = CF.refs_of_attrs(attrs)
            if "dimensions" in attrs:
                # CF 5.8 domain variable: presented with the dimensions it names (abstract(file) does the same)
                for i, st in enumerate(steps):
                    if st[0] == "v" and st[1] == name:
                        steps[i] = ("v", name, str(attrs["dimensions"]).split())
            refs = [r for r in refs if r[0] != "cell_methods"] + [r for r in refs if r[0] == "cell_methods"]
            for k, t in refs:
                steps.append(("r", name, k, t))
        elif e[0] == "gatt" and e[1] == "external_variables":
            for t in str(e[2]).split():
                if t not in ext:
                    ext.append(t)
                    steps.append(("e", t))
    return steps


def emit_line(steps):
    parts = []
    names = []
    for st in steps:
        if st[0] == "d":
            parts.append(f"d:{st[1]}:{st[2]}")
            names.append(st[1])
        elif st[0] == "v":
            parts.append(f"v:{st[1]}:{','.join(st[2])}")
            names += [st[1]] + list(st[2])
        elif st[0] == "r":
            parts.append(f"r:{st[1]}:{st[2]}>{st[3]}")
            names += [st[1], st[3]]
        else:
            parts.append(f"e:{st[1]}")
            names.append(st[1])
    if not all(CF._SAFE.match(n) for n in names):
        return None
    return "C08.emit steps=[" + ";".join(parts) + "]"


def mk_emit(p):
    tags = [f"emit:fields={len(p['fields'])}"]
    for s in p["fields"]:
        tags.append("emit:" + s["k"] + (str(s.get("i")) if s["k"] == "ex" else "") + (":" + s["compress"] if s.get("compress") else ""))
    return Case("C08.emit", p, None, nontrivial=True, tags=sorted(set(tags)))


def impl_emit(c):
    p = c.payload
    fs = [GF.build(s) for s in p["fields"]]
    path = tmpfile("e")
    with EmitLog() as L:
        if L.orig is None:
            c.extra = dict(nohook=True)
        try:
            cfdm().write(fs, path, **p["opts"])
        except Exception as e:
            _rm(path)
            c.extra = dict(error=repr(e)[:300], dtypes=sorted(set().union(*[_dtypes_of(f) for f in fs])),
                           blank=_blank_names(fs), unlimited=[_unlim_axes(f) for f in fs],
                           fillprop=any(x.has_property("_FillValue") for f in fs for _, x in GF.named_things(f)))
            return "raised:" + fw.exc_enum(e)
    try:
        A = CF.abstract_file(path)
    finally:
        _rm(path)
    steps = steps_of_log(L.log)
    if L.orig is not None:
        c.line = emit_line(steps)
    refused, B = CF.apply_steps_py(steps)
    c.extra = dict(refused=refused, step=(steps[refused] if refused is not None else None), nsteps=len(steps),
                   replay=CF.dump_structure(B) if refused is None else None, ft_conflict=_ft_conflict(fs),
                   geom_props_nodata=_geom_props_nodata(fs))
    c.nontrivial = any(st[0] == "r" for st in steps)
    return "ok " + CF.dump_structure(A)


def oracle_emit(c):
    ex = c.extra if isinstance(c.extra, dict) else {}
    out = c.impl_out or ""
    if out.startswith("raised:"):
        c2 = Case("C08.struct", c.payload)
        c2.impl_out, c2.extra = c.impl_out, c.extra
        return oracle_struct(c2)
    if ex.get("refused") is not None:
        return f"emission step {ex['refused']} {ex['step']} names something that does not exist yet (or a name in use)"
    if ex.get("replay") is not None and "ok " + ex["replay"] != out:
        if ex.get("ft_conflict"):
            return ("a reference attribute written for one field was replaced when a later field was written "
                    "(formula_terms on a coordinate variable shared by two fields): the file differs from the replay of the emission log")
        return "the dataset rebuilt from the emission log differs from the file (harness: the log is not faithful)"
    return None


# ============================================================================= stream: store
FMTS = ["NETCDF4", "NETCDF4", "NETCDF4", "NETCDF4_CLASSIC", "NETCDF3_CLASSIC", "NETCDF3_64BIT_OFFSET", "NETCDF3_64BIT_DATA"]


def gen_store(rng):
    nd = rng.choice([1, 2, 2, 3])
    shape = [rng.choice([2, 3, 6, 12, 30]) for _ in range(nd)]
    dtype = rng.choice(["f8", "f4", "i4", "i2", "i8", "i1", "u1", "u2", "u4"])
    s = dict(k="simple", shape=shape, dtype=dtype, ncvar="d", masked=rng.random() < 0.3)
    if rng.random() < 0.35:
        s["unlimited"] = sorted(rng.sample(range(nd), rng.choice([1, 1, 2]) if nd > 1 else 1))
    if rng.random() < 0.5:
        s["dimcoord"] = True
        s["bounds"] = rng.random() < 0.5
    if rng.random() < 0.35:
        s["straux"] = True
    if rng.random() < 0.2:
        s["strscalar"] = True
    if rng.random() < 0.2 and nd >= 2:
        s["gridmapping"] = True
    r = rng.random()
    if r < 0.15:
        s["chunks"] = "contiguous"
    elif r < 0.3:
        s["chunks"] = [rng.randint(1, n + 1) for n in shape]
    elif r < 0.4:
        s["chunks"] = rng.choice([64, 256, 1024])
    if rng.random() < 0.25:
        s["fill"] = 120 if dtype.startswith("u") else rng.choice([-99, 120])
        if rng.random() < 0.5:
            s["missing"] = 121 if dtype.startswith("u") else -98
    o = dict(fmt=rng.choice(FMTS))
    if rng.random() < 0.4:
        o["endian"] = rng.choice(["big", "little", "native"])
    if rng.random() < 0.45:
        o["compress"] = rng.choice([0, 1, 4, 9])
        if rng.random() < 0.5:
            o["shuffle"] = rng.random() < 0.5
        if rng.random() < 0.4:
            o["fletcher32"] = rng.random() < 0.6
    if rng.random() < 0.3:
        o["string"] = rng.random() < 0.5
    r = rng.random()
    if r < 0.15:
        o["hdf5_chunks"] = "contiguous"
    elif r < 0.4:
        o["hdf5_chunks"] = rng.choice([64, 256, "1 KiB", 1024.9, "4 MiB"])
    if rng.random() < 0.35:
        src = rng.choice(["i8", "f8", "i4", dtype])
        dst = {"i8": "i4", "f8": "f4", "i4": "i2"}.get(src, "f8")
        o["datatype"] = [[src, dst]]
    p = dict(field=s, opts=o)
    if rng.random() < 0.8:
        # most requests are made representable (a refused request exercises one `raise` only); a fifth are left
        # as drawn, so that every documented refusal is still met
        _make_representable(rng, p)
    if rng.random() < 0.05:
        # malformed request: must be refused, never written differently
        bad = rng.choice(["fmt", "hdf5_chunks", "endian", "compress"])
        p["bad"] = bad
        o[bad] = {"fmt": "NETCDF5", "hdf5_chunks": rng.choice(["foo", "12 parsecs"]), "endian": "middle", "compress": 10}[bad]
    return p


def _make_representable(rng, p):
    s, o = p["field"], p["opts"]
    for _ in range(8):
        reasons = store_refusal_allowed(p)
        if not reasons:
            return
        r = reasons[0]
        if r.startswith("datatype not in the classic"):
            s["dtype"] = rng.choice(["f8", "f4", "i4", "i2", "i1"])
            o.pop("datatype", None)
            if s.get("fill") is not None:
                s["fill"] = rng.choice([-99, 120])
                if s.get("missing") is not None:
                    s["missing"] = -98
        elif r.startswith("documented: compression"):
            for k in ("compress", "shuffle", "fletcher32"):
                o.pop(k, None)
        elif r.startswith("netCDF-3: native endian"):
            o.pop("endian", None)
        elif r.startswith("netCDF-3: one unlimited") or r.startswith("classic data model"):
            s["unlimited"] = [0]
        elif r.startswith("HDF5:"):
            if s.get("chunks") == "contiguous":
                s.pop("chunks")
            if o.get("hdf5_chunks") == "contiguous":
                o.pop("hdf5_chunks")


def mk_store(p):
    o = p["opts"]
    tags = [f"store:fmt={o['fmt']}", f"store:dtype={p['field']['dtype']}"] + ([f"store:malformed={p['bad']}"] if p.get("bad") else [])
    for k in ("endian", "compress", "string", "hdf5_chunks", "datatype", "shuffle", "fletcher32"):
        if k in o:
            tags.append(f"store:{k}")
    for k in ("unlimited", "chunks", "straux", "strscalar", "gridmapping", "fill"):
        if p["field"].get(k) is not None and p["field"].get(k) is not False:
            tags.append(f"store:field.{k}")
    nontrivial = len(o) > 1 or o["fmt"] != "NETCDF4" or any(p["field"].get(k) for k in ("unlimited", "chunks"))
    return Case("C08.store", p, store_line(p), nontrivial=nontrivial, tags=tags)


def _store_vars(p):
    """(netCDF name, dtype of the construct's data, dtype of its fill property or None, number of dimensions of
    the construct) for the variables of a `simple` field whose names are known in advance."""
    s = p["field"]
    out = [("d", s["dtype"], "i8" if (s.get("fill") is not None or s.get("missing") is not None) else None, len(s["shape"]))]
    if s.get("dimcoord") and s["shape"]:
        out.append(("time", s.get("coord_dtype", "f8"), None, 1))
    if s.get("straux") and s["shape"]:
        out.append(("auxiliary", "U1", None, 1))
    return out


def store_line(p):
    """The data-type part of a storage case, for the model (`NcStore`); None for malformed requests."""
    o = p["opts"]
    if p.get("bad") or o["fmt"] not in FMTS:
        return None
    m = ",".join(f"{a}>{b}" for a, b in o.get("datatype", []))
    vs = ",".join(f"{n}:{d}:{fl or '-'}" for n, d, fl, _ in _store_vars(p))
    return f"C08.dtype fmt={o['fmt']} string={int(bool(o.get('string', True)))} map=[{m}] vars=[{vs}]"


def _dtype_code(x):
    if x == "str":
        return "str"
    d = np.dtype(x)
    return f"{d.kind}{d.itemsize}"


def store_types_observed(p, view):
    """What the file shows for the same variables: type / type of _FillValue (else missing_value) / extra dimensions."""
    out = []
    for n, _, _, nd in _store_vars(p):
        v = view["vars"].get(n)
        if v is None:
            out.append(f"{n}=absent")
            continue
        fl = v.get("fill_dtype") or v.get("missing_dtype")
        out.append(f"{n}={_dtype_code(v['dtype'])}/{_dtype_code(fl) if fl else '-'}/{len(v['dims']) - nd}")
    return ";".join(out)


def impl_store(c):
    p = c.payload
    f = GF.build(p["field"])
    o = dict(p["opts"])
    if "datatype" in o:
        o["datatype"] = {np.dtype(a): np.dtype(b) for a, b in o["datatype"]}
    path = tmpfile("o")
    try:
        cfdm().write(f, path, **o)
    except Exception as e:
        _rm(path)
        c.extra = dict(error=str(e)[:300])
        return "raised:" + fw.exc_enum(e)
    try:
        A = CF.abstract_file(path)
    finally:
        _rm(path)
    view = dict(dims={n: [s, u] for n, (s, u) in A["dims"].items()},
                vars={n: dict(dims=v["rawdims"], dtype=v["dtype"], endian=v["endian"], chunking=v["chunking"],
                              filters={k: v["filters"].get(k) for k in ("zlib", "shuffle", "complevel", "fletcher32")} if v["filters"] else None,
                              fill=CF.tok(v["attrs"]["_FillValue"]) if "_FillValue" in v["attrs"] else None,
                              fill_dtype=str(np.asarray(v["attrs"]["_FillValue"]).dtype) if "_FillValue" in v["attrs"] else None,
                              missing_dtype=str(np.asarray(v["attrs"]["missing_value"]).dtype) if "missing_value" in v["attrs"] else None)
                      for n, v in A["vars"].items()})
    c.extra = view
    return "ok " + json.dumps(view, sort_keys=True, default=str)


def _chunk_bytes(x):
    if isinstance(x, (int, float)):
        return int(x)
    m = re.match(r"^\s*([0-9.]+)\s*([A-Za-z]*)\s*$", str(x))
    if not m:
        return None
    mult = {"": 1, "b": 1, "kib": 1024, "mib": 1024 ** 2, "gib": 1024 ** 3, "kb": 1000, "mb": 1000 ** 2}[m.group(2).lower()]
    return int(float(m.group(1)) * mult)


def store_refusal_allowed(p):
    """Combinations the netCDF data model cannot represent, or that the write() documentation says are refused."""
    s, o = p["field"], p["opts"]
    if p.get("bad"):
        return ["malformed option"]
    fmt = o["fmt"]
    nc3 = fmt.startswith("NETCDF3")
    classic = nc3 or fmt == "NETCDF4_CLASSIC"
    reasons = []
    out_dtype = s["dtype"]
    for a, b in o.get("datatype", []):
        if a == s["dtype"]:
            out_dtype = b
    coord_dtype = "f8"
    for a, b in o.get("datatype", []):
        if a == "f8":
            coord_dtype = b
    if classic and fmt != "NETCDF3_64BIT_DATA" and (out_dtype in ("i8", "u1", "u2", "u4", "u8")):
        reasons.append("datatype not in the classic data model")
    if fmt == "NETCDF3_64BIT_DATA" and False:
        pass
    unl = s.get("unlimited") or []
    if nc3 and (len(unl) > 1 or any(i != 0 for i in unl)):
        reasons.append("netCDF-3: one unlimited dimension, leading")
    if classic and len(unl) > 1:
        reasons.append("classic data model: one unlimited dimension")
    if nc3 and o.get("compress", 0):
        reasons.append("documented: compression of a netCDF-3 file is an error")
    if nc3 and o.get("endian", "native") != "native":
        reasons.append("netCDF-3: native endian only")
    # some variable with dimensions is to be stored contiguously: the data variable by its own setting or by
    # hdf5_chunks, every other variable by hdf5_chunks
    char_storage = not (fmt == "NETCDF4" and o.get("string", True))
    others = (bool(s.get("dimcoord") or s.get("straux") or s.get("gridmapping")) and bool(s["shape"])) \
        or bool(s.get("strscalar") and char_storage)
    data_contig = (s.get("chunks") == "contiguous") or (s.get("chunks") is None and o.get("hdf5_chunks") == "contiguous")
    other_contig = others and o.get("hdf5_chunks") == "contiguous"
    nd = len(s["shape"])
    spanned = set()
    if s.get("dimcoord") or s.get("straux"):
        spanned.add(0)
    if s.get("gridmapping") and nd >= 2:
        spanned |= {nd - 2, nd - 1}
    if not nc3 and unl and (data_contig or (other_contig and spanned & set(unl))):
        reasons.append("HDF5: unlimited dimensions need chunked storage")
    if not nc3 and (data_contig and s["shape"] or other_contig) and (o.get("compress", 0) or o.get("fletcher32")):
        reasons.append("HDF5: filters need chunked storage")
    return reasons


def _dt(x):
    return np.dtype(x).newbyteorder("=")


def oracle_store(c):
    p = c.payload
    s, o = p["field"], p["opts"]
    out = c.impl_out or ""
    if p.get("bad"):
        if out.startswith("raised:"):
            return None
        if p["bad"] == "compress" and o["fmt"].startswith("NETCDF3"):
            return None  # decided by the netCDF-3 rule
        return f"malformed option {p['bad']}={o[p['bad']]!r} was accepted"
    allowed = store_refusal_allowed(p)
    if out.startswith("raised:"):
        if allowed:
            return None
        return f"write refused a representable request: {out} {c.extra}"
    view = c.extra
    fmt = o["fmt"]
    nc3 = fmt.startswith("NETCDF3")
    if nc3 and o.get("compress", 0):
        return "compression requested for a netCDF-3 file: the documentation promises an error, the file was written uncompressed"
    V = view["vars"]
    d = V.get("d")
    if d is None:
        return "data variable 'd' missing"
    dmap = {a: b for a, b in o.get("datatype", [])}
    # data types
    want = np.dtype(dmap.get(s["dtype"], s["dtype"]))
    if _dt(d["dtype"]) != want:
        return f"data variable dtype {d['dtype']} != requested {want}"
    if s.get("dimcoord"):
        wantc = np.dtype(dmap.get("f8", "f8"))
        if "time" in V and _dt(V["time"]["dtype"]) != wantc:
            return f"coordinate dtype {V['time']['dtype']} != requested {wantc}"
    # _FillValue / missing_value typed as the data
    if s.get("fill") is not None and d["fill_dtype"] is not None and _dt(d["fill_dtype"]) != want:
        return f"_FillValue dtype {d['fill_dtype']} != data dtype {want}"
    if s.get("missing") is not None and d["missing_dtype"] is not None and _dt(d["missing_dtype"]) != want:
        return f"missing_value dtype {d['missing_dtype']} != data dtype {want}"
    # string vs char
    strvars = [n for n in ("auxiliary", "scalar", "name", "station") if n in V]
    want_str = fmt == "NETCDF4" and o.get("string", True)
    for n, v in V.items():
        if n in ("d", "time", "bounds", "time_bounds", "grid_latitude", "grid_longitude") or v["dtype"] not in ("str", "|S1", "S1"):
            continue
        if v["dims"] == [] and v["dtype"] != "str" and not s.get("strscalar"):
            continue  # grid mapping container
        is_gm = s.get("gridmapping") and n.startswith("rotated")
        if is_gm:
            continue
        if want_str and v["dtype"] != "str":
            return f"string data {n!r} stored as {v['dtype']} although string storage was requested"
        if not want_str and v["dtype"] == "str":
            return f"string data {n!r} stored as string although char storage was requested"
        if not want_str and not any(x.startswith("strlen") for x in v["dims"][-1:]):
            return f"char variable {n!r} has no trailing string-length dimension: {v['dims']}"
    # endian
    if not nc3 and "endian" in o:
        want_e = sys.byteorder if o["endian"] == "native" else o["endian"]
        for n, v in V.items():
            if v["dtype"] in ("str", "|S1", "S1"):
                continue
            if np.dtype(v["dtype"]).itemsize == 1:
                continue
            if v["endian"] != want_e:
                return f"variable {n!r} endian {v['endian']} != requested {want_e}"
    # compression
    if not nc3:
        comp = o.get("compress", 0)
        for n, v in V.items():
            if v["dtype"] == "str" or v["filters"] is None or not v["dims"]:
                continue  # variable-length strings and scalars take no filters
            f = v["filters"]
            if bool(f["zlib"]) != bool(comp) or (comp and f["complevel"] != comp):
                return f"variable {n!r} filters {f} != compress={comp}"
            if comp:
                if bool(f["shuffle"]) != bool(o.get("shuffle", True)):
                    return f"variable {n!r} shuffle {f['shuffle']} != requested {o.get('shuffle', True)}"
                if bool(f["fletcher32"]) != bool(o.get("fletcher32", False)):
                    return f"variable {n!r} fletcher32 {f['fletcher32']} != requested {o.get('fletcher32', False)}"
    # unlimited dimensions: exactly the requested axes
    data_dims = d["dims"]
    unl = set(s.get("unlimited") or [])
    for i, dn in enumerate(data_dims[: len(s["shape"])]):
        if bool(view["dims"][dn][1]) != (i in unl):
            return f"dimension {dn!r} (axis {i}) unlimited={view['dims'][dn][1]} but requested {i in unl}"
        if view["dims"][dn][0] != s["shape"][i]:
            return f"dimension {dn!r} size {view['dims'][dn][0]} != {s['shape'][i]}"
    # chunking of the data variable
    if not nc3:
        ch = d["chunking"]
        own = s.get("chunks")
        itemsize = want.itemsize
        if own == "contiguous" or (own is None and o.get("hdf5_chunks") == "contiguous"):
            if ch != "contiguous":
                return f"contiguous storage requested, chunking() = {ch}"
        elif isinstance(own, list):
            exp = [min(a, b) for a, b in zip(own, s["shape"])]
            if ch != exp and ch != own:
                return f"chunk shape {ch} != requested {own}"
        else:
            nbytes = own if isinstance(own, int) else _chunk_bytes(o.get("hdf5_chunks", "4 MiB"))
            if ch == "contiguous":
                if s["shape"]:
                    return "chunked storage requested, data stored contiguously"
            elif nbytes is not None:
                size = int(np.prod(ch)) * itemsize
                if size > max(nbytes, itemsize) or any(a > b for a, b in zip(ch, s["shape"])):
                    return f"chunk shape {ch} ({size} B) exceeds the requested {nbytes} B or the data shape {s['shape']}"
                # as large as the request allows: growing any axis by one must overflow (or hit the data shape)
                total = int(np.prod(s["shape"])) * itemsize
                if total <= nbytes and ch != list(s["shape"]):
                    return f"data of {total} B fits in one chunk of {nbytes} B but was split: {ch}"
    elif d["chunking"] not in (None, "contiguous"):
        return f"netCDF-3 file reports chunking {d['chunking']}"
    return None



# ============================================================================= stream: field
def mk_field(p):
    fs = p["fields"]
    tags = [f"field:fields={len(fs)}"]
    for k, v in sorted(p["opts"].items()):
        if (k == "scalar") != bool(v):
            tags.append(f"field:{k}={v}")
    feats = set()
    for F in fs:
        na = len(F["axes"])
        if any(a["dc"] is None and i in F["data"] for i, a in enumerate(F["axes"])):
            feats.add("axis-without-dimcoord")
        if any(a["dc"] is not None and i not in F["data"] for i, a in enumerate(F["axes"])):
            feats.add("dimcoord-off-data")
        if any(len(c["axes"]) > 1 for c in F["cons"]):
            feats.add("nd-construct")
        if any(c["t"] == "aux" and len(c["axes"]) == 1 and c["axes"][0] not in F["data"] for c in F["cons"]):
            feats.add("aux-off-data")
        if F["cms"]:
            feats.add("cell-methods")
        if any(a["unlim"] for a in F["axes"]):
            feats.add("unlimited")
        if any(a["dc"] is not None and not (a["dc"]["ncvar"] or a["dc"]["std"]) and a["ncdim"] for a in F["axes"]):
            feats.add("dimcoord-named-by-dimension")
        if _twin_dimcoords(F):
            feats.add("twin-dimcoords")
    if len(fs) > 1 and _shares(fs):
        feats.add("shared-construct")
    tags += ["field:" + x for x in sorted(feats)]
    return Case("C08.field", p, GA.line(p), nontrivial=bool(feats), tags=tags)


def _twin_dimcoords(F):
    seen = set()
    for a in F["axes"]:
        d = a["dc"]
        if d is not None:
            k = (d["c"], a["size"], d["std"])
            if k in seen:
                return True
            seen.add(k)
    return False


def _shares(fs):
    seen = set()
    for F in fs:
        mine = set()
        for a in F["axes"]:
            if a["dc"] is not None:
                mine.add(("dc", a["dc"]["c"], a["size"], a["dc"]["std"]))
        for c in F["cons"]:
            mine.add((c["t"], c["c"], tuple(F["axes"][i]["size"] for i in c["axes"]), c["std"]))
        if mine & seen:
            return True
        seen |= mine
    return False


def impl_field(c):
    p = c.payload
    fs = [GA.build(F, i, CF.MARKER) for i, F in enumerate(p["fields"])]
    path = tmpfile("x")
    try:
        cfdm().write(fs, path, coordinates=p["opts"]["coordinates"])
    except Exception as e:
        _rm(path)
        c.extra = dict(error=repr(e)[:300])
        return "raised:" + fw.exc_enum(e)
    try:
        A = CF.abstract_file(path)
        info = dict(wf=CF.wf_py(CF.abstract_file(path, dedup_refs=True)), decode=None, repeated=None, unlim=None)
        datavars = {str(v["attrs"][CF.MARKER]): n for n, v in A["vars"].items() if v["isData"]}
        infos = []
        if sorted(datavars) != [f"F{i}" for i in range(len(fs))]:
            info["decode"] = f"{len(fs)} fields but data variables {sorted(datavars.items())}"
        else:
            D = CF.Decoder(path)
            try:
                for i, f in enumerate(fs):
                    n = datavars[f"F{i}"]
                    v = A["vars"][n]
                    if len(set(v["dims"])) != len(v["dims"]) and info["repeated"] is None:
                        info["repeated"] = f"data variable {n!r} has a dimension twice: {v['dims']} (CF 2.4)"
                    cms = [a for a, _, _ in CF.parse_cell_methods(str(v["attrs"].get("cell_methods", "")))]
                    infos.append(f"{n}>{','.join(v['dims'])}>{','.join(sorted(str(v['attrs'].get('coordinates', '')).split()))}>"
                                 + ",".join("+".join(m) for m in cms))
                    if info["decode"] is None and not info["repeated"]:
                        try:
                            diff = CF.compare(CF.abstract_field(f), D.field(n))
                        except Exception as e:
                            diff = f"decoder failed: {e!r}"[:200]
                        if diff:
                            info["decode"] = f"field {i} ({n}): {diff}"
                    if info["unlim"] is None:
                        info["unlim"] = _unlim_mismatch(p["fields"], i, v, A)
            finally:
                D.close()
        c.extra = info
        unl = sorted(n for n, (_, u) in A["dims"].items() if u)
        return f"ok unlim=[{','.join(unl)}] {CF.dump_structure(A)} info=[{';'.join(infos)}]"
    finally:
        _rm(path)


def _unlim_mismatch(Fs, i, v, A):
    """A dimension of the data variable is unlimited iff the axis it stands for asked for it (when every axis of
    the written fields that is encoded by that dimension asks the same)."""
    F = Fs[i]
    nd = len(F["data"])
    dims = v["dims"]
    if len(dims) < nd:
        return f"data variable {v['name']!r} has {len(dims)} dimensions for {nd} data axes"
    tail = dims[len(dims) - nd:]
    for pos, ai in enumerate(F["data"]):
        want = F["axes"][ai]["unlim"]
        d = tail[pos]
        if A["dims"][d][0] != F["axes"][ai]["size"]:
            return f"dimension {d!r} has size {A['dims'][d][0]}, the axis has size {F['axes'][ai]['size']}"
        if len(Fs) == 1 and A["dims"][d][1] != want:
            return f"dimension {d!r} unlimited={A['dims'][d][1]} but the axis asked for {want}"
    return None


def oracle_field(c):
    out = c.impl_out or ""
    ex = c.extra if isinstance(c.extra, dict) else {}
    if out.startswith("raised:"):
        return f"write refused valid fields: {out} {ex.get('error')}"
    if ex.get("repeated"):
        return ex["repeated"]
    if ex.get("wf") != "ok":
        return f"file is not well formed: {ex.get('wf')}"
    if ex.get("decode"):
        return "independent decoder: " + ex["decode"]
    if ex.get("unlim"):
        return ex["unlim"]
    return None


# ============================================================================= framework entry points
MAKERS = {"C08.field": mk_field, "C08.glob": mk_glob, "C08.names": mk_names, "C08.struct": mk_struct, "C08.store": mk_store, "C08.emit": mk_emit}


def from_payload(stream, payload):
    return MAKERS[stream](payload)


def gen(rng, tier, n):
    for i in range(n):
        r = (i % 20) / 20.0
        if r < 0.30:
            yield mk_glob(gen_glob(rng))
        elif r < 0.45:
            yield mk_field(GA.gen_case(rng))
        elif r < 0.60:
            yield mk_names(gen_names(rng))
        elif r < 0.80:
            yield mk_struct(gen_struct(rng))
        elif r < 0.90:
            yield mk_emit(gen_struct(rng))
        else:
            yield mk_store(gen_store(rng))


def impl(c):
    c.extra = None
    if c.stream == "C08.glob":
        return impl_glob(c)
    if c.stream == "C08.names":
        return impl_names(c)
    if c.stream == "C08.struct":
        return impl_struct(c)
    if c.stream == "C08.store":
        return impl_store(c)
    if c.stream == "C08.emit":
        return impl_emit(c)
    if c.stream == "C08.field":
        return impl_field(c)
    raise fw.HarnessError("unknown stream " + c.stream)


def _model_new(c):
    return (c.model_out or "").split(" old=")[0]


def _model_old(c):
    m = c.model_out or ""
    if " old=" not in m:
        return None
    return m.split(" old=", 1)[1]


def agree(c):
    if c.stream == "C08.glob":
        return c.impl_out == _model_new(c)
    if c.stream == "C08.names":
        m = re.match(r"^(res=\[.*\]) status=", c.impl_out or "")
        return bool(m) and _same_names(m.group(1), _model_new(c))
    if c.stream in ("C08.struct", "C08.emit"):
        return c.impl_out == c.model_out
    if c.stream == "C08.store":
        if not (c.impl_out or "").startswith("ok ") or c.model_out is None:
            return True  # refused requests are the oracle's business
        return store_types_observed(c.payload, c.extra) == c.model_out
    if c.stream == "C08.field":
        return c.impl_out == _model_new(c) or ((c.impl_out or "").startswith("raised:") and _model_new(c) == "refused")
    return True


def _same_names(a, b):
    """Two answer sequences agree when they have the same outcomes (fresh / reused / error) and the names
    correspond one to one; a name that differs may differ only in its de-duplication counter (the counter is
    not pinned by the input: DESIGN 1.4 rule 2)."""
    if a == b:
        return True
    ma, mb = re.match(r"^res=\[(.*)\]$", a or ""), re.match(r"^res=\[(.*)\]$", b or "")
    if not ma or not mb:
        return False
    xs = ma.group(1).split(";") if ma.group(1) else []
    ys = mb.group(1).split(";") if mb.group(1) else []
    if len(xs) != len(ys):
        return False
    fwd, bwd = {}, {}
    for x, y in zip(xs, ys):
        if x[:2] != y[:2]:
            return False
        if x in ("ve", "ke"):
            continue
        nx, ny = dec(x[2:]), dec(y[2:])
        if fwd.setdefault(nx, ny) != ny or bwd.setdefault(ny, nx) != nx:
            return False
        if nx != ny and re.sub(r"_[0-9]+$", "", nx) != re.sub(r"_[0-9]+$", "", ny):
            return False
    return True


def oracle(c):
    if c.stream == "C08.glob":
        return oracle_glob(c)
    if c.stream == "C08.names":
        return oracle_names(c)
    if c.stream == "C08.struct":
        return oracle_struct(c)
    if c.stream == "C08.store":
        return oracle_store(c)
    if c.stream == "C08.emit":
        return oracle_emit(c)
    if c.stream == "C08.field":
        return oracle_field(c)
    return None


# ----------------------------------------------------------------------------- known findings
def classify(c):
    p = c.payload
    out = c.impl_out or ""
    if c.stream == "C08.glob":
        # every field forces the same list / array value: `len(set(v))` raises TypeError
        if out == "raised:TypeError" and _model_old(c) == "raised:TypeError":
            return "forced-global-attribute-unhashable-value"
        if out == "raised:TypeError" and c.model_out is None:
            fields = p["fields"]
            for k in {k for f in fields for k, v in f["ncg"].items() if v is not None}:
                vals = [f["ncg"].get(k) for f in fields]
                if all(v is not None for v in vals) and any(v[0] in ("a", "l") for v in vals):
                    return "forced-global-attribute-unhashable-value"
        return "unclassified-glob"
    if c.stream == "C08.names":
        m = re.match(r"^(res=\[.*\]) status=(\S+)$", out)
        if m and c.model_out is not None:
            old = _model_old(c)
            if not _same_names(m.group(1), _model_new(c)) and old is not None and m.group(1) == "res=" + old and _blank_clash(c):
                return "netcdf-name-blank-replaced-after-uniqueness-test"
        return "unclassified-names"
    if c.stream == "C08.emit":
        ex = c.extra if isinstance(c.extra, dict) else {}
        if out.startswith("raised:"):
            c2 = Case("C08.struct", p)
            c2.impl_out, c2.extra = c.impl_out, c.extra
            return classify(c2)
        st = ex.get("step")
        if st and st[0] == "r" and st[2] == "coordinates" and ex.get("geom_props_nodata"):
            return "geometry-coordinate-without-data-listed-in-coordinates"
        if ex.get("ft_conflict") and (ex.get("refused") is None or (st and st[0] == "r" and st[2] == "formula_terms")):
            # the second field's setncattr('formula_terms') replaced the first's on the shared variable
            return "formula-terms-overwritten-on-shared-vertical-coordinate"
        return "unclassified-emit"
    if c.stream == "C08.struct":
        ex = c.extra if isinstance(c.extra, dict) else {}
        if out.startswith("raised:"):
            m = re.search(r"name in use: \(variable '([^']+)'", str(ex.get("error", "")))
            if m and m.group(1) in (ex.get("blank") or []):
                return "netcdf-name-blank-replaced-after-uniqueness-test"
            if out == "raised:AttributeError" and p["opts"].get("fmt") == "NETCDF4_CLASSIC" and ex.get("fillprop") \
                    and "define fill value" in str(ex.get("error", "")):
                return "netcdf4-classic-fillvalue-set-after-creation"
        if ex.get("geom_props_nodata") and out.startswith("bad:reference"):
            return "geometry-coordinate-without-data-listed-in-coordinates"
        if ex.get("ft_conflict") and (out.startswith("bad:orphan") or out.startswith("bad:reference")
                                      or (out == "ok" and "formula terms differ" in str(ex.get("decode")))):
            return "formula-terms-overwritten-on-shared-vertical-coordinate"
        return "unclassified-struct"
    if c.stream == "C08.field":
        ex = c.extra if isinstance(c.extra, dict) else {}
        old = _model_old(c)
        if out.startswith("raised:") and "name in use" in str(ex.get("error", "")) and old == "refused" \
                and any(a["dc"] is not None and not (a["dc"]["ncvar"] or a["dc"]["std"]) and a["ncdim"]
                        for F in p["fields"] for a in F["axes"]):
            # an unnamed dimension coordinate took the netCDF dimension name of its axis, which is in use
            return "dimension-coordinate-named-after-dimension-not-made-unique"
        if ex.get("repeated") and old is not None and old == out and any(_twin_dimcoords(F) for F in p["fields"]):
            # two axes of one field have equal dimension coordinates and were given one netCDF dimension
            return "equal-dimension-coordinates-of-one-field-share-a-dimension"
        return "unclassified-field"
    if c.stream == "C08.store":
        s, o = p["field"], p["opts"]
        if p.get("bad"):
            return "unclassified-store-malformed-" + p["bad"]
        nc3 = o["fmt"].startswith("NETCDF3")
        has_str = bool(s.get("straux") or s.get("strscalar") or s.get("gridmapping"))
        err = str(c.extra.get("error", "")) if isinstance(c.extra, dict) else str(c.extra)
        if out == "raised:AttributeError" and o["fmt"] == "NETCDF4_CLASSIC" and s.get("fill") is not None \
                and "define fill value" in err:
            return "netcdf4-classic-fillvalue-set-after-creation"
        if out.startswith("raised:") and not nc3 and o.get("endian", "native") != "native" and has_str \
                and not store_refusal_allowed(p) and "Invalid argument" in err:
            return "endian-option-refuses-string-variables"
        if out.startswith("ok") and nc3 and o.get("compress", 0):
            return "compress-netcdf3-not-refused"
        return "unclassified-store"
    return None


def _blank_clash(c):
    ex = c.extra if isinstance(c.extra, dict) else {}
    in_use = set()
    for e in ex.get("events", []):
        if e[0] == "d":
            in_use.add(e[1])
            continue
        _, base, dimsize, role, res = e
        if isinstance(base, str) and " " in base and sanitize(base) in in_use and res == sanitize(base):
            return True
        if res not in ("ve", "ke"):
            in_use.add(res)
    return False


# ----------------------------------------------------------------------------- shrinking
def _variants(c):
    p = c.payload
    if c.stream in ("C08.names", "C08.struct", "C08.emit"):
        fs = p["fields"]
        for i in range(len(fs)):
            if len(fs) > 1:
                q = dict(p)
                q["fields"] = fs[:i] + fs[i + 1:]
                yield q
        for i, s in enumerate(fs):
            muts = s.get("mut") or []
            for j in range(len(muts)):
                q = dict(p)
                s2 = dict(s)
                s2["mut"] = muts[:j] + muts[j + 1:]
                q["fields"] = fs[:i] + [s2] + fs[i + 1:]
                yield q
            if s["k"] == "rand":
                allow = s.get("allow")
                full = ["dim", "aux", "aux2d", "scalar", "msr", "fan", "cm", "gm", "ft", "bounds", "names", "unlimited", "mask",
                        "vecprop", "string", "dan"]
                cur = allow if allow is not None else full
                for a in cur:
                    q = dict(p)
                    s2 = dict(s)
                    s2["allow"] = [x for x in cur if x != a]
                    q["fields"] = fs[:i] + [s2] + fs[i + 1:]
                    yield q
        if c.stream in ("C08.struct", "C08.emit"):
            for k in list(p["opts"]):
                q = dict(p)
                q["opts"] = {a: b for a, b in p["opts"].items() if a != k}
                yield q
    elif c.stream == "C08.glob":
        fs = p["fields"]
        for i in range(len(fs)):
            if len(fs) > 1:
                q = dict(p)
                q["fields"] = fs[:i] + fs[i + 1:]
                yield q
        for k in ("global_attributes", "variable_attributes", "file_descriptors", "Conventions"):
            if p[k]:
                q = dict(p)
                q[k] = None
                yield q
        names = sorted({k for f in fs for k in list(f["props"]) + list(f["ncg"])})
        for n in names:
            q = dict(p)
            q["fields"] = [dict(props={k: v for k, v in f["props"].items() if k != n},
                                ncg={k: v for k, v in f["ncg"].items() if k != n}) for f in fs]
            yield q
    elif c.stream == "C08.field":
        fs = p["fields"]
        for i in range(len(fs)):
            if len(fs) > 1:
                yield dict(p, fields=fs[:i] + fs[i + 1:])
        for i, F in enumerate(fs):
            def put(G):
                return dict(p, fields=fs[:i] + [G] + fs[i + 1:])
            for j in range(len(F["cons"])):
                yield put(dict(F, cons=F["cons"][:j] + F["cons"][j + 1:]))
            for j in range(len(F["cms"])):
                yield put(dict(F, cms=F["cms"][:j] + F["cms"][j + 1:]))
            for j, a in enumerate(F["axes"]):
                if a["dc"] is not None:
                    yield put(dict(F, axes=F["axes"][:j] + [dict(a, dc=None)] + F["axes"][j + 1:]))
                if a["ncdim"] is not None:
                    yield put(dict(F, axes=F["axes"][:j] + [dict(a, ncdim=None)] + F["axes"][j + 1:]))
                if a["unlim"]:
                    yield put(dict(F, axes=F["axes"][:j] + [dict(a, unlim=False)] + F["axes"][j + 1:]))
            # drop the last axis when nothing uses it
            na = len(F["axes"])
            if na > 1 and (na - 1) not in F["data"] and not any((na - 1) in c["axes"] for c in F["cons"]) \
                    and not any((na - 1) in m for m in F["cms"]):
                yield put(dict(F, axes=F["axes"][:-1]))
        if p["opts"].get("coordinates"):
            yield dict(p, opts=dict(p["opts"], coordinates=False))
    elif c.stream == "C08.store":
        for k in list(p["opts"]):
            if k != "fmt":
                q = dict(p)
                q["opts"] = {a: b for a, b in p["opts"].items() if a != k}
                yield q
        if p["opts"]["fmt"] != "NETCDF4":
            q = dict(p)
            q["opts"] = dict(p["opts"], fmt="NETCDF4")
            yield q
        for k in ("unlimited", "dimcoord", "bounds", "straux", "strscalar", "gridmapping", "chunks", "fill", "missing", "masked"):
            if p["field"].get(k):
                q = dict(p)
                q["field"] = {a: b for a, b in p["field"].items() if a != k}
                yield q
        if len(p["field"]["shape"]) > 1 and not p["field"].get("unlimited") and not isinstance(p["field"].get("chunks"), list):
            q = dict(p)
            q["field"] = dict(p["field"], shape=p["field"]["shape"][:-1])
            yield q


def shrink(c, run):
    sig = classify(c)
    best = c
    improved = True
    steps = 0
    while improved and steps < 120:
        improved = False
        for q in _variants(best):
            steps += 1
            d = from_payload(c.stream, json.loads(json.dumps(q)))
            try:
                d.impl_out = impl(d)
                if d.line is not None:
                    try:
                        d.model_out = fw.model_run([d.line])[0]
                    except Exception:
                        d.model_out = None
                d.oracle_fail = oracle(d)
            except fw.HarnessError:
                continue
            except Exception:
                continue
            if d.oracle_fail and classify(d) == sig:
                best = d
                improved = True
                break
    return best if best is not c else None


def extra_coverage(run):
    return dict(generated_table=dict(description_of_file_contents_attributes=descr()),
                note="C08.names and C08.struct build their protocol line from what the real write did (request log / "
                     "abstract(file)); C08.store compares data types with the model and everything else with the oracle only")
