"""C05 — equality testing is total, reflexive, order-blind and discriminating.

One stream, C05.eq: a pair (x, y) and an option set.  y is built from x by a known
transformation (the same object, a copy, a rebuild under other construct keys / in
another insertion order, other netCDF names, one single-component perturbation, an
unrelated object, another type), so the expected verdict is known by construction
(the oracle).  The harness abstracts x and y through public accessors into the
model's records; the Lean model (the repaired code) computes the verdict from those.
Observable: True / False / raised:<Exception>.
"""
import itertools
import json
import os
from fractions import Fraction

import numpy as np

from .. import fw
from ..fw import Case

REQUIRED = [
    "C05_greedy_complete",
    "C05_greedy_sound",
    "C05_order_blind_arrays",
    "C05_matching_discriminates",
    "C05_domain_axes_sizes",
    "C05_construct_spec",
    "C05_refl_construct",
    "C05_refl_others",
    "C05_symm_construct",
    "C05_names_blind",
    "C05_discriminating_construct",
    "C05_discriminating_array",
    "C05_ignore_exact",
    "C05_total_partial",
    "C05_total_counterexample",
    "C05_refl_field_partial",
    "C05_refl_field_counterexample",
    "C05_key_blind_partial",
    "C05_key_blind_counterexample_unspanned_axis",
    "C05_order_blind_counterexample_ambiguous",
    "C05_field_sound",
    "C05_discriminating_field_partial",
    "C05_field_data_axes_counterexample",
    "C05_old_code_counterexamples",
]
BUDGET = {"quick": 1500, "thorough": 60000}
QUICK_JOBS = 8
RULE = (
    "pairs (x, y): x from cfdm.example_field(0-7), their domains, randomly built fields/domains (1-3 axes of size 1-4, "
    "dimension/auxiliary coordinates, cell measures, domain/field ancillaries, cell methods, coordinate references; equal axis sizes "
    "and deliberately ambiguous axes included) and every metadata construct, Data, Bounds, CellMethod, CoordinateReference, "
    "Datum, CoordinateConversion, DomainAxis inside them; y in {x, copy, complete subspace, rebuilt under renamed keys, rebuilt in "
    "another insertion order, other netCDF names, one perturbation of: property, datum (beyond / within tolerance), mask element, "
    "shape, data type, fill value, units, calendar, bounds (datum/removed/property), geometry type, interior ring, measure, axes "
    "spanned, field data axes, cell method (method/qualifier/interval/axes/removed/added/order), coordinate reference "
    "(parameter/datum/coordinate set/domain ancillary/removed), construct removed/added, domain axis added, compression; an "
    "unrelated object; an object of another type; same content under another class} x options {ignore_data_type, "
    "ignore_fill_value, ignore_properties None/str/tuple/list/empty, ignore_compression, ignore_type, rtol/atol None/0/dyadic, "
    "verbose None/0/1/3/-1/'INFO'}, both directions. non-trivial = y is not x itself; distinct = distinct (x, transformation, options)"
)
ASSUMPTIONS = [
    "array values are finite (no NaN/inf); numbers are carried exactly as dyadic rationals, strings only by identity",
    "tolerances come from a dyadic grid with rtol <= 1/2, so that float evaluation of |x-y| <= atol + rtol*|y| is exact on the generated values",
    "ignore_type=True between objects of different cfdm families (e.g. a coordinate against a Field) is outside the model: the oracle alone demands 'no exception'",
    "cell methods carry 0, 1 or len(axes) intervals (CF); domain axes inside the modelled fields have a size",
    "the `self is other` shortcut is modelled by a flag; object identity plays no other role",
    "a construct's Data take units, calendar and fill value from the construct's own properties (get_data), so these are perturbed on standalone Data only; a changed _FillValue/missing_value property also changes the derived data fill value, which only ignore_fill_value (not ignore_properties) is expected to hide",
    "netCDF variable/dimension names and the external-variable status are not data-model components: changing them must not change the verdict",
]

_cfdm = None


def cfdm():
    global _cfdm
    if _cfdm is None:
        import logging
        import cfdm as m
        _cfdm = m
        # equals(verbose=...) logs through the root handler: keep the run quiet
        null = open(os.devnull, "w")
        for h in logging.getLogger().handlers:
            try:
                h.setStream(null)
            except Exception:
                pass
    return _cfdm


class Unrepresentable(Exception):
    pass


# =========================================================================
# abstraction of live objects into the model's records (public accessors only)
# =========================================================================
ROLE = {"dimension_coordinate": 0, "auxiliary_coordinate": 1, "domain_ancillary": 2, "field_ancillary": 3,
        "cell_measure": 4, "domain_topology": 5, "cell_connectivity": 6}
ROLE_NAMES = list(ROLE)


class Ab:
    """Interning context shared by x and y of one case."""

    def __init__(self):
        self.names = {"_FillValue": 0, "missing_value": 1, "Conventions": 2}
        self.dtypes = {}
        self.svals = {}
        self.fracs = []

    def name(self, s):
        if s is None:
            return None
        s = str(s)
        if s not in self.names:
            self.names[s] = len(self.names)
        return self.names[s]

    def num(self, v):
        if isinstance(v, (bool, np.bool_)):
            v = int(v)
        try:
            if isinstance(v, (int, np.integer)):
                fr = Fraction(int(v))
            else:
                fr = Fraction(float(v))
        except (ValueError, OverflowError, TypeError):
            raise Unrepresentable(repr(v))
        self.fracs.append(fr)
        return ("n", fr)

    def sval(self, v):
        k = (type(v).__name__, v if isinstance(v, (str, bytes, type(None))) else repr(v))
        if isinstance(v, np.str_):
            k = ("str", str(v))
        if k not in self.svals:
            self.svals[k] = len(self.svals)
        return -(10 ** 30) - self.svals[k]

    def dtype(self, dt):
        s = str(dt)
        if s not in self.dtypes:
            self.dtypes[s] = len(self.dtypes)
        return self.dtypes[s]

    # ---- pieces
    def arr(self, a):
        if not np.ma.isMA(a):
            a = np.asanyarray(a)
        kind = a.dtype.kind
        if kind not in "biufSUO":
            raise Unrepresentable(str(a.dtype))
        isstr = kind in "SUO"
        mask = np.ma.getmaskarray(a).ravel()
        data = np.ma.getdata(a).ravel()
        vals = []
        for m, v in zip(mask.tolist(), data.tolist()):
            if m:
                vals.append("--")
            elif isstr:
                vals.append(self.sval(v))
            else:
                vals.append(self.num(v))
        return (tuple(int(n) for n in a.shape), self.dtype(a.dtype), int(isstr), tuple(vals))

    def props(self, d):
        return tuple((self.name(k), self.arr(v)) for k, v in d.items())

    def data(self, d):
        if d is None:
            return None
        a = d.array
        ct = d.get_compression_type()
        arr = self.arr(a)
        if ct:
            carr = self.arr(d.compressed_array)
            cti = self.name("compression:" + ct) + 1
        else:
            carr = arr
            cti = 0
        fv = d.get_fill_value(None)
        return (arr, None if fv is None else self.num(fv), self.name(d.get_units(None)), self.name(d.get_calendar(None)), cti, carr)

    def sub(self, b):
        if b is None:
            return None
        return (self.props(b.properties()), self.data(b.get_data(None)))

    def construct(self, c):
        cls = ROLE[c.construct_type]
        ext = bool(getattr(c, "nc_get_external", lambda: False)())
        return ("C", cls, self.props(c.properties()), self.data(c.get_data(None)), int(ext),
                self.name(c.nc_get_variable(None)),
                self.name(c.get_geometry(None)) if hasattr(c, "get_geometry") else None,
                self.sub(c.get_bounds(None)) if hasattr(c, "get_bounds") else None,
                self.sub(c.get_interior_ring(None)) if hasattr(c, "get_interior_ring") else None,
                self.name(c.get_measure(None)) if hasattr(c, "get_measure") else None)

    def cell_method(self, m):
        q = m.qualifiers()
        iv = q.pop("interval", ())
        return ("M", tuple(self.name(a) for a in m.get_axes(())), self.name(m.get_method(None)),
                tuple((self.name(k), self.name("q:" + repr(v))) for k, v in q.items()),
                tuple(self.data(d) for d in iv))

    def params(self, d):
        out = []
        for k, v in d.items():
            if v is None:
                out.append((self.name(k), None))
            elif isinstance(v, cfdm().Data):
                raise Unrepresentable("Data-valued parameter")
            else:
                out.append((self.name(k), self.arr(v)))
        return tuple(out)

    def coord_ref(self, r):
        return ("R", tuple(self.name(k) for k in sorted(r.coordinates())),
                self.params(r.coordinate_conversion.parameters()),
                tuple((self.name(t), self.name(k)) for t, k in r.coordinate_conversion.domain_ancillaries().items()),
                self.params(r.datum.parameters()))

    def field(self, f):
        C = cfdm()
        is_field = isinstance(f, C.Field)
        axes = []
        for k, a in f.domain_axes(todict=True).items():
            s = a.get_size(None)
            if s is None:
                raise Unrepresentable("domain axis without size")
            axes.append((self.name(k), int(s)))
        da = f.constructs.data_axes()
        cons = f.constructs.filter_by_data(todict=True)
        order = [k for k in da if k in cons]
        # the per-type order the code iterates in must be the restriction of this order
        for t in ROLE_NAMES:
            want = list(f.constructs.filter_by_type(t, todict=True))
            got = [k for k in order if cons[k].construct_type == t]
            if want != got:
                raise fw.HarnessError(f"construct order of data_axes() and filter_by_type({t}) disagree: {got} {want}")
        entries = tuple((self.name(k), tuple(self.name(a) for a in da[k]), self.construct(cons[k])) for k in order)
        cms = tuple((self.name(k), self.cell_method(m)) for k, m in f.cell_methods(todict=True).items()) if is_field else ()
        refs = tuple((self.name(k), self.coord_ref(r)) for k, r in f.coordinate_references(todict=True).items())
        data = self.data(f.get_data(None)) if is_field else None
        dax = tuple(self.name(a) for a in f.get_data_axes(default=())) if is_field else ()
        return ("F", 100 if is_field else 101, self.props(f.properties()), data, dax, tuple(axes), entries, cms, refs)

    def obj(self, o):
        C = cfdm()
        if isinstance(o, (C.Field, C.Domain)):
            return self.field(o)
        if isinstance(o, C.Data):
            return ("D", self.data(o))
        if isinstance(o, C.CellMethod):
            return self.cell_method(o)
        if isinstance(o, C.CoordinateReference):
            return self.coord_ref(o)
        if isinstance(o, C.DomainAxis):
            return ("X", o.get_size(None))
        if isinstance(o, (C.Datum, C.CoordinateConversion)):
            if isinstance(o, C.CoordinateConversion) and o.domain_ancillaries():
                raise Unrepresentable("standalone conversion with domain ancillaries")
            return ("P", 1 if isinstance(o, C.Datum) else 2, self.params(o.parameters()))
        if getattr(o, "construct_type", None) in ROLE:
            return self.construct(o)
        if isinstance(o, (C.Bounds, C.InteriorRing)):
            return ("S", 7 if isinstance(o, C.Bounds) else 8, self.sub(o))
        return ("O", self.name("type:" + type(o).__name__))


def render(t, k):
    if t is None:
        return "_"
    if isinstance(t, bool):
        return "1" if t else "0"
    if isinstance(t, (int, np.integer)):
        return str(int(t))
    if isinstance(t, str):
        return t
    if isinstance(t, tuple):
        if len(t) == 2 and t[0] == "n" and isinstance(t[1], Fraction):
            v = t[1] * (1 << k)
            assert v.denominator == 1
            return str(v.numerator)
        return "(" + ",".join(render(e, k) for e in t) + ")"
    raise fw.HarnessError(f"cannot render {t!r}")


def scale_of(fracs):
    k = 0
    for fr in fracs:
        d = fr.denominator
        if d > 1:
            k = max(k, d.bit_length() - 1)
    return k


# =========================================================================
# options
# =========================================================================
FAMILY_OPTS = {
    "pd": ("rtol", "atol", "verbose", "ignore_data_type", "ignore_fill_value", "ignore_properties", "ignore_compression", "ignore_type"),
    "data": ("rtol", "atol", "verbose", "ignore_data_type", "ignore_fill_value", "ignore_compression", "ignore_type"),
    "cm": ("rtol", "atol", "verbose", "ignore_type"),
    "ref": ("rtol", "atol", "verbose", "ignore_type"),
    "params": ("rtol", "atol", "verbose", "ignore_data_type", "ignore_fill_value", "ignore_type"),
    "axis": ("verbose", "ignore_type"),
}


def family(o):
    C = cfdm()
    if isinstance(o, C.Data):
        return "data"
    if isinstance(o, C.CellMethod):
        return "cm"
    if isinstance(o, C.CoordinateReference):
        return "ref"
    if isinstance(o, (C.Datum, C.CoordinateConversion)):
        return "params"
    if isinstance(o, C.DomainAxis):
        return "axis"
    return "pd"


TOLS = [None, None, None, 0.0, 0.0, 2.0 ** -10, 0.25, 0.5]
ATOLS = [None, None, None, 0.0, 0.0, 0.5, 2.0, 8.0]
VERBOSE = [None, None, None, 0, 1, 3, -1, "INFO", "DEBUG"]


def gen_opts(rng, pname):
    """A random option set; `pname` is the property name the perturbation touches (if any)."""
    o = dict(idt=False, ifv=False, ip=None, ic=True, it=False, rtol=None, atol=None, verbose=None)
    r = rng.random()
    if r < 0.25:
        return o  # defaults
    if rng.random() < 0.3:
        o["idt"] = True
    if rng.random() < 0.3:
        o["ifv"] = True
    if rng.random() < 0.5:
        nm = rng.choice([pname or "foo", pname or "foo", "long_name", "zzz"])
        form = rng.choice(["s", "s", "t", "t", "l", "t2", "l2", "e", "et", "el"])
        o["ip"] = {"s": ["s", nm], "t": ["t", [nm]], "l": ["l", [nm]], "t2": ["t", ["zzz", nm]], "l2": ["l", [nm, "comment"]],
                   "e": ["s", ""], "et": ["t", []], "el": ["l", []]}[form]
    if rng.random() < 0.2:
        o["ic"] = False
    if rng.random() < 0.2:
        o["it"] = True
    if rng.random() < 0.4:
        o["rtol"] = rng.choice(TOLS)
        o["atol"] = rng.choice(ATOLS)
    if rng.random() < 0.3:
        o["verbose"] = rng.choice(VERBOSE)
    return o


def ip_py(ip):
    if ip is None:
        return None
    if ip[0] == "s":
        return ip[1]
    if ip[0] == "t":
        return tuple(ip[1])
    return list(ip[1])


def ip_names(ip):
    """The names an ignore_properties value stands for (as documented)."""
    if ip is None:
        return set()
    if ip[0] == "s":
        return {ip[1]} if ip[1] else set()
    return set(ip[1])


def kwargs_for(x, o):
    fam = family(x)
    allowed = FAMILY_OPTS[fam]
    kw = {}
    if o["idt"] and "ignore_data_type" in allowed:
        kw["ignore_data_type"] = True
    if o["ifv"] and "ignore_fill_value" in allowed:
        kw["ignore_fill_value"] = True
    if o["ip"] is not None and "ignore_properties" in allowed:
        kw["ignore_properties"] = ip_py(o["ip"])
    if not o["ic"] and "ignore_compression" in allowed:
        kw["ignore_compression"] = False
    if o["it"] and "ignore_type" in allowed:
        kw["ignore_type"] = True
    if o["rtol"] is not None and "rtol" in allowed:
        kw["rtol"] = o["rtol"]
    if o["atol"] is not None and "atol" in allowed:
        kw["atol"] = o["atol"]
    if o["verbose"] is not None:
        kw["verbose"] = o["verbose"]
    return kw


def effective(x, o):
    """The option set restricted to what the class of x documents."""
    allowed = FAMILY_OPTS[family(x)]
    e = dict(o)
    if "ignore_data_type" not in allowed:
        e["idt"] = False
    if "ignore_fill_value" not in allowed:
        e["ifv"] = False
    if "ignore_properties" not in allowed:
        e["ip"] = None
    if "ignore_compression" not in allowed:
        e["ic"] = True
    if "rtol" not in allowed:
        e["rtol"] = e["atol"] = None
    return e


def tol_fracs(e):
    C = cfdm()
    rt = Fraction(float(C.rtol())) if e["rtol"] is None else Fraction(float(e["rtol"]))
    at = Fraction(float(C.atol())) if e["atol"] is None else Fraction(float(e["atol"]))
    return at, rt


def opts_tree(ab, e, k):
    at, rt = tol_fracs(e)
    ip = e["ip"]
    if ip is None:
        ipt = None
    elif ip[0] == "s":
        ipt = ("s", ab.name(ip[1]) if ip[1] else None)
    else:
        ipt = (ip[0], tuple(ab.name(n) for n in ip[1]))
    return (at.numerator, at.denominator, rt.numerator, rt.denominator, k, int(e["idt"]), int(e["ifv"]), ipt, int(e["ic"]), int(e["it"]))


# =========================================================================
# base objects
# =========================================================================
_ex_cache = {}


def example(n):
    if n not in _ex_cache:
        _ex_cache[n] = cfdm().example_field(n)
    return _ex_cache[n].copy()


def random_field(seed, domain=False):
    """A small field built from scratch; integer-valued data; sizes may repeat."""
    C = cfdm()
    rng = fw.rng_for(seed, "C05field")
    f = C.Field(properties={"standard_name": rng.choice(["air_temperature", "eastward_wind"]), "comment": "c%d" % rng.randrange(3)})
    nax = rng.choice([1, 2, 2, 3, 3])
    pool = rng.choice([[2, 3, 4], [3, 3, 3], [2, 2, 3], [1, 3, 3], [4, 4, 2]])
    sizes = [rng.choice(pool) for _ in range(nax)]
    ambiguous = rng.random() < 0.2
    ax = [f.set_construct(C.DomainAxis(s)) for s in sizes]
    if rng.random() < 0.3:
        ax.append(f.set_construct(C.DomainAxis(1)))
        sizes.append(1)
    nd = rng.randint(1, nax)
    dperm = rng.sample(range(nax), nd)

    def ints(shape, lo=0, float_=True):
        n = int(np.prod(shape)) if shape else 1
        a = np.array([lo + rng.randint(0, 40) for _ in range(n)], dtype=float if float_ else int).reshape(shape)
        return a

    def maybe_mask(a):
        if a.size > 1 and rng.random() < 0.25:
            m = np.zeros(a.shape, bool)
            m.flat[rng.randrange(a.size)] = True
            return np.ma.array(a, mask=m)
        return a

    fd = C.Data(maybe_mask(ints([sizes[i] for i in dperm], 100)), units="K")
    if rng.random() < 0.3:
        fd.set_fill_value(-999.0)
    f.set_data(fd, axes=[ax[i] for i in dperm])
    label = itertools.count()

    def name():
        return "n0" if ambiguous else "n%d" % next(label)

    coords = []
    for i, a in enumerate(ax):
        r = rng.random()
        if r < 0.6:
            d = C.DimensionCoordinate(properties={"long_name": name()},
                                      data=C.Data(np.arange(sizes[i], dtype=float) * (1 if ambiguous else i + 1), units="m"))
            if rng.random() < 0.5:
                b = np.empty((sizes[i], 2))
                b[:, 0] = d.array - 0.5
                b[:, 1] = d.array + 0.5
                d.set_bounds(C.Bounds(data=C.Data(b)))
            coords.append(f.set_construct(d, axes=[a]))
        elif r < 0.8:
            x = C.AuxiliaryCoordinate(properties={"long_name": name()}, data=C.Data(maybe_mask(ints([sizes[i]], 0))))
            coords.append(f.set_construct(x, axes=[a]))
    if len(ax) >= 2 and rng.random() < 0.7:
        i, j = rng.sample(range(len(ax)), 2)
        x = C.AuxiliaryCoordinate(properties={"long_name": name()}, data=C.Data(ints([sizes[i], sizes[j]], 0)))
        coords.append(f.set_construct(x, axes=[ax[i], ax[j]]))
        if rng.random() < 0.4:
            x = C.AuxiliaryCoordinate(properties={"long_name": name()}, data=C.Data(ints([sizes[j], sizes[i]], 0, float_=False)))
            coords.append(f.set_construct(x, axes=[ax[j], ax[i]]))
    if rng.random() < 0.4:
        i = rng.randrange(len(ax))
        m = C.CellMeasure(measure=rng.choice(["area", "volume"]), properties={"long_name": name()}, data=C.Data(ints([sizes[i]], 1), units="m2"))
        f.set_construct(m, axes=[ax[i]])
    ancs = []
    if rng.random() < 0.4:
        i = rng.randrange(len(ax))
        d = C.DomainAncillary(properties={"long_name": name()}, data=C.Data(ints([sizes[i]], 5)))
        ancs.append(f.set_construct(d, axes=[ax[i]]))
    if rng.random() < 0.3 and not domain:
        i = rng.randrange(len(ax))
        d = C.FieldAncillary(properties={"long_name": name()}, data=C.Data(ints([sizes[i]], 7)))
        f.set_construct(d, axes=[ax[i]])
    ncm = rng.choice([0, 0, 1, 1, 2, 3])
    for _ in range(ncm):
        k = rng.choice([1, 1, 1, 2, 3])
        axes = rng.sample(ax, min(k, len(ax)))
        if rng.random() < 0.2:
            axes = ["area"]
        cm = C.CellMethod(axes=axes, method=rng.choice(["mean", "maximum", "sum", "point"]))
        if rng.random() < 0.3:
            cm.set_qualifier(rng.choice(["where", "within", "over"]), rng.choice(["land", "sea", "years"]))
        if rng.random() < 0.3:
            n_iv = rng.choice([1, len(axes)])
            cm.set_qualifier("interval", [C.Data(float(rng.randint(1, 5)), units="m") for _ in range(n_iv)])
        f.set_construct(cm)
    if coords and rng.random() < 0.6:
        nref = rng.choice([1, 1, 2])
        for q in range(nref):
            r = C.CoordinateReference(
                coordinates=rng.sample(coords, rng.randint(1, len(coords))),
                coordinate_conversion=C.CoordinateConversion(
                    parameters={"grid_mapping_name": rng.choice(["latitude_longitude", "rotated"]), "p": float(rng.randint(0, 3))},
                    domain_ancillaries=({"a": ancs[0]} if ancs and rng.random() < 0.7 else ({"a": None} if rng.random() < 0.2 else {})),
                ),
                datum=C.Datum(parameters={"earth_radius": float(rng.choice([6371007, 6371000]))} if rng.random() < 0.6 else {}),
            )
            f.set_construct(r)
    if domain:
        return f.domain
    return f


def bare_axes_field(seed):
    """3-4 domain axes of ONE size, all spanned by the field data; some carry a 1-d coordinate, some are bare
    (no 1-d coordinate of their own); one or two 2-d constructs.  The axes of an N-d construct are then the
    only thing that tells some fields apart: the axis mapping of Constructs.equals has to be checked in
    both directions."""
    C = cfdm()
    rng = fw.rng_for(seed, "C05bare")
    n = rng.choice([3, 3, 4])
    size = rng.choice([2, 3, 4])
    f = C.Field(properties={"standard_name": "air_temperature"})
    ax = [f.set_construct(C.DomainAxis(size)) for _ in range(n)]
    f.set_data(C.Data(np.arange(float(size ** n)).reshape([size] * n), units="K"), axes=ax)
    with_coord = rng.sample(range(n), rng.choice([1, 1, 2]))
    for i in with_coord:
        cls = C.DimensionCoordinate if rng.random() < 0.7 else C.AuxiliaryCoordinate
        f.set_construct(cls(properties={"long_name": "c%d" % i}, data=C.Data(np.arange(float(size)) * (i + 1), units="m")), axes=[ax[i]])
    for q in range(rng.choice([1, 1, 2])):
        i, j = rng.sample(range(n), 2)
        cls = rng.choice([C.AuxiliaryCoordinate, C.AuxiliaryCoordinate, C.CellMeasure, C.DomainAncillary])
        kw = dict(measure="area") if cls is C.CellMeasure else {}
        a = np.array([rng.randint(0, 40) for _ in range(size * size)], dtype=float).reshape(size, size)
        f.set_construct(cls(properties={"long_name": "two%d" % q}, data=C.Data(a), **kw), axes=[ax[i], ax[j]])
    return f


def base_field(base):
    kind = base[0]
    if kind == "ex":
        return example(base[1])
    if kind == "exdom":
        return example(base[1]).domain
    if kind == "rand":
        return random_field(base[1])
    if kind == "randdom":
        return random_field(base[1], domain=True)
    if kind == "bare":
        return bare_axes_field(base[1])
    raise fw.HarnessError(f"unknown base {base}")


def select(f, sel):
    """The object inside field/domain f that the case compares."""
    what = sel[0]
    if what == "self":
        return f
    if what == "con":
        return f.constructs[sel[1]]
    if what == "data":
        return (f if sel[1] is None else f.constructs[sel[1]]).data
    if what == "bounds":
        return f.constructs[sel[1]].bounds
    if what == "ring":
        return f.constructs[sel[1]].get_interior_ring()
    if what == "datum":
        return f.constructs[sel[1]].datum
    if what == "conv":
        return f.constructs[sel[1]].coordinate_conversion
    raise fw.HarnessError(f"unknown selector {sel}")


def selectors(f, rng):
    """All comparable objects of a field, as selectors."""
    C = cfdm()
    out = [("self",)]
    if isinstance(f, C.Field):
        out.append(("data", None))
    for k, c in f.constructs.todict().items():
        out.append(("con", k))
        if hasattr(c, "has_data") and c.has_data():
            out.append(("data", k))
        if getattr(c, "has_bounds", lambda: False)():
            out.append(("bounds", k))
        if getattr(c, "has_interior_ring", lambda: False)():
            out.append(("ring", k))
        if isinstance(c, C.CoordinateReference):
            out.append(("datum", k))
            if not c.coordinate_conversion.domain_ancillaries():
                out.append(("conv", k))
    return out


# =========================================================================
# rebuilding a field under other keys / in another order
# =========================================================================
def rebuild(f, rng, rename, reorder):
    C = cfdm()
    is_field = isinstance(f, C.Field)
    g = (C.Field if is_field else C.Domain)(properties=f.properties())
    axes = list(f.domain_axes(todict=True).items())
    cons = list(f.constructs.filter_by_data(todict=True).items())
    da = f.constructs.data_axes()
    if reorder:
        rng.shuffle(axes)
        rng.shuffle(cons)
    amap, kmap = {}, {}
    if rename:
        names = [k for k, _ in axes]
        new = names[1:] + names[:1] if len(names) > 1 and rng.random() < 0.5 else ["ax%d" % (i + 7) for i in range(len(names))]
        amap = dict(zip(names, new))
    for k, a in axes:
        g.set_construct(a.copy(), key=amap.get(k, k))
    if is_field and f.has_data():
        g.set_data(f.data.copy(), axes=[amap.get(a, a) for a in f.get_data_axes()])
    if rename:
        by_type = {}
        for k, c in cons:
            by_type.setdefault(c.construct_type, []).append(k)
        for t, ks in by_type.items():
            if len(ks) > 1 and rng.random() < 0.5:
                kmap.update(zip(ks, ks[1:] + ks[:1]))
            else:
                kmap.update((k, "%s%d" % (t.replace("_", ""), i + 11)) for i, k in enumerate(ks))
    for k, c in cons:
        g.set_construct(c.copy(), axes=[amap.get(a, a) for a in da[k]], key=kmap.get(k, k))
    if is_field:
        for k, m in f.cell_methods(todict=True).items():
            m = m.copy()
            m.set_axes([amap.get(a, a) for a in m.get_axes(())])
            g.set_construct(m, key=("cm_" + k) if rename else k)
    refs = list(f.coordinate_references(todict=True).items())
    if reorder:
        rng.shuffle(refs)
    for k, r in refs:
        r = r.copy()
        old = r.coordinates()
        r.clear_coordinates()
        r.set_coordinates([kmap.get(c, c) for c in old])
        for t, v in r.coordinate_conversion.domain_ancillaries().items():
            if v is not None:
                r.coordinate_conversion.set_domain_ancillary(t, kmap.get(v, v))
        g.set_construct(r, key=("ref_" + k) if rename else k)
    return g


# =========================================================================
# transformations: (y, expected verdict given the effective options)
# =========================================================================
FAR = "far"


def far_value(v):
    """A value beyond every tolerance of the grid from v (rtol <= 1/2, atol <= 8), both directions."""
    v = float(v)
    return 4 * v + 100 if v >= 0 else 4 * v - 100


class Skip(Exception):
    """The transformation does not apply to this object."""


def has_ndata(o):
    return hasattr(o, "has_data") and o.has_data() and o.data.size > 0 and o.data.dtype.kind in "iuf"


def data_holder_paths(x):
    """Paths (callables on a copy) to every Data-bearing component of x, with a nesting depth label."""
    C = cfdm()
    out = []
    if isinstance(x, C.Data):
        return [("top", lambda y: y, None)]
    if has_ndata(x):
        out.append(("top", lambda y: y, "self"))
    if getattr(x, "has_bounds", lambda: False)() and has_ndata(x.bounds):
        out.append(("bounds", lambda y: y.bounds, "bounds"))
    if isinstance(x, (C.Field, C.Domain)):
        for k, c in x.constructs.filter_by_data(todict=True).items():
            if has_ndata(c):
                out.append(("con", (lambda y, k=k: y.constructs[k]), k))
            if getattr(c, "has_bounds", lambda: False)() and has_ndata(c.bounds):
                out.append(("conbounds", (lambda y, k=k: y.constructs[k].bounds), k))
    return out


def set_array(holder, a):
    """Replace the array of a Data (holder is Data) or of the Data of a construct, keeping its metadata."""
    C = cfdm()
    if isinstance(holder, C.Data):
        raise fw.HarnessError("use new_data for Data")
    d = holder.data
    nd = C.Data(a, units=d.get_units(None), calendar=d.get_calendar(None), fill_value=d.get_fill_value(None))
    holder.set_data(nd, copy=False)


def new_data(d, a):
    return cfdm().Data(a, units=d.get_units(None), calendar=d.get_calendar(None), fill_value=d.get_fill_value(None))


def perturb_array(x, y, path, rng, how):
    """Change the data array at `path` of y (a copy of x).  Returns the replacement for y (Data case) or y."""
    C = cfdm()
    label, get, _ = path
    holder = get(y)
    d = holder if isinstance(holder, C.Data) else holder.data
    a = np.ma.array(d.array, copy=True) if np.ma.isMA(d.array) else np.array(d.array, copy=True)
    if a.size == 0:
        raise Skip
    unmasked = [i for i in range(a.size) if not np.ma.getmaskarray(a).flat[i]]
    if how in ("datum", "within"):
        if a.dtype.kind not in "iuf" or not unmasked:
            raise Skip
        i = rng.choice(unmasked)
        if how == "datum":
            nv = far_value(a.flat[i])
            if a.dtype.kind in "iu":
                nv = int(nv)
            if a.dtype.kind == "u" and nv < 0:
                raise Skip
            if a.dtype.kind == "f" and float(a.dtype.type(nv)) != nv:
                raise Skip
            a.flat[i] = nv
        else:
            if a.dtype != np.dtype("float64"):
                raise Skip
            if rng.random() < 0.4:
                # one unit in the last place: inside the package-wide default tolerance (machine epsilon,
                # relative and absolute) for |v| >= 1, outside an explicit zero tolerance
                nv = float(np.nextafter(a.flat[i], np.inf))
                if nv == float(a.flat[i]) or not np.isfinite(nv):
                    raise Skip
            else:
                nv = float(a.flat[i]) + 0.25
                if Fraction(nv) - Fraction(float(a.flat[i])) != Fraction(1, 4):
                    raise Skip
            a.flat[i] = nv
    elif how == "mask":
        a = np.ma.array(a)
        m = np.ma.getmaskarray(a).copy()
        i = rng.randrange(a.size)
        m.flat[i] = not m.flat[i]
        a = np.ma.array(np.ma.getdata(a), mask=m)
    elif how == "dtype":
        k = a.dtype.kind
        cands = []
        if k == "f":
            cands = [">f8" if a.dtype.byteorder in "=<|" and a.dtype.itemsize == 8 else "float64", "float32", "float64"]
        elif k in "iu":
            cands = ["int32", "int64", "float64", "int16"]
        done = False
        for dt in cands:
            dt = np.dtype(dt)
            if dt == a.dtype:
                continue
            b = a.astype(dt)
            if np.ma.allequal(b.astype("float64"), a.astype("float64")) and (np.ma.getmaskarray(a) == np.ma.getmaskarray(b)).all():
                exact = all(Fraction(float(u)) == Fraction(float(v)) for u, v in zip(np.ma.getdata(a).ravel().tolist(), np.ma.getdata(b).ravel().tolist()))
                if exact:
                    a = b
                    done = True
                    break
        if not done:
            raise Skip
    elif how == "shape":
        only_1d = getattr(holder, "construct_type", None) == "dimension_coordinate"
        if a.ndim == 0:
            a = a.reshape(1)
        elif a.shape[-1] > 1 and (only_1d or rng.random() < 0.6):
            a = a[..., :-1]
        elif only_1d:
            raise Skip
        else:
            a = a.reshape(a.shape + (1,))
    else:
        raise fw.HarnessError(how)
    if isinstance(holder, C.Data):
        nd = new_data(d, a)
        if label == "top" and isinstance(y, C.Data):
            return nd
        raise fw.HarnessError("Data holder inside a construct")
    set_array(holder, a)
    return y


PERTURB_PROP_NAMES = ["foo", "long_name", "comment", "_FillValue", "missing_value", "Conventions"]


def transform(x, kind, rng, ctx):
    """Build y from x.  Returns (y, info) where info feeds `expected`.  ctx: dict(base=..., sel=..., field=f)."""
    C = cfdm()
    info = {}
    is_fd = isinstance(x, (C.Field, C.Domain))
    if kind == "same":
        return x, info
    if kind == "copy":
        return x.copy(), info
    if kind == "subspace":
        if not isinstance(x, C.Field) or not x.has_data():
            raise Skip
        return x[...], info
    if kind in ("rename", "reorder", "rename+reorder"):
        if not is_fd:
            raise Skip
        return rebuild(x, rng, "rename" in kind, "reorder" in kind), info
    if kind == "ncnames":
        y = x.copy()
        objs = [y]
        if is_fd:
            objs += list(y.constructs.todict().values())
        touched = False
        for o in objs:
            if getattr(o, "nc_get_external", lambda: False)():
                continue
            if hasattr(o, "nc_set_variable"):
                o.nc_set_variable("v%d" % rng.randrange(1000))
                touched = True
            if hasattr(o, "nc_set_dimension"):
                o.nc_set_dimension("d%d" % rng.randrange(1000))
                touched = True
            b = getattr(o, "get_bounds", lambda d: None)(None)
            if b is not None:
                b.nc_set_variable("b%d" % rng.randrange(1000))
        if not touched:
            raise Skip
        return y, info

    # ---- properties
    if kind.startswith("prop"):
        # prop:<where>: where in top / con / bounds / conbounds
        where = kind.split(":")[1]
        y = x.copy()
        if where == "top":
            tgt = y
        elif where == "bounds":
            if not getattr(y, "has_bounds", lambda: False)():
                raise Skip
            tgt = y.bounds
        elif where in ("con", "conbounds"):
            if not is_fd:
                raise Skip
            cs = y.constructs.filter_by_data(todict=True)
            if where == "conbounds":
                cs = {k: c for k, c in cs.items() if getattr(c, "has_bounds", lambda: False)()}
            if not cs:
                raise Skip
            k = rng.choice(sorted(cs))
            tgt = cs[k] if where == "con" else cs[k].bounds
            if getattr(cs[k], "nc_get_external", lambda: False)():
                raise Skip
        else:
            raise fw.HarnessError(kind)
        if not hasattr(tgt, "set_property"):
            raise Skip
        name = ctx.get("pname") or rng.choice(PERTURB_PROP_NAMES)

        def derived_fill(o):
            return o.get_property("missing_value", o.get_property("_FillValue", None))

        fill0 = derived_fill(tgt)
        if tgt.has_property(name) and rng.random() < 0.3:
            tgt.del_property(name)
        else:
            old = tgt.get_property(name, None)
            if name in ("_FillValue", "missing_value"):
                # (a string fill value cannot even be attached to numeric data)
                new = -12345.0 if old is None or float(old) != -12345.0 else -54321.0
            else:
                new = "zzz" if old != "zzz" else "yyy"
            tgt.set_property(name, new)
        has_data = getattr(tgt, "has_data", lambda: False)()
        info.update(where=where, pname=name, fill_changed=bool(has_data and derived_fill(tgt) != fill0))
        return y, info

    # ---- data arrays
    if kind.split(":")[0] in ("datum", "within", "mask", "dtype", "shape"):
        how, where = kind.split(":")
        paths = [p for p in data_holder_paths(x) if p[0] == where]
        if not paths:
            raise Skip
        if how == "shape" and where in ("con", "conbounds"):
            raise Skip  # would break the container's shape checks, not a single-component change
        if how == "shape" and where == "top" and is_fd:
            raise Skip
        path = rng.choice(paths)
        y = x.copy()
        y = perturb_array(x, y, path, rng, how)
        info.update(where=where)
        if how == "within":
            # which value moved, for the exact tolerance statement of the oracle
            gx = path[1](x)
            gy = path[1](y)
            ax = (gx if isinstance(gx, C.Data) else gx.data).array
            ay = (gy if isinstance(gy, C.Data) else gy.data).array
            diff = [(float(u), float(v)) for u, v, m in zip(np.ma.getdata(ax).ravel(), np.ma.getdata(ay).ravel(), np.ma.getmaskarray(ax).ravel()) if not m and u != v]
            info["moved"] = diff
        return y, info

    if kind.split(":")[0] in ("fill", "units", "calendar"):
        how, where = kind.split(":")
        # a construct re-derives the units, calendar and fill value of its Data from its own
        # properties (get_data): these are components of a standalone Data only
        if not isinstance(x, C.Data):
            raise Skip
        paths = [p for p in data_holder_paths(x) if p[0] == where]
        if not paths:
            raise Skip
        path = rng.choice(paths)
        y = x.copy()
        holder = path[1](y)
        d = holder if isinstance(holder, C.Data) else holder.data
        if how == "fill":
            d.set_fill_value(-7.0 if d.get_fill_value(None) != -7.0 else -8.0)
        elif how == "units":
            d.set_units("zz" if d.get_units(None) != "zz" else "yy")
        else:
            d.set_calendar("noleap" if d.get_calendar(None) != "noleap" else "360_day")
        info.update(where=where)
        return y, info

    if kind == "data:remove":
        y = x.copy()
        if isinstance(y, C.Data) or not hasattr(y, "del_data") or not y.has_data() or isinstance(y, C.Field) and False:
            raise Skip
        y.del_data()
        if isinstance(y, C.Field):
            pass
        return y, info

    # ---- bounds / geometry / interior ring / measure
    if kind == "bounds:remove":
        if not getattr(x, "has_bounds", lambda: False)():
            raise Skip
        y = x.copy()
        y.del_bounds()
        return y, info
    if kind == "bounds:add":
        if not hasattr(x, "set_bounds") or x.has_bounds() or not has_ndata(x):
            raise Skip
        y = x.copy()
        a = np.asarray(np.ma.getdata(x.array), dtype=float)
        y.set_bounds(C.Bounds(data=C.Data(np.stack([a - 0.5, a + 0.5], axis=-1))))
        return y, info
    if kind == "geometry":
        if not hasattr(x, "set_geometry"):
            raise Skip
        y = x.copy()
        y.set_geometry("line" if x.get_geometry(None) != "line" else "polygon")
        return y, info
    if kind in ("ring:datum", "ring:remove"):
        if not getattr(x, "has_interior_ring", lambda: False)():
            raise Skip
        y = x.copy()
        if kind == "ring:remove":
            y.del_interior_ring()
        else:
            r = y.get_interior_ring()
            a = np.ma.array(r.array, copy=True)
            un = [i for i in range(a.size) if not np.ma.getmaskarray(a).flat[i]]
            if not un:
                raise Skip
            i = rng.choice(un)
            a.flat[i] = int(far_value(a.flat[i]))
            set_array(r, a)
        return y, info
    if kind == "measure":
        if not hasattr(x, "set_measure"):
            raise Skip
        y = x.copy()
        y.set_measure("volume" if x.get_measure(None) != "volume" else "area")
        return y, info
    if kind == "external":
        if not hasattr(x, "nc_set_external") or x.nc_get_external():
            raise Skip
        y = x.copy()
        y.nc_set_external(True)
        y.nc_set_variable("areacella")
        info["documented_blind"] = True  # netCDF-only status
        return y, info
    if kind == "retype":
        ct = getattr(x, "construct_type", None)
        fam = {"dimension_coordinate": [C.AuxiliaryCoordinate, C.DomainAncillary],
               "auxiliary_coordinate": [C.DomainAncillary] + ([C.DimensionCoordinate] if x.has_data() and x.ndim == 1 else []),
               "domain_ancillary": [C.AuxiliaryCoordinate] + ([C.DimensionCoordinate] if getattr(x, "has_data", lambda: False)() and x.ndim == 1 else []),
               "field_ancillary": [C.AuxiliaryCoordinate, C.DomainAncillary]}.get(ct)
        if not fam:
            raise Skip
        return rng.choice(fam)(source=x), info

    # ---- field-level structure
    if kind.startswith(("axes", "dataaxes", "cm:", "ref:", "construct:", "axis:")) and not is_fd:
        raise Skip
    if kind == "axes":
        # only inside a field whose data span the axes involved: otherwise the change may be a mere
        # relabelling of interchangeable axes (an isomorphic domain, which is rightly equal)
        if not isinstance(x, C.Field) or not x.has_data():
            raise Skip
        fda = set(x.get_data_axes())
        y = x.copy()
        da = y.constructs.data_axes()
        sizes = {k: a.get_size() for k, a in y.domain_axes(todict=True).items()}
        cands = []
        for k, c in y.constructs.filter_by_data(todict=True).items():
            axes = da[k]
            if len(axes) == 2 and sizes[axes[0]] == sizes[axes[1]]:
                cands.append((k, (axes[1], axes[0])))
            if len(axes) == 2:
                # replace one of the two axes by a third axis of the same size
                for pos in (0, 1):
                    for k2, s in sizes.items():
                        if k2 not in axes and s == sizes[axes[pos]]:
                            new = list(axes)
                            new[pos] = k2
                            cands.append((k, tuple(new)))
            if len(axes) == 1:
                for k2, s in sizes.items():
                    if k2 != axes[0] and s == sizes[axes[0]] and c.construct_type != "dimension_coordinate":
                        cands.append((k, (k2,)))
        cands = [(k, new) for k, new in cands if set(new) <= fda and set(da[k]) <= fda]
        if not cands:
            raise Skip
        k, new = rng.choice(cands)
        y.set_data_axes(new, key=k)
        info.update(key=k)
        return y, info
    if kind == "dataaxes":
        if not isinstance(x, C.Field) or not x.has_data():
            raise Skip
        y = x.copy()
        axes = list(y.get_data_axes())
        sizes = {k: a.get_size() for k, a in y.domain_axes(todict=True).items()}
        cands = []
        for i, j in itertools.combinations(range(len(axes)), 2):
            if sizes[axes[i]] == sizes[axes[j]]:
                cands.append((i, j))
        if not cands:
            raise Skip
        i, j = rng.choice(cands)
        axes[i], axes[j] = axes[j], axes[i]
        y.set_data_axes(axes)
        return y, info
    if kind.startswith("cm:"):
        if not isinstance(x, C.Field):
            raise Skip
        how = kind[3:]
        y = x.copy()
        cms = y.cell_methods(todict=True)
        if how == "add":
            ax = rng.choice(sorted(y.domain_axes(todict=True)))
            y.set_construct(C.CellMethod(axes=[ax], method="variance"))
            return y, info
        if not cms:
            raise Skip
        k = rng.choice(sorted(cms))
        m = cms[k]
        if how == "remove":
            y.del_construct(k)
        elif how == "method":
            m.set_method("median" if m.get_method(None) != "median" else "mode")
        elif how == "qualifier":
            if m.has_qualifier("where") and rng.random() < 0.5:
                m.del_qualifier("where")
            else:
                m.set_qualifier("where", "ice" if m.get_qualifier("where", None) != "ice" else "sea")
        elif how == "interval":
            iv = m.get_qualifier("interval", None)
            if iv and rng.random() < 0.6:
                d = iv[0]
                new = C.Data(far_value(float(d.array)), units=d.get_units(None))
                m.set_qualifier("interval", [new] + list(iv[1:]))
            elif iv:
                m.del_qualifier("interval")
            else:
                m.set_qualifier("interval", [C.Data(3.0, units="m")])
        elif how == "axes":
            axes = list(m.get_axes(()))
            others = [a for a in y.domain_axes(todict=True) if a not in axes]
            if not others or not axes:
                raise Skip
            axes[rng.randrange(len(axes))] = rng.choice(sorted(others))
            m.set_axes(axes)
        elif how == "order":
            ks = list(cms)
            if len(ks) < 2:
                raise Skip
            i = rng.randrange(len(ks) - 1)
            a, b = cms[ks[i]], cms[ks[i + 1]]
            if a.equals(b) and a.get_axes(()) == b.get_axes(()):
                raise Skip
            ca, cb = a.copy(), b.copy()
            y.set_construct(cb, key=ks[i])
            y.set_construct(ca, key=ks[i + 1])
        else:
            raise fw.HarnessError(kind)
        return y, info
    if kind.startswith("ref:"):
        how = kind[4:]
        y = x.copy()
        refs = y.coordinate_references(todict=True)
        if not refs:
            raise Skip
        k = rng.choice(sorted(refs))
        r = refs[k]
        if how == "remove":
            y.del_construct(k)
        elif how in ("param", "datum"):
            comp = r.coordinate_conversion if how == "param" else r.datum
            ps = comp.parameters()
            if ps and rng.random() < 0.7:
                t = rng.choice(sorted(ps))
                v = ps[t]
                if isinstance(v, str):
                    comp.set_parameter(t, v + "_x")
                elif v is None:
                    comp.set_parameter(t, 1.0)
                else:
                    comp.set_parameter(t, far_value(float(v)))
            else:
                comp.set_parameter("extra_term", 5.0)
        elif how == "coords:remove":
            cs = sorted(r.coordinates())
            if not cs:
                raise Skip
            r.del_coordinate(rng.choice(cs))
        elif how == "coords:replace":
            cs = sorted(r.coordinates())
            allc = sorted(y.constructs.filter_by_type("dimension_coordinate", "auxiliary_coordinate", todict=True))
            others = [c for c in allc if c not in cs]
            if not cs or not others:
                raise Skip
            r.del_coordinate(rng.choice(cs))
            r.set_coordinate(rng.choice(others))
        elif how == "ancillary":
            da = r.coordinate_conversion.domain_ancillaries()
            anc = sorted(y.constructs.filter_by_type("domain_ancillary", todict=True))
            if da and rng.random() < 0.7:
                t = rng.choice(sorted(da))
                others = [a for a in anc if a != da[t]]
                if da[t] is not None and (not others or rng.random() < 0.4):
                    r.coordinate_conversion.set_domain_ancillary(t, None)
                elif others:
                    r.coordinate_conversion.set_domain_ancillary(t, rng.choice(others))
                else:
                    raise Skip
            elif anc:
                r.coordinate_conversion.set_domain_ancillary("zterm", rng.choice(anc))
            else:
                r.coordinate_conversion.set_domain_ancillary("zterm", None)
        else:
            raise fw.HarnessError(kind)
        return y, info
    if kind == "construct:remove":
        y = x.copy()
        cs = sorted(y.constructs.filter_by_data(todict=True))
        if not cs:
            raise Skip
        k = rng.choice(cs)
        for rk, r in y.coordinate_references(todict=True).items():
            r.del_coordinate(k, None)
            for t, v in r.coordinate_conversion.domain_ancillaries().items():
                if v == k:
                    r.coordinate_conversion.set_domain_ancillary(t, None)
        info.update(role=y.constructs[k].construct_type, refs_touched=any(
            k in r.coordinates() or k in r.coordinate_conversion.domain_ancillaries().values()
            for r in x.coordinate_references(todict=True).values()))
        y.del_construct(k)
        return y, info
    if kind == "construct:add":
        y = x.copy()
        axes = y.domain_axes(todict=True)
        k = rng.choice(sorted(axes))
        n = axes[k].get_size()
        cls = rng.choice([C.AuxiliaryCoordinate, C.DomainAncillary, C.CellMeasure] + ([C.FieldAncillary] if isinstance(y, C.Field) else []))
        c = cls(properties={"long_name": "added"}, data=C.Data(np.arange(float(n)) + 50))
        y.set_construct(c, axes=[k])
        info.update(role=c.construct_type)
        return y, info
    if kind == "axis:add":
        y = x.copy()
        y.set_construct(C.DomainAxis(rng.choice([1, 2, 5])))
        return y, info
    if kind == "axis:sizeless":
        y = x.copy()
        y.set_construct(C.DomainAxis())
        return y, info

    # ---- standalone non-array classes
    if kind.startswith("sa:"):
        how = kind[3:]
        y = x.copy()
        if isinstance(x, C.CellMethod):
            if how == "method":
                y.set_method("median" if x.get_method(None) != "median" else "mode")
            elif how == "qualifier":
                y.set_qualifier("where", "ice" if x.get_qualifier("where", None) != "ice" else "sea")
            elif how == "interval":
                iv = x.get_qualifier("interval", None)
                if iv:
                    y.set_qualifier("interval", [C.Data(far_value(float(iv[0].array)), units=iv[0].get_units(None))] + list(iv[1:]))
                else:
                    y.set_qualifier("interval", [C.Data(3.0, units="m")])
            elif how == "axes":
                y.set_axes(["zz_axis"])
                info["documented_blind"] = True
            else:
                raise Skip
        elif isinstance(x, C.CoordinateReference):
            if how in ("param", "datum"):
                comp = y.coordinate_conversion if how == "param" else y.datum
                comp.set_parameter("extra_term", 5.0)
            elif how == "coords:replace":
                cs = sorted(x.coordinates())
                if not cs:
                    raise Skip
                y.del_coordinate(cs[0])
                y.set_coordinate("zz_coordinate")
                info["documented_blind"] = True
            elif how == "coords:remove":
                cs = sorted(x.coordinates())
                if not cs:
                    raise Skip
                y.del_coordinate(cs[0])
            elif how == "ancillary":
                y.coordinate_conversion.set_domain_ancillary("zterm", "zz_key")
            else:
                raise Skip
        elif isinstance(x, (C.Datum, C.CoordinateConversion)):
            if how == "param":
                ps = x.parameters()
                if ps and rng.random() < 0.6:
                    t = rng.choice(sorted(ps))
                    v = ps[t]
                    y.set_parameter(t, v + "_x" if isinstance(v, str) else (1.0 if v is None else far_value(float(v))))
                else:
                    y.set_parameter("extra_term", 5.0)
            else:
                raise Skip
        elif isinstance(x, C.DomainAxis):
            if how == "size":
                y.set_size((x.get_size(0) or 0) + 1)
            elif how == "sizeless":
                if not x.has_size():
                    raise Skip
                y.del_size()
            else:
                raise Skip
        else:
            raise Skip
        return y, info

    if kind == "compress":
        f = ctx["field"]
        if not isinstance(f, C.Field) or not (x is f or (isinstance(x, C.Data) and ctx["sel"] == ("data", None))):
            raise Skip
        if f.data.get_compression_type():
            raise Skip
        try:
            g = f.compress(rng.choice(["contiguous", "indexed", "indexed_contiguous"]))
        except Exception:
            raise Skip
        if not g.data.get_compression_type() or ctx["base"][0] != "ex" or ctx["base"][1] not in (3, 4):
            raise Skip  # only the DSG example fields: compress() is not meaning-preserving elsewhere

        def same_array(p, q):
            p, q = np.ma.asanyarray(p), np.ma.asanyarray(q)
            return p.shape == q.shape and p.dtype == q.dtype and bool((np.ma.getmaskarray(p) == np.ma.getmaskarray(q)).all()) \
                and bool(np.ma.allequal(p, q))

        # the uncompressed view must be unchanged (numpy-only check), else this is not a pure change of compression
        if not same_array(f.array, g.array) or any(
                c.has_data() and not same_array(c.array, g.constructs[k].array)
                for k, c in f.constructs.filter_by_data(todict=True).items()):
            raise Skip
        return (g if x is f else g.data), info

    if kind.startswith("other:"):
        what = kind[6:]
        if what == "int":
            return 3, info
        if what == "str":
            return "not a construct", info
        if what == "none":
            return None, info
        if what == "ndarray":
            return np.arange(3.0), info
        f = ctx["field"]
        pool = {
            "field": lambda: example(0), "domain": lambda: example(0).domain,
            "data": lambda: C.Data(np.arange(4.0)), "cm": lambda: C.CellMethod(axes=["area"], method="mean"),
            "ref": lambda: C.CoordinateReference(coordinates=["x"]), "axis": lambda: C.DomainAxis(3),
            "dim": lambda: example(0).dimension_coordinate("latitude"), "bounds": lambda: example(0).dimension_coordinate("latitude").bounds,
            "aux2d": lambda: example(1).auxiliary_coordinate("latitude"), "measure": lambda: example(1).cell_measure(),
            "fanc": lambda: example(1).field_ancillary(), "datum": lambda: C.Datum(parameters={"earth_radius": 1.0}),
        }
        y = pool[what]()
        if type(y) is type(x):
            raise Skip
        return y, info
    if kind == "unrelated":
        # another object of the same class that differs in a way no option can hide
        base = ctx["base"]
        if base[0] not in ("ex", "exdom"):
            raise Skip
        f = ctx["field"]
        if is_fd:
            n2 = (base[1] + 1 + rng.randrange(7)) % 8
            g = example(n2)
            y = g if isinstance(x, C.Field) else g.domain
            if x.shape == y.shape if isinstance(x, C.Field) else False:
                raise Skip
            return y, info
        if isinstance(x, C.Data):
            others = [select(f, sl) for sl in selectors(f, rng) if sl[0] == "data"]
            others = [d for d in others if d.shape != x.shape]
        else:
            others = [c for c in f.constructs.todict().values() if type(c) is type(x) and c is not x]
            if getattr(x, "construct_type", None) in ROLE:
                others = [c for c in others if c.get_property("standard_name", c.get_property("long_name", None)) !=
                          x.get_property("standard_name", x.get_property("long_name", None)) or c.shape != x.shape]
            elif isinstance(x, C.CellMethod):
                others = [c for c in others if c.get_method(None) != x.get_method(None)]
            elif isinstance(x, C.CoordinateReference):
                others = [c for c in others if set(c.coordinate_conversion.parameters()) != set(x.coordinate_conversion.parameters())]
            elif isinstance(x, C.DomainAxis):
                others = [c for c in others if c.get_size(None) != x.get_size(None)]
            else:
                others = []
        if not others:
            raise Skip
        return rng.choice(others).copy(), info
    raise fw.HarnessError("unknown kind " + kind)


def ignored_at(where, e, x):
    """Property names that `equals` must ignore at nesting level `where` of x."""
    C = cfdm()
    s = set()
    if e["ifv"]:
        s |= {"_FillValue", "missing_value"}
    if where == "top":
        s |= ip_names(e["ip"])
        if isinstance(x, (C.Field, C.Domain)):
            s.add("Conventions")
    return s


def expected(kind, info, e, x, y):
    """The verdict the property demands, by construction of y: 'True', 'False' or 'noraise'."""
    if kind in ("same", "copy", "subspace", "rename", "reorder", "rename+reorder", "ncnames"):
        return "True"
    if kind.startswith("prop"):
        # a construct's data take their fill value from the missing_value/_FillValue property:
        # that derived difference is named by ignore_fill_value only
        if info["fill_changed"] and not e["ifv"]:
            return "False"
        return "True" if info["pname"] in ignored_at(info["where"], e, x) else "False"
    head = kind.split(":")[0]
    if head == "within":
        at, rt = tol_fracs(e)
        ok = all(abs(Fraction(u) - Fraction(v)) <= at + rt * abs(Fraction(v)) for u, v in info["moved"])
        return "True" if ok else "False"
    if head == "dtype":
        return "True" if e["idt"] else "False"
    if head == "fill":
        return "True" if e["ifv"] else "False"
    if kind == "compress":
        return "True" if e["ic"] else "False"
    if kind == "retype":
        return "True" if e["it"] else "False"
    if info.get("documented_blind"):
        return "True"
    if kind.startswith("other:"):
        return "noraise" if e["it"] else "False"
    return "False"


# kinds and where they apply
KINDS_ANY = ["same", "copy", "copy", "ncnames", "unrelated", "unrelated", "compress", "other:int", "other:str", "other:none", "other:ndarray", "other:field", "other:domain",
             "other:data", "other:cm", "other:ref", "other:axis", "other:dim", "other:bounds", "other:aux2d", "other:measure",
             "other:fanc", "other:datum"]
KINDS_PD = ["prop:top", "prop:top", "prop:top", "datum:top", "datum:top", "within:top", "within:top", "within:top", "mask:top", "dtype:top", "dtype:top", "shape:top",
            "fill:top", "fill:top", "units:top", "calendar:top", "data:remove",
            "prop:bounds", "datum:bounds", "mask:bounds", "dtype:bounds", "fill:bounds", "units:bounds", "within:bounds",
            "bounds:remove", "bounds:add", "geometry", "ring:datum", "ring:remove", "measure", "external", "retype", "retype"]
KINDS_FD = ["subspace", "rename", "rename", "reorder", "reorder", "rename+reorder", "rename+reorder",
            "prop:con", "prop:con", "prop:conbounds", "datum:con", "datum:con", "within:con", "within:con", "within:con", "mask:con", "dtype:con", "fill:con", "units:con",
            "datum:conbounds", "mask:conbounds", "dtype:conbounds", "fill:conbounds",
            "axes", "axes", "dataaxes", "cm:method", "cm:qualifier", "cm:interval", "cm:axes", "cm:remove", "cm:add", "cm:order",
            "ref:param", "ref:datum", "ref:coords:remove", "ref:coords:replace", "ref:ancillary", "ref:remove",
            "construct:remove", "construct:remove", "construct:add", "construct:add", "axis:add", "axis:sizeless"]
KINDS_SA = ["sa:method", "sa:qualifier", "sa:interval", "sa:axes", "sa:param", "sa:datum", "sa:coords:replace", "sa:coords:remove",
            "sa:ancillary", "sa:size", "sa:sizeless"]


def kinds_for(x):
    C = cfdm()
    fam = family(x)
    if isinstance(x, (C.Field, C.Domain)):
        return KINDS_ANY + KINDS_PD[:15] + KINDS_FD + KINDS_FD
    if fam == "pd":
        return KINDS_ANY + KINDS_PD + KINDS_PD
    if fam == "data":
        return KINDS_ANY + ["datum:top", "within:top", "mask:top", "dtype:top", "shape:top", "fill:top", "units:top", "calendar:top"] * 3
    return KINDS_ANY + KINDS_SA * 3


# =========================================================================
# cases
# =========================================================================
_live = {}


def gen(rng, tier, n):
    C = cfdm()
    made = 0
    attempts = 0
    while made < n and attempts < 20 * n + 100:
        attempts += 1
        r = rng.random()
        if r < 0.35:
            base = ["ex", rng.choice([0, 1, 1, 1, 2, 3, 4, 6, 6, 7, 7] + ([5] if tier == "thorough" else []))]
        elif r < 0.42:
            base = ["exdom", rng.choice([0, 1, 1, 3, 6, 7])]
        elif r < 0.9:
            base = ["rand", rng.randrange(1 << 30)]
        else:
            base = ["randdom", rng.randrange(1 << 30)]
        bare = rng.random() < 0.04
        if bare:
            base = ["bare", rng.randrange(1 << 30)]
        f = base_field(base)
        sels = selectors(f, rng)
        sel = ["self"] if (bare or rng.random() < 0.5) else list(rng.choice(sels))
        x = select(f, sel)
        kind = rng.choice(["axes", "axes", "axes", "dataaxes", "rename+reorder", "copy"]) if bare else rng.choice(kinds_for(x))
        pname = rng.choice(PERTURB_PROP_NAMES) if kind.startswith("prop") else None
        opts = gen_opts(rng, pname)
        if kind.startswith("prop") and pname and rng.random() < 0.35:
            # "each ignore option removes exactly its own class": name the touched property in every
            # accepted form of ignore_properties, alone and together with ignore_fill_value
            opts["ip"] = rng.choice([["s", pname], ["s", pname], ["t", [pname]], ["l", [pname]], ["t", ["zzz", pname]]])
            opts["ifv"] = rng.random() < 0.5
        if kind.startswith("within") and rng.random() < 0.5:
            # explicit tolerances, zero included, are what "within tolerance" is about
            opts["rtol"] = rng.choice([0.0, 0.0, 2.0 ** -10])
            opts["atol"] = rng.choice([0.0, 0.0, 0.5])
        p = dict(base=base, sel=sel, kind=kind, pname=pname, opts=opts, tseed=rng.randrange(1 << 30), swap=rng.random() < 0.3)
        c = mk_case(p)
        if c is None:
            continue
        made += 1
        yield c


def build_pair(p):
    f = base_field(p["base"])
    x = select(f, tuple(p["sel"]))
    trng = fw.rng_for(p["tseed"], "C05t")
    y, info = transform(x, p["kind"], trng, dict(field=f, pname=p.get("pname"), base=p["base"], sel=tuple(p["sel"])))
    return x, y, info


def mk_case(p):
    try:
        x, y, info = build_pair(p)
    except Skip:
        return None
    kind = p["kind"]
    swap = bool(p.get("swap")) and hasattr(y, "equals") and kind != "same"
    a, b = (y, x) if swap else (x, y)
    e = effective(a, p["opts"])
    # 'within' tolerance statements are directional: keep x on the left
    if swap and kind.startswith("within"):
        return None
    exp = expected(kind, info, effective(x, p["opts"]) if not swap else e, x, y)
    if swap and kind == "retype":
        # converting x's class to y's class must also preserve the content
        exp = "True" if e["it"] else "False"
    line = None
    try:
        ab = Ab()
        tx = ab.obj(a)
        ty = ab.obj(b)
        at, rt = tol_fracs(e)
        k = scale_of(ab.fracs)
        ot = opts_tree(ab, e, k)
        line = f"C05.eq o={render(ot, k)} x={render(tx, k)} y={render(ty, k)} same={1 if kind == 'same' else 0}"
    except Unrepresentable:
        line = None
    tags = ["kind:" + kind, "x:" + type(a).__name__, "expect:" + exp]
    if swap:
        tags.append("swapped")
    for name, key in (("idt", "idt"), ("ifv", "ifv"), ("it", "it")):
        if e[key]:
            tags.append("opt:" + name)
    if not e["ic"]:
        tags.append("opt:ic=False")
    if e["ip"] is not None:
        tags.append("opt:ip=" + e["ip"][0])
    if e["rtol"] is not None or e["atol"] is not None:
        tags.append("opt:tol")
    if p["opts"]["verbose"] is not None:
        tags.append("opt:verbose")
    if line is None:
        tags.append("oracle-only")
    key = repr((p["base"], p["sel"], kind, p.get("pname"), sorted(p["opts"].items(), key=str), p["tseed"], swap))
    c = Case("C05.eq", p, line, key=key, nontrivial=kind != "same", tags=tags)
    _live[id(c)] = (a, b, exp, info)
    return c


def from_payload(stream, payload):
    c = mk_case(payload)
    if c is None:
        raise fw.HarnessError("payload does not build a case")
    return c


# =========================================================================
# implementation, agreement, oracle
# =========================================================================
def show(r):
    if r is True:
        return "True"
    if r is False:
        return "False"
    return "nonbool:" + type(r).__name__


def impl(c):
    live = _live.pop(id(c), None)
    if live is None:
        cc = mk_case(c.payload)
        live = _live.pop(id(cc))
        c.line = cc.line
    a, b, exp, info = live
    kw = kwargs_for(a, c.payload["opts"])
    c.extra = exp
    try:
        r = a.equals(b, **kw)
    except Exception as ex:
        return "raised:" + fw.exc_enum(ex)
    return show(r)


def agree(c):
    if c.model_out == "unmodelled":
        return True
    return c.impl_out == c.model_out


def oracle(c):
    exp = c.extra
    if exp is None:
        return "expected verdict missing"
    if exp == "noraise":
        if c.impl_out in ("True", "False"):
            return None
        return f"equals must answer True/False, got {c.impl_out}"
    if c.impl_out != exp:
        return f"expected {exp} by construction ({c.payload['kind']}), got {c.impl_out}"
    return None


# =========================================================================
# findings
# =========================================================================
def _fingerprint(c):
    """Key-free content of a metadata construct."""
    return Ab().construct(c)


def _structure(f):
    """Facts about a field the signatures are stated in."""
    C = cfdm()
    da = f.constructs.data_axes()
    cons = f.constructs.filter_by_data(todict=True)
    groups = {}
    for k, c in cons.items():
        groups.setdefault(da[k], []).append(k)
    try:
        fp = {k: _fingerprint(c) for k, c in cons.items()}
    except Unrepresentable:
        fp = {k: repr(c) for k, c in cons.items()}
    gfp = {ax: sorted((cons[k].construct_type, repr(fp[k])) for k in ks) for ax, ks in groups.items()}
    ambiguous_groups = any(len(a) == len(b) and gfp[a] == gfp[b] for a, b in itertools.combinations(groups, 2))
    ambiguous_constructs = any(
        cons[a].construct_type == cons[b].construct_type and fp[a] == fp[b]
        for ks in groups.values() for a, b in itertools.combinations(ks, 2))
    spanned = set(a for ax in groups for a in ax)
    axes = set(f.domain_axes(todict=True))
    cms = list(f.cell_methods(todict=True).values()) if isinstance(f, C.Field) else []
    cm_unspanned_key = any(a in axes and a not in spanned for m in cms for a in m.get_axes(()))
    cm_mixed = any(
        any(a not in spanned and any(b in spanned for b in m.get_axes(())[i + 2:]) for i, a in enumerate(m.get_axes(())))
        for m in cms)
    return dict(ambiguous=ambiguous_groups or ambiguous_constructs, cm_unspanned_key=cm_unspanned_key, cm_mixed=cm_mixed,
                roles=set(c.construct_type for c in cons.values()), sizeless=any(a.get_size(None) is None for a in f.domain_axes(todict=True).values()))


def _domain_isomorphic(x, y):
    """Exact test (all size-preserving bijections of the domain axes, no use of cfdm.equals): do the
    metadata constructs of x and y agree, with their axes, under some renaming of the domain axes?"""
    from harness import fingerprint as fp
    ax = {k: a.get_size(None) for k, a in x.domain_axes(todict=True).items()}
    ay = {k: a.get_size(None) for k, a in y.domain_axes(todict=True).items()}
    if sorted(map(str, ax.values())) != sorted(map(str, ay.values())) or len(ax) > 6:
        return False

    def cons(f):
        da = f.constructs.data_axes()
        out = []
        for t_ in ("dimension_coordinate", "auxiliary_coordinate", "cell_measure", "field_ancillary", "domain_ancillary",
                   "domain_topology", "cell_connectivity"):
            for k, c_ in f.constructs.filter_by_type(t_, todict=True).items():
                out.append((json.dumps(fp.fp_construct(c_, names=False), sort_keys=True, default=str), tuple(da.get(k, ()))))
        return out

    cx, cy = cons(x), cons(y)
    if len(cx) != len(cy):
        return False
    kx, ky = list(ax), list(ay)
    target = sorted(cy)
    for perm in itertools.permutations(ky):
        m = dict(zip(kx, perm))
        if any(ax[a] != ay[m[a]] for a in kx):
            continue
        if sorted((s, tuple(m[a] for a in axes)) for s, axes in cx) == target:
            return True
    return False


def classify(c):
    """Signature of a known defect, or a coarse label that merely groups unlisted failures
    (such a label is in no known_findings entry, so it is still reported as a VIOLATION)."""
    sig = _classify(c)
    if sig:
        return sig
    exp = c.extra if isinstance(c.extra, str) and len(c.extra) < 10 else "?"
    return f"unlisted:{c.payload['kind']}:got-{c.impl_out}:expected-{exp}"


def _classify(c):
    C = cfdm()
    p = c.payload
    o = p["opts"]
    kind = p["kind"]
    out = str(c.impl_out)
    exp = c.extra if isinstance(c.extra, str) and len(c.extra) < 10 else None
    if out == "raised:TypeError" and o["ifv"]:
        return "ignore_fill_value-concatenated-to-None-or-str-ignore_properties"
    if out == "raised:TypeError" and kind in ("cm:remove", "cm:add"):
        return "different-numbers-of-cell-methods-logger-not-callable"
    if out.startswith("raised:") and o["it"] and kind.startswith("other:"):
        return "ignore_type-conversion-of-incompatible-object-raises"
    if out == "raised:AttributeError" and o["it"] and kind == "retype":
        return "ignore_type-unconverted-other-used-after-conversion"
    try:
        x, y, info = build_pair(p)
    except Exception:
        return None
    if not isinstance(x, (C.Field, C.Domain)):
        return None
    sx = _structure(x)
    sy = _structure(y) if isinstance(y, (C.Field, C.Domain)) else None
    if out == "raised:ValueError" and sy and (sx["sizeless"] or sy["sizeless"]):
        return "domain-axis-without-size-get_size-raises"
    if kind in ("rename", "reorder", "rename+reorder"):
        if sx["ambiguous"]:
            return "identical-constructs-on-two-axes-or-keys-matched-greedily-without-backtracking"
        if "rename" in kind and sx["cm_unspanned_key"] and out == "False":
            return "cell-method-axis-without-data-constructs-compared-by-key"
    if exp == "True" and sx["cm_mixed"] and out == "False":
        return "cell-method-axes-unmatched-axis-two-places-before-matched-axis"
    if kind == "axes" and out in ("raised:ValueError", "raised:KeyError"):
        return "ambiguous-axis-mapping-message-raises"
    if kind == "dataaxes" and out == "True":
        return "field-data-axes-not-compared"
    if kind == "axes" and out == "True" and sy and _domain_isomorphic(x, y):
        # moving a construct between interchangeable axes gives an isomorphic DOMAIN; only the field's
        # data axes tell the two apart, and those are what the known finding says are never compared
        return "field-data-axes-not-compared"
    if kind in ("construct:add", "construct:remove") and out == "True" and sy:
        role = info.get("role")
        if role and (role not in sx["roles"] or role not in sy["roles"]):
            return "construct-of-a-type-the-other-lacks-break-then-not-constructs1"
    return None
