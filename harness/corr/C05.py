"""C05 — equality testing is total, reflexive, order-blind and discriminating.

Two streams.  C05.leaf (harness/corr/c05leaf.py): pairs of numpy arrays through the leaf comparison
Container._equals, reached by Data.equals / a property value / a parameter value, against the Lean model of
that code (np.allclose and np.ma.allclose spelled out) and a declarative oracle.

C05.eq: a pair (x, y) and an option set.  y is built from x by a known
transformation (the same object, a copy, a rebuild under other construct keys / in
another insertion order, other netCDF names, one single-component perturbation, an
unrelated object, another type), so the expected verdict is known by construction
(the oracle).  The harness abstracts x and y through public accessors into the
model's records; the Lean model (the repaired code) computes the verdict from those.
Observable: True / False / raised:<Exception>.
"""
import itertools
import json
import os
from fractions import Fraction

import numpy as np

from .. import fw
from ..fw import Case
from . import c05leaf

REQUIRED = [
    "C05_greedy_complete",
    "C05_greedy_sound",
    "C05_order_blind_arrays",
    "C05_matching_discriminates",
    "C05_domain_axes_sizes",
    "C05_construct_spec",
    "C05_refl_construct",
    "C05_refl_others",
    "C05_symm_construct",
    "C05_names_blind",
    "C05_names_blind_field",
    "C05_discriminating_construct",
    "C05_discriminating_array",
    "C05_ignore_exact",
    "C05_total_partial",
    "C05_total_counterexample",
    "C05_refl_field_partial",
    "C05_refl_field_counterexample",
    "C05_key_blind_partial",
    "C05_key_blind_counterexample_unspanned_axis",
    "C05_order_blind_counterexample_ambiguous",
    "C05_field_sound",
    "C05_discriminating_field_partial",
    "C05_field_data_axes_counterexample",
    "C05_old_code_counterexamples",
    "C05_leaf_spec",
    "C05_leaf_discriminating",
    "C05_leaf_hidden_values_irrelevant",
    "C05_leaf_refl_iff_no_nan",
    "C05_leaf_nan_counterexample",
    "C05_leaf_symm",
    "C05_arr_is_leaf",
    "C05_data_leaf_spec",
    "C05_symm_others",
    "C05_refl_components",
    "C05_component_spec",
    "C05_ignore_qualifiers_exact",
    "C05_topology_cell_counterexample",
]
BUDGET = {"quick": 4000, "thorough": 80000}
QUICK_JOBS = 8
RULE = (
    "stream C05.eq - pairs (x, y): x from cfdm.example_field(0-11), their domains, DSG example fields compressed by convention, randomly "
    "built fields/domains (1-3 axes of size 1-4, dimension/auxiliary coordinates, cell measures, domain/field ancillaries, cell methods, "
    "coordinate references; equal axis sizes and deliberately ambiguous axes included), the GRID field (one construct of every type that "
    "carries data - dimension / auxiliary / 2-d auxiliary / geometry coordinate with interior ring, domain ancillary, cell measure, field "
    "ancillary, domain topology, cell connectivity - each with data of a drawn kind int / float / bool / str U / bytes S / reference time / "
    "object, masked elements, bounds; about every third construct without standard_name / long_name / cf_role / axis so that identity() falls "
    "back to ncvar%), and every metadata construct, Data, Bounds, InteriorRing, Count, Index, List, NodeCountProperties, "
    "PartNodeCountProperties, CellMethod, CoordinateReference, Datum, CoordinateConversion, DomainAxis inside or beside them; y in {x, copy, "
    "complete subspace, rebuilt under renamed keys, rebuilt in another insertion order, other netCDF names (all components, or the variable "
    "name of ONE component set / changed / removed), one perturbation of: property, datum (beyond / within tolerance), mask element, the "
    "value hidden under a masked element (verdict True), shape, data type, fill value, units, calendar (changed or removed), bounds "
    "(datum/removed/property), geometry type, interior ring, measure / cell type / connectivity type, axes spanned, field data axes, cell "
    "method (method/qualifier/interval value or count/axes/removed/added/order), coordinate reference (parameter/datum/coordinate "
    "set/domain ancillary/removed), construct removed/added, domain axis added, compression; an unrelated object; an object of another type; "
    "same content under another class}; in the grid family (perturbation family x data kind x level) is drawn uniformly with level in "
    "{Data, construct, bounds of a construct, Bounds object, interior ring of a construct, InteriorRing object, field data, construct / "
    "bounds / interior ring inside a Field, the same inside a Domain}; x options {ignore_data_type, ignore_fill_value, ignore_properties "
    "None/str/tuple/list/empty, ignore_compression, ignore_type, ignore_qualifiers (CellMethod), rtol/atol None/0/dyadic, verbose "
    "None/0/1/3/-1/'INFO'}, both directions. stream C05.leaf - pairs of numpy arrays (float64/float32/int64/int32/uint8/bool/U/S/object, "
    "NaN and +-inf, integers beyond 2**53; shapes () to 3-d, empty; plain ndarray / MaskedArray with nomask / with a mask array) compared "
    "through Data.equals, through a property value of a Bounds (array- or Data-valued) and through a parameter of a Datum; y = copy, other "
    "masked-array form, value changed under the mask, one mask bit flipped, one value changed far / within tolerance / by one ulp, NaN on "
    "one side / both sides, infinity of the other sign / against a finite value, reshaped, shortened, value-preserving change of data type, "
    "other kind, unrelated array; fill value / units / calendar changed. non-trivial = y is not x itself; distinct = distinct (x, "
    "transformation, options)"
)
ASSUMPTIONS = [
    "C05.eq: array values are finite (NaN/inf are exercised in C05.leaf); numbers are carried exactly as dyadic rationals, strings and objects only by identity",
    "tolerances come from a dyadic grid with rtol <= 1/2, so that float evaluation of |x-y| <= atol + rtol*|y| is exact on the generated values",
    "ignore_type=True between objects of different cfdm families (e.g. a coordinate against a Field) is outside the model: the oracle alone demands 'no exception'",
    "cell methods inside fields carry 0, 1 or len(axes) intervals (CF); domain axes inside the modelled fields have a size",
    "the `self is other` shortcut is modelled by a flag; object identity plays no other role",
    "a construct's Data take units, calendar and fill value from the construct's own properties (get_data), so these are perturbed on standalone Data only; a changed _FillValue/missing_value property also changes the derived data fill value, which only ignore_fill_value (not ignore_properties) is expected to hide",
    "netCDF variable/dimension names and the external-variable status are not data-model components: changing them must not change the verdict; neither is the datum stored under a masked element",
    "C05.leaf oracle: NaN in the same unmasked position of both arrays counts as the same datum (a construct equals its copy); numpy's convention (nan != nan) makes cfdm answer False there - open finding, kept a small fraction of the cases",
    "object arrays hold strings and None only (a number inside an object array compares by Python == with numbers of other dtypes, which the model does not cover)",
]

_cfdm = None


def cfdm():
    global _cfdm
    if _cfdm is None:
        import logging
        import cfdm as m
        _cfdm = m
        # equals(verbose=...) logs through the root handler: keep the run quiet
        null = open(os.devnull, "w")
        for h in logging.getLogger().handlers:
            try:
                h.setStream(null)
            except Exception:
                pass
    return _cfdm


class Unrepresentable(Exception):
    pass


# =========================================================================
# abstraction of live objects into the model's records (public accessors only)
# =========================================================================
ROLE = {"dimension_coordinate": 0, "auxiliary_coordinate": 1, "domain_ancillary": 2, "field_ancillary": 3,
        "cell_measure": 4, "domain_topology": 5, "cell_connectivity": 6}
ROLE_NAMES = list(ROLE)


class Ab:
    """Interning context shared by x and y of one case."""

    def __init__(self):
        self.names = {"_FillValue": 0, "missing_value": 1, "Conventions": 2}
        self.dtypes = {}
        self.svals = {}
        self.ovals = {}
        self.fracs = []

    def name(self, s):
        if s is None:
            return None
        s = str(s)
        if s not in self.names:
            self.names[s] = len(self.names)
        return self.names[s]

    def num(self, v):
        if isinstance(v, (bool, np.bool_)):
            v = int(v)
        try:
            if isinstance(v, (int, np.integer)):
                fr = Fraction(int(v))
            else:
                fr = Fraction(float(v))
        except (ValueError, OverflowError, TypeError):
            raise Unrepresentable(repr(v))
        self.fracs.append(fr)
        return ("n", fr)

    def sval(self, v):
        k = (type(v).__name__, v if isinstance(v, (str, bytes, type(None))) else repr(v))
        if isinstance(v, np.str_):
            k = ("str", str(v))
        if k not in self.svals:
            self.svals[k] = len(self.svals)
        return -(10 ** 30) - self.svals[k]

    def oval(self, v):
        """An element of an object array.  `_equals` gives object arrays no exemption from the data type
        test (unlike strings) and compares them exactly after np.allclose's TypeError: in the model they are
        'numbers' so far apart (factor 4, tolerances have rtol <= 1/2) that close means identical."""
        k = (type(v).__name__, v if isinstance(v, (str, bytes, type(None))) else repr(v))
        if k not in self.ovals:
            self.ovals[k] = len(self.ovals)
        return ("n", Fraction(-(10 ** 30) * 4 ** (self.ovals[k] + 1)))

    def dtype(self, dt):
        s = str(dt)
        if s not in self.dtypes:
            self.dtypes[s] = len(self.dtypes)
        return self.dtypes[s]

    # ---- pieces
    def arr(self, a):
        if not np.ma.isMA(a):
            a = np.asanyarray(a)
        kind = a.dtype.kind
        if kind not in "biufSUO":
            raise Unrepresentable(str(a.dtype))
        isstr = kind in "SU"
        mask = np.ma.getmaskarray(a).ravel()
        data = np.ma.getdata(a).ravel()
        vals = []
        for m, v in zip(mask.tolist(), data.tolist() if kind != "O" else list(data)):
            if m:
                vals.append("--")
            elif isstr:
                vals.append(self.sval(v))
            elif kind == "O":
                if isinstance(v, (int, float, complex, np.number)) and not isinstance(v, bool):
                    raise Unrepresentable("number inside an object array")
                vals.append(self.oval(v))
            else:
                vals.append(self.num(v))
        return (tuple(int(n) for n in a.shape), self.dtype(a.dtype), int(isstr), tuple(vals))

    def props(self, d):
        return tuple((self.name(k), self.arr(v)) for k, v in d.items())

    def data(self, d):
        if d is None:
            return None
        a = d.array
        ct = d.get_compression_type()
        arr = self.arr(a)
        if ct:
            carr = self.arr(d.compressed_array)
            cti = self.name("compression:" + ct) + 1
        else:
            carr = arr
            cti = 0
        fv = d.get_fill_value(None)
        return (arr, None if fv is None else self.num(fv), self.name(d.get_units(None)), self.name(d.get_calendar(None)), cti, carr)

    def sub(self, b):
        if b is None:
            return None
        return (self.props(b.properties()), self.data(b.get_data(None)) if hasattr(b, "get_data") else None)

    def construct(self, c):
        cls = ROLE[c.construct_type]
        ext = bool(getattr(c, "nc_get_external", lambda: False)())
        return ("C", cls, self.props(c.properties()), self.data(c.get_data(None)), int(ext),
                self.name(c.nc_get_variable(None)),
                self.name(c.get_geometry(None)) if hasattr(c, "get_geometry") else None,
                self.sub(c.get_bounds(None)) if hasattr(c, "get_bounds") else None,
                self.sub(c.get_interior_ring(None)) if hasattr(c, "get_interior_ring") else None,
                self.type_tag(c))

    def type_tag(self, c):
        """The class's own type tag: measure of a cell measure, cell of a domain topology, connectivity of a
        cell connectivity."""
        for acc in ("get_measure", "get_cell", "get_connectivity"):
            if hasattr(c, acc):
                return self.name(getattr(c, acc)(None))
        return None

    def cell_method(self, m):
        q = m.qualifiers()
        iv = q.pop("interval", ())
        return ("M", tuple(self.name(a) for a in m.get_axes(())), self.name(m.get_method(None)),
                tuple((self.name(k), self.name("q:" + repr(v))) for k, v in q.items()),
                tuple(self.data(d) for d in iv))

    def params(self, d):
        out = []
        for k, v in d.items():
            if v is None:
                out.append((self.name(k), None))
            elif isinstance(v, cfdm().Data):
                raise Unrepresentable("Data-valued parameter")
            else:
                out.append((self.name(k), self.arr(v)))
        return tuple(out)

    def coord_ref(self, r):
        return ("R", tuple(self.name(k) for k in sorted(r.coordinates())),
                self.params(r.coordinate_conversion.parameters()),
                tuple((self.name(t), self.name(k)) for t, k in r.coordinate_conversion.domain_ancillaries().items()),
                self.params(r.datum.parameters()))

    def field(self, f):
        C = cfdm()
        is_field = isinstance(f, C.Field)
        axes = []
        for k, a in f.domain_axes(todict=True).items():
            s = a.get_size(None)
            if s is None:
                raise Unrepresentable("domain axis without size")
            axes.append((self.name(k), int(s)))
        da = f.constructs.data_axes()
        cons = f.constructs.filter_by_data(todict=True)
        order = [k for k in da if k in cons]
        # the per-type order the code iterates in must be the restriction of this order
        for t in ROLE_NAMES:
            want = list(f.constructs.filter_by_type(t, todict=True))
            got = [k for k in order if cons[k].construct_type == t]
            if want != got:
                raise fw.HarnessError(f"construct order of data_axes() and filter_by_type({t}) disagree: {got} {want}")
        entries = tuple((self.name(k), tuple(self.name(a) for a in da[k]), self.construct(cons[k])) for k in order)
        cms = tuple((self.name(k), self.cell_method(m)) for k, m in f.cell_methods(todict=True).items()) if is_field else ()
        refs = tuple((self.name(k), self.coord_ref(r)) for k, r in f.coordinate_references(todict=True).items())
        data = self.data(f.get_data(None)) if is_field else None
        dax = tuple(self.name(a) for a in f.get_data_axes(default=())) if is_field else ()
        return ("F", 100 if is_field else 101, self.props(f.properties()), data, dax, tuple(axes), entries, cms, refs)

    def obj(self, o):
        C = cfdm()
        if isinstance(o, (C.Field, C.Domain)):
            return self.field(o)
        if isinstance(o, C.Data):
            return ("D", self.data(o))
        if isinstance(o, C.CellMethod):
            return self.cell_method(o)
        if isinstance(o, C.CoordinateReference):
            return self.coord_ref(o)
        if isinstance(o, C.DomainAxis):
            return ("X", o.get_size(None))
        if isinstance(o, (C.Datum, C.CoordinateConversion)):
            if isinstance(o, C.CoordinateConversion) and o.domain_ancillaries():
                raise Unrepresentable("standalone conversion with domain ancillaries")
            return ("P", 1 if isinstance(o, C.Datum) else 2, self.params(o.parameters()))
        if getattr(o, "construct_type", None) in ROLE:
            return self.construct(o)
        for code, cls in enumerate(MISC_CLASSES):
            if type(o) is getattr(C, cls):
                return ("S", 7 + code, self.sub(o))
        return ("O", self.name("type:" + type(o).__name__))


# classes that are Properties(+Data) and nothing else: compared by PropertiesData.equals / Properties.equals
MISC_CLASSES = ["Bounds", "InteriorRing", "Count", "Index", "List", "NodeCountProperties", "PartNodeCountProperties"]


def render(t, k):
    if t is None:
        return "_"
    if isinstance(t, bool):
        return "1" if t else "0"
    if isinstance(t, (int, np.integer)):
        return str(int(t))
    if isinstance(t, str):
        return t
    if isinstance(t, tuple):
        if len(t) == 2 and t[0] == "n" and isinstance(t[1], Fraction):
            v = t[1] * (1 << k)
            assert v.denominator == 1
            return str(v.numerator)
        return "(" + ",".join(render(e, k) for e in t) + ")"
    raise fw.HarnessError(f"cannot render {t!r}")


def scale_of(fracs):
    k = 0
    for fr in fracs:
        d = fr.denominator
        if d > 1:
            k = max(k, d.bit_length() - 1)
    return k


# =========================================================================
# options
# =========================================================================
FAMILY_OPTS = {
    "pd": ("rtol", "atol", "verbose", "ignore_data_type", "ignore_fill_value", "ignore_properties", "ignore_compression", "ignore_type"),
    "data": ("rtol", "atol", "verbose", "ignore_data_type", "ignore_fill_value", "ignore_compression", "ignore_type"),
    "cm": ("rtol", "atol", "verbose", "ignore_type", "ignore_qualifiers"),
    "ref": ("rtol", "atol", "verbose", "ignore_type"),
    "params": ("rtol", "atol", "verbose", "ignore_data_type", "ignore_fill_value", "ignore_type"),
    "axis": ("verbose", "ignore_type"),
}


def family(o):
    C = cfdm()
    if isinstance(o, C.Data):
        return "data"
    if isinstance(o, C.CellMethod):
        return "cm"
    if isinstance(o, C.CoordinateReference):
        return "ref"
    if isinstance(o, (C.Datum, C.CoordinateConversion)):
        return "params"
    if isinstance(o, C.DomainAxis):
        return "axis"
    return "pd"


TOLS = [None, None, None, 0.0, 0.0, 2.0 ** -10, 0.25, 0.5]
ATOLS = [None, None, None, 0.0, 0.0, 0.5, 2.0, 8.0]
VERBOSE = [None, None, None, 0, 1, 3, -1, "INFO", "DEBUG"]


def gen_opts(rng, pname):
    """A random option set; `pname` is the property name the perturbation touches (if any)."""
    o = dict(idt=False, ifv=False, ip=None, ic=True, it=False, rtol=None, atol=None, verbose=None, iq=None)
    r = rng.random()
    if r < 0.25:
        return o  # defaults
    if rng.random() < 0.4:
        # CellMethod.equals only
        o["iq"] = rng.choice([["where"], ["interval"], ["where", "interval"], ["zzz"], [], ["over", "where"]])
    if rng.random() < 0.3:
        o["idt"] = True
    if rng.random() < 0.3:
        o["ifv"] = True
    if rng.random() < 0.5:
        nm = rng.choice([pname or "foo", pname or "foo", "long_name", "zzz"])
        form = rng.choice(["s", "s", "t", "t", "l", "t2", "l2", "e", "et", "el"])
        o["ip"] = {"s": ["s", nm], "t": ["t", [nm]], "l": ["l", [nm]], "t2": ["t", ["zzz", nm]], "l2": ["l", [nm, "comment"]],
                   "e": ["s", ""], "et": ["t", []], "el": ["l", []]}[form]
    if rng.random() < 0.2:
        o["ic"] = False
    if rng.random() < 0.2:
        o["it"] = True
    if rng.random() < 0.4:
        o["rtol"] = rng.choice(TOLS)
        o["atol"] = rng.choice(ATOLS)
    if rng.random() < 0.3:
        o["verbose"] = rng.choice(VERBOSE)
    return o


def ip_py(ip):
    if ip is None:
        return None
    if ip[0] == "s":
        return ip[1]
    if ip[0] == "t":
        return tuple(ip[1])
    return list(ip[1])


def ip_names(ip):
    """The names an ignore_properties value stands for (as documented)."""
    if ip is None:
        return set()
    if ip[0] == "s":
        return {ip[1]} if ip[1] else set()
    return set(ip[1])


def kwargs_for(x, o):
    fam = family(x)
    allowed = FAMILY_OPTS[fam]
    kw = {}
    if o["idt"] and "ignore_data_type" in allowed:
        kw["ignore_data_type"] = True
    if o["ifv"] and "ignore_fill_value" in allowed:
        kw["ignore_fill_value"] = True
    if o["ip"] is not None and "ignore_properties" in allowed:
        kw["ignore_properties"] = ip_py(o["ip"])
    if not o["ic"] and "ignore_compression" in allowed:
        kw["ignore_compression"] = False
    if o["it"] and "ignore_type" in allowed:
        kw["ignore_type"] = True
    if o["rtol"] is not None and "rtol" in allowed:
        kw["rtol"] = o["rtol"]
    if o["atol"] is not None and "atol" in allowed:
        kw["atol"] = o["atol"]
    if o["verbose"] is not None:
        kw["verbose"] = o["verbose"]
    if o.get("iq") is not None and "ignore_qualifiers" in allowed:
        kw["ignore_qualifiers"] = tuple(o["iq"]) if len(o["iq"]) % 2 else list(o["iq"])
    return kw


def effective(x, o):
    """The option set restricted to what the class of x documents."""
    allowed = FAMILY_OPTS[family(x)]
    e = dict(o)
    if "ignore_data_type" not in allowed:
        e["idt"] = False
    if "ignore_fill_value" not in allowed:
        e["ifv"] = False
    if "ignore_properties" not in allowed:
        e["ip"] = None
    if "ignore_compression" not in allowed:
        e["ic"] = True
    if "rtol" not in allowed:
        e["rtol"] = e["atol"] = None
    if "ignore_qualifiers" not in allowed:
        e["iq"] = None
    e.setdefault("iq", None)
    return e


def tol_fracs(e):
    C = cfdm()
    rt = Fraction(float(C.rtol())) if e["rtol"] is None else Fraction(float(e["rtol"]))
    at = Fraction(float(C.atol())) if e["atol"] is None else Fraction(float(e["atol"]))
    return at, rt


def opts_tree(ab, e, k):
    at, rt = tol_fracs(e)
    ip = e["ip"]
    if ip is None:
        ipt = None
    elif ip[0] == "s":
        ipt = ("s", ab.name(ip[1]) if ip[1] else None)
    else:
        ipt = (ip[0], tuple(ab.name(n) for n in ip[1]))
    return (at.numerator, at.denominator, rt.numerator, rt.denominator, k, int(e["idt"]), int(e["ifv"]), ipt, int(e["ic"]), int(e["it"]))


# =========================================================================
# base objects
# =========================================================================
_ex_cache = {}


def example(n):
    if n not in _ex_cache:
        _ex_cache[n] = cfdm().example_field(n)
    return _ex_cache[n].copy()


def random_field(seed, domain=False):
    """A small field built from scratch; integer-valued data; sizes may repeat."""
    C = cfdm()
    rng = fw.rng_for(seed, "C05field")
    f = C.Field(properties={"standard_name": rng.choice(["air_temperature", "eastward_wind"]), "comment": "c%d" % rng.randrange(3)})
    nax = rng.choice([1, 2, 2, 3, 3])
    pool = rng.choice([[2, 3, 4], [3, 3, 3], [2, 2, 3], [1, 3, 3], [4, 4, 2]])
    sizes = [rng.choice(pool) for _ in range(nax)]
    ambiguous = rng.random() < 0.2
    ax = [f.set_construct(C.DomainAxis(s)) for s in sizes]
    if rng.random() < 0.3:
        ax.append(f.set_construct(C.DomainAxis(1)))
        sizes.append(1)
    nd = rng.randint(1, nax)
    dperm = rng.sample(range(nax), nd)

    def ints(shape, lo=0, float_=True):
        n = int(np.prod(shape)) if shape else 1
        a = np.array([lo + rng.randint(0, 40) for _ in range(n)], dtype=float if float_ else int).reshape(shape)
        return a

    def maybe_mask(a):
        if a.size > 1 and rng.random() < 0.25:
            m = np.zeros(a.shape, bool)
            m.flat[rng.randrange(a.size)] = True
            return np.ma.array(a, mask=m)
        return a

    fd = C.Data(maybe_mask(ints([sizes[i] for i in dperm], 100)), units="K")
    if rng.random() < 0.3:
        fd.set_fill_value(-999.0)
    f.set_data(fd, axes=[ax[i] for i in dperm])
    label = itertools.count()

    def name():
        return "n0" if ambiguous else "n%d" % next(label)

    coords = []
    for i, a in enumerate(ax):
        r = rng.random()
        if r < 0.6:
            d = C.DimensionCoordinate(properties={"long_name": name()},
                                      data=C.Data(np.arange(sizes[i], dtype=float) * (1 if ambiguous else i + 1), units="m"))
            if rng.random() < 0.5:
                b = np.empty((sizes[i], 2))
                b[:, 0] = d.array - 0.5
                b[:, 1] = d.array + 0.5
                d.set_bounds(C.Bounds(data=C.Data(b)))
            coords.append(f.set_construct(d, axes=[a]))
        elif r < 0.8:
            x = C.AuxiliaryCoordinate(properties={"long_name": name()}, data=C.Data(maybe_mask(ints([sizes[i]], 0))))
            coords.append(f.set_construct(x, axes=[a]))
    if len(ax) >= 2 and rng.random() < 0.7:
        i, j = rng.sample(range(len(ax)), 2)
        x = C.AuxiliaryCoordinate(properties={"long_name": name()}, data=C.Data(ints([sizes[i], sizes[j]], 0)))
        coords.append(f.set_construct(x, axes=[ax[i], ax[j]]))
        if rng.random() < 0.4:
            x = C.AuxiliaryCoordinate(properties={"long_name": name()}, data=C.Data(ints([sizes[j], sizes[i]], 0, float_=False)))
            coords.append(f.set_construct(x, axes=[ax[j], ax[i]]))
    if rng.random() < 0.4:
        i = rng.randrange(len(ax))
        m = C.CellMeasure(measure=rng.choice(["area", "volume"]), properties={"long_name": name()}, data=C.Data(ints([sizes[i]], 1), units="m2"))
        f.set_construct(m, axes=[ax[i]])
    ancs = []
    if rng.random() < 0.4:
        i = rng.randrange(len(ax))
        d = C.DomainAncillary(properties={"long_name": name()}, data=C.Data(ints([sizes[i]], 5)))
        ancs.append(f.set_construct(d, axes=[ax[i]]))
    if rng.random() < 0.3 and not domain:
        i = rng.randrange(len(ax))
        d = C.FieldAncillary(properties={"long_name": name()}, data=C.Data(ints([sizes[i]], 7)))
        f.set_construct(d, axes=[ax[i]])
    ncm = rng.choice([0, 0, 1, 1, 2, 3])
    for _ in range(ncm):
        k = rng.choice([1, 1, 1, 2, 3])
        axes = rng.sample(ax, min(k, len(ax)))
        if rng.random() < 0.2:
            axes = ["area"]
        cm = C.CellMethod(axes=axes, method=rng.choice(["mean", "maximum", "sum", "point"]))
        if rng.random() < 0.3:
            cm.set_qualifier(rng.choice(["where", "within", "over"]), rng.choice(["land", "sea", "years"]))
        if rng.random() < 0.3:
            n_iv = rng.choice([1, len(axes)])
            cm.set_qualifier("interval", [C.Data(float(rng.randint(1, 5)), units="m") for _ in range(n_iv)])
        f.set_construct(cm)
    if coords and rng.random() < 0.6:
        nref = rng.choice([1, 1, 2])
        for q in range(nref):
            r = C.CoordinateReference(
                coordinates=rng.sample(coords, rng.randint(1, len(coords))),
                coordinate_conversion=C.CoordinateConversion(
                    parameters=dict({"grid_mapping_name": rng.choice(["latitude_longitude", "rotated"]), "p": float(rng.randint(0, 3))},
                                    **({"unset_term": None} if rng.random() < 0.25 else {})),
                    domain_ancillaries=({"a": ancs[0]} if ancs and rng.random() < 0.7 else ({"a": None} if rng.random() < 0.2 else {})),
                ),
                datum=C.Datum(parameters={"earth_radius": float(rng.choice([6371007, 6371000]))} if rng.random() < 0.6 else {}),
            )
            f.set_construct(r)
    if domain:
        return f.domain
    return f


def bare_axes_field(seed):
    """3-4 domain axes of ONE size, all spanned by the field data; some carry a 1-d coordinate, some are bare
    (no 1-d coordinate of their own); one or two 2-d constructs.  The axes of an N-d construct are then the
    only thing that tells some fields apart: the axis mapping of Constructs.equals has to be checked in
    both directions."""
    C = cfdm()
    rng = fw.rng_for(seed, "C05bare")
    n = rng.choice([3, 3, 4])
    size = rng.choice([2, 3, 4])
    f = C.Field(properties={"standard_name": "air_temperature"})
    ax = [f.set_construct(C.DomainAxis(size)) for _ in range(n)]
    f.set_data(C.Data(np.arange(float(size ** n)).reshape([size] * n), units="K"), axes=ax)
    with_coord = rng.sample(range(n), rng.choice([1, 1, 2]))
    for i in with_coord:
        cls = C.DimensionCoordinate if rng.random() < 0.7 else C.AuxiliaryCoordinate
        f.set_construct(cls(properties={"long_name": "c%d" % i}, data=C.Data(np.arange(float(size)) * (i + 1), units="m")), axes=[ax[i]])
    for q in range(rng.choice([1, 1, 2])):
        i, j = rng.sample(range(n), 2)
        cls = rng.choice([C.AuxiliaryCoordinate, C.AuxiliaryCoordinate, C.CellMeasure, C.DomainAncillary])
        kw = dict(measure="area") if cls is C.CellMeasure else {}
        a = np.array([rng.randint(0, 40) for _ in range(size * size)], dtype=float).reshape(size, size)
        f.set_construct(cls(properties={"long_name": "two%d" % q}, data=C.Data(a), **kw), axes=[ax[i], ax[j]])
    return f


# -------------------------------------------------------------------------
# the grid field: every construct type x every data kind, nameless constructs, masks everywhere
# -------------------------------------------------------------------------
DATA_KINDS = ["int", "float", "bool", "U", "S", "reftime", "O"]
GRID_ROLES = ["dim", "aux", "aux2d", "geom", "domanc", "measure", "fanc", "topology", "connectivity"]
_grid_cache = {}


def kind_array(rng, dk, shape, masked=None):
    """An array of data kind dk; with masked elements (when it has more than one element) unless masked=False."""
    n = int(np.prod(shape)) if shape else 1
    if dk == "int":
        a = np.array([rng.randint(-40, 40) for _ in range(n)], dtype=rng.choice(["int32", "int64"]))
    elif dk in ("float", "reftime"):
        a = np.array([rng.randint(-40, 40) / rng.choice([1, 1, 2, 4]) for _ in range(n)], dtype="float64")
        if dk == "float" and rng.random() < 0.25:
            a = a.astype("float32")
    elif dk == "bool":
        a = np.array([rng.random() < 0.5 for _ in range(n)], dtype=bool)
    elif dk == "U":
        a = np.array([rng.choice(["a", "bb", "ccc", "d e", "xyz", "k"]) for _ in range(n)], dtype="U%d" % rng.choice([3, 3, 5]))
    elif dk == "S":
        a = np.array([rng.choice([b"a", b"bb", b"ccc", b"xyz", b"k"]) for _ in range(n)], dtype="S%d" % rng.choice([3, 3, 5]))
    elif dk == "O":
        a = np.empty(n, dtype=object)
        for i in range(n):
            a[i] = rng.choice([None, "a", "bb", "ccc", "xyz"])
    else:
        raise fw.HarnessError(dk)
    a = a.reshape(shape)
    if masked is None:
        masked = rng.random() < 0.6
    if masked and n > 1:
        m = np.zeros(n, bool)
        for i in rng.sample(range(n), rng.choice([1, 1, 2]) if n > 2 else 1):
            m[i] = True
        a = np.ma.array(a, mask=m.reshape(shape))
    elif rng.random() < 0.15:
        a = np.ma.array(a)
    return a


def grid_field(seed, role, dk, domain=False):
    """A field holding one construct of every type that carries data.  The construct `role` (and its bounds
    and interior ring, and the field itself for role 'field') holds data of kind dk; the others draw their
    kinds at random.  About every third construct has no standard_name / long_name / cf_role / axis, so that
    its identity() falls back to its netCDF variable name (when it has one).  Returns (field, keys)."""
    C = cfdm()
    rng = fw.rng_for(seed, "C05grid", role, dk)
    n0 = rng.choice([3, 4])
    n1 = rng.choice([2, 3])
    f = C.Field(properties={"standard_name": "air_temperature", "comment": "grid%d" % rng.randrange(3)})
    a0 = f.set_construct(C.DomainAxis(n0))
    a1 = f.set_construct(C.DomainAxis(n1))
    keys = {}
    counter = itertools.count()

    def kd(r):
        return dk if r == role else rng.choice(DATA_KINDS)

    def props(r, k):
        q = {}
        nameless = rng.random() < (0.5 if r == role else 0.3)
        if not nameless:
            q[rng.choice(["standard_name", "long_name", "long_name"])] = "name_%s_%d" % (r, next(counter))
        if rng.random() < 0.3:
            q["comment"] = "c%d" % rng.randrange(3)
        if k == "reftime":
            q["units"] = "days since 2000-01-01"
            q["calendar"] = rng.choice(["noleap", "360_day"])
        elif k in ("int", "float") and rng.random() < 0.5:
            q["units"] = rng.choice(["m", "K", "1"])
        return q

    def finish(c, r):
        if rng.random() < 0.75:
            c.nc_set_variable("nc_%s" % r)
        return c

    def data(k, shape):
        return C.Data(kind_array(rng, k, shape))

    fk = dk if role == "field" else rng.choice(["float", "float", "int"])
    fprops = {}
    fd = C.Data(kind_array(rng, fk, [n0, n1]), units="K" if fk in ("float", "int") else None)
    f.set_data(fd, axes=[a0, a1])
    # dimension coordinate
    k = kd("dim")
    c = C.DimensionCoordinate(properties=props("dim", k), data=data(k, [n0]))
    if rng.random() < 0.6 or role == "dim":
        c.set_bounds(C.Bounds(data=data(k, [n0, 2])))
    keys["dim"] = f.set_construct(finish(c, "dim"), axes=[a0])
    # auxiliary coordinates
    k = kd("aux")
    c = C.AuxiliaryCoordinate(properties=props("aux", k), data=data(k, [n0]))
    if rng.random() < 0.5 or role == "aux":
        b = C.Bounds(data=data(k, [n0, 2]))
        if rng.random() < 0.4:
            b.set_property("long_name", "bounds of aux")
        c.set_bounds(b)
    keys["aux"] = f.set_construct(finish(c, "aux"), axes=[a0])
    k = kd("aux2d")
    c = C.AuxiliaryCoordinate(properties=props("aux2d", k), data=data(k, [n0, n1]))
    keys["aux2d"] = f.set_construct(finish(c, "aux2d"), axes=[a0, a1])
    # geometry coordinate with interior ring
    k = kd("geom")
    c = C.AuxiliaryCoordinate(properties=props("geom", k), data=data(k, [n0]))
    c.set_bounds(C.Bounds(data=data(k, [n0, 2, 3])))
    c.set_geometry(rng.choice(["polygon", "line"]))
    c.set_interior_ring(C.InteriorRing(data=data(k if rng.random() < 0.5 else "int", [n0, 2])))
    if rng.random() < 0.3:
        c.get_interior_ring().set_property("long_name", "ring")
    keys["geom"] = f.set_construct(finish(c, "geom"), axes=[a0])
    # domain ancillary
    k = kd("domanc")
    c = C.DomainAncillary(properties=props("domanc", k), data=data(k, [n1]))
    if rng.random() < 0.4 or role == "domanc":
        c.set_bounds(C.Bounds(data=data(k, [n1, 2])))
    keys["domanc"] = f.set_construct(finish(c, "domanc"), axes=[a1])
    # cell measure
    k = kd("measure")
    c = C.CellMeasure(properties=props("measure", k), data=data(k, [n0, n1]))
    if rng.random() < 0.6:
        c.set_measure(rng.choice(["area", "volume"]))
    keys["measure"] = f.set_construct(finish(c, "measure"), axes=[a0, a1])
    # field ancillary
    if not domain:
        k = kd("fanc")
        c = C.FieldAncillary(properties=props("fanc", k), data=data(k, [n0]))
        keys["fanc"] = f.set_construct(finish(c, "fanc"), axes=[a0])
    # UGRID constructs
    k = kd("topology")
    c = C.DomainTopology(properties=props("topology", k), data=data(k, [n0, 3]))
    if rng.random() < 0.8:
        c.set_cell(rng.choice(["face", "edge", "point"]))
    keys["topology"] = f.set_construct(finish(c, "topology"), axes=[a0])
    k = kd("connectivity")
    c = C.CellConnectivity(properties=props("connectivity", k), data=data(k, [n0, 4]))
    if rng.random() < 0.8:
        c.set_connectivity(rng.choice(["edge", "node"]))
    keys["connectivity"] = f.set_construct(finish(c, "connectivity"), axes=[a0])
    # cell methods and a coordinate reference
    if rng.random() < 0.5:
        f.set_construct(C.CellMethod(axes=[rng.choice([a0, a1])], method=rng.choice(["mean", "sum"])))
    if rng.random() < 0.5:
        f.set_construct(C.CoordinateReference(
            coordinates=[keys["dim"], keys["aux"]],
            coordinate_conversion=C.CoordinateConversion(parameters={"grid_mapping_name": "latitude_longitude"},
                                                         domain_ancillaries={"a": keys["domanc"]}),
            datum=C.Datum(parameters={"earth_radius": 6371007.0})))
    if domain:
        return f.domain, keys
    return f, keys


def grid_keys(base):
    t = tuple(base)
    if t not in _grid_cache:
        if len(_grid_cache) > 64:
            _grid_cache.clear()
        _grid_cache[t] = grid_field(base[1], base[2], base[3], domain=(base[0] == "griddom"))
    return _grid_cache[t][1]


def base_field(base):
    kind = base[0]
    if kind in ("grid", "griddom"):
        grid_keys(base)
        return _grid_cache[tuple(base)][0].copy()
    if kind == "ex":
        return example(base[1])
    if kind == "excomp":
        # a DSG example field compressed by convention: its Data (and that of the ragged coordinates) hold
        # compressed arrays, which equals(..., ignore_compression=False) compares as well
        key = ("comp", base[1], base[2])
        if key not in _ex_cache:
            try:
                _ex_cache[key] = example(base[1]).compress(base[2])
            except Exception:
                _ex_cache[key] = None
        if _ex_cache[key] is None or not _ex_cache[key].data.get_compression_type():
            raise Skip
        return _ex_cache[key].copy()
    if kind == "exdom":
        return example(base[1]).domain
    if kind == "rand":
        return random_field(base[1])
    if kind == "randdom":
        return random_field(base[1], domain=True)
    if kind == "bare":
        return bare_axes_field(base[1])
    raise fw.HarnessError(f"unknown base {base}")


def select(f, sel):
    """The object inside field/domain f that the case compares."""
    what = sel[0]
    if what == "self":
        return f
    if what == "con":
        return f.constructs[sel[1]]
    if what == "data":
        return (f if sel[1] is None else f.constructs[sel[1]]).data
    if what == "bounds":
        return f.constructs[sel[1]].bounds
    if what == "ring":
        return f.constructs[sel[1]].get_interior_ring()
    if what == "datum":
        return f.constructs[sel[1]].datum
    if what == "conv":
        return f.constructs[sel[1]].coordinate_conversion
    if what == "misc":
        return misc_object(sel[1], sel[2])
    raise fw.HarnessError(f"unknown selector {sel}")


def misc_object(cls, seed):
    """A standalone Count / Index / List / NodeCountProperties / PartNodeCountProperties / Bounds / InteriorRing."""
    C = cfdm()
    rng = fw.rng_for(seed, "C05misc", cls)
    props = {}
    if rng.random() < 0.7:
        props["long_name"] = rng.choice(["count of things", "index", "nodes per cell"])
    if rng.random() < 0.3:
        props["comment"] = "c%d" % rng.randrange(3)
    o = getattr(C, cls)(properties=props)
    if hasattr(o, "set_data"):
        dk = rng.choice(DATA_KINDS if cls in ("Bounds", "InteriorRing") else ["int", "int", "float"])
        shape = [rng.choice([2, 3, 4])] + ([2] if cls in ("Bounds", "InteriorRing") else [])
        o.set_data(C.Data(kind_array(rng, dk, shape)))
    if rng.random() < 0.5:
        o.nc_set_variable("nc_" + cls.lower())
    return o


def selectors(f, rng):
    """All comparable objects of a field, as selectors."""
    C = cfdm()
    out = [("self",)]
    if isinstance(f, C.Field):
        out.append(("data", None))
    for k, c in all_constructs(f):
        out.append(("con", k))
        if hasattr(c, "has_data") and c.has_data():
            out.append(("data", k))
        if getattr(c, "has_bounds", lambda: False)():
            out.append(("bounds", k))
        if getattr(c, "has_interior_ring", lambda: False)():
            out.append(("ring", k))
        if isinstance(c, C.CoordinateReference):
            out.append(("datum", k))
            if not c.coordinate_conversion.domain_ancillaries():
                out.append(("conv", k))
    return out


# =========================================================================
# rebuilding a field under other keys / in another order
# =========================================================================
def rebuild(f, rng, rename, reorder):
    C = cfdm()
    is_field = isinstance(f, C.Field)
    g = (C.Field if is_field else C.Domain)(properties=f.properties())
    axes = list(f.domain_axes(todict=True).items())
    da = f.constructs.data_axes()
    allc = f.constructs.filter_by_data(todict=True)
    cons = [(k, allc[k]) for k in da if k in allc]  # insertion order (deterministic, unlike filter_by_data's)
    if reorder:
        rng.shuffle(axes)
        rng.shuffle(cons)
    amap, kmap = {}, {}
    if rename:
        names = [k for k, _ in axes]
        new = names[1:] + names[:1] if len(names) > 1 and rng.random() < 0.5 else ["ax%d" % (i + 7) for i in range(len(names))]
        amap = dict(zip(names, new))
    for k, a in axes:
        g.set_construct(a.copy(), key=amap.get(k, k))
    if is_field and f.has_data():
        g.set_data(f.data.copy(), axes=[amap.get(a, a) for a in f.get_data_axes()])
    if rename:
        by_type = {}
        for k, c in cons:
            by_type.setdefault(c.construct_type, []).append(k)
        for t, ks in by_type.items():
            if len(ks) > 1 and rng.random() < 0.5:
                kmap.update(zip(ks, ks[1:] + ks[:1]))
            else:
                kmap.update((k, "%s%d" % (t.replace("_", ""), i + 11)) for i, k in enumerate(ks))
    for k, c in cons:
        g.set_construct(c.copy(), axes=[amap.get(a, a) for a in da[k]], key=kmap.get(k, k))
    if is_field:
        for k, m in f.cell_methods(todict=True).items():
            m = m.copy()
            m.set_axes([amap.get(a, a) for a in m.get_axes(())])
            g.set_construct(m, key=("cm_" + k) if rename else k)
    refs = list(f.coordinate_references(todict=True).items())
    if reorder:
        rng.shuffle(refs)
    for k, r in refs:
        r = r.copy()
        old = r.coordinates()
        r.clear_coordinates()
        r.set_coordinates([kmap.get(c, c) for c in old])
        for t, v in r.coordinate_conversion.domain_ancillaries().items():
            if v is not None:
                r.coordinate_conversion.set_domain_ancillary(t, kmap.get(v, v))
        g.set_construct(r, key=("ref_" + k) if rename else k)
    return g


# =========================================================================
# transformations: (y, expected verdict given the effective options)
# =========================================================================
FAR = "far"


def far_value(v):
    """A value beyond every tolerance of the grid from v (rtol <= 1/2, atol <= 8), both directions."""
    v = float(v)
    return 4 * v + 100 if v >= 0 else 4 * v - 100


class Skip(Exception):
    """The transformation does not apply to this object."""


def data_constructs(f):
    """(key, construct) of the metadata constructs with data, sorted by key: filter_by_data() iterates over a
    set of construct types, so its order changes with PYTHONHASHSEED and must not steer a random choice."""
    return sorted(f.constructs.filter_by_data(todict=True).items())


def all_constructs(f):
    return sorted(f.constructs.todict().items())


def has_ndata(o):
    """o carries a non-empty array of a kind the perturbations know (numbers, booleans, strings, objects)."""
    return hasattr(o, "has_data") and o.has_data() and o.data.size > 0 and o.data.dtype.kind in "biufSUO"


def data_kind(d):
    """The data kind of a Data, for the input distribution."""
    k = d.dtype.kind
    if k in "iu":
        return "int"
    if k == "f":
        return "reftime" if " since " in str(d.get_units("")) else "float"
    return {"b": "bool", "U": "U", "S": "S", "O": "O"}.get(k, "other")


def data_holder_paths(x):
    """Paths (callables on a copy) to every Data-bearing component of x, with a nesting depth label."""
    C = cfdm()
    out = []
    if isinstance(x, C.Data):
        return [("top", lambda y: y, None)]
    if has_ndata(x):
        out.append(("top", lambda y: y, "self"))
    if getattr(x, "has_bounds", lambda: False)() and has_ndata(x.bounds):
        out.append(("bounds", lambda y: y.bounds, "bounds"))
    if getattr(x, "has_interior_ring", lambda: False)() and has_ndata(x.get_interior_ring()):
        out.append(("ring", lambda y: y.get_interior_ring(), "ring"))
    if isinstance(x, (C.Field, C.Domain)):
        for k, c in data_constructs(x):
            if has_ndata(c):
                out.append(("con", (lambda y, k=k: y.constructs[k]), k))
            if getattr(c, "has_bounds", lambda: False)() and has_ndata(c.bounds):
                out.append(("conbounds", (lambda y, k=k: y.constructs[k].bounds), k))
            if getattr(c, "has_interior_ring", lambda: False)() and has_ndata(c.get_interior_ring()):
                out.append(("conring", (lambda y, k=k: y.constructs[k].get_interior_ring()), k))
    return out


def other_element(a, i, rng):
    """A value for element i of the non-numeric array a that differs from the present one and fits the dtype."""
    k = a.dtype.kind
    old = np.ma.getdata(a).flat[i]
    if k == "b":
        return not bool(old)
    if k in "SU":
        w = a.dtype.itemsize // (4 if k == "U" else 1)
        cands = ["z" * w, "y" * w, "q"]
        for c in cands:
            c = c[:w]
            v = c if k == "U" else c.encode()
            if v != old:
                return v
        raise Skip
    if k == "O":
        return "zzz" if old != "zzz" else None
    raise Skip


def set_array(holder, a):
    """Replace the array of a Data (holder is Data) or of the Data of a construct, keeping its metadata."""
    C = cfdm()
    if isinstance(holder, C.Data):
        raise fw.HarnessError("use new_data for Data")
    d = holder.data
    nd = C.Data(a, units=d.get_units(None), calendar=d.get_calendar(None), fill_value=d.get_fill_value(None))
    holder.set_data(nd, copy=False)


def new_data(d, a):
    return cfdm().Data(a, units=d.get_units(None), calendar=d.get_calendar(None), fill_value=d.get_fill_value(None))


def perturb_array(x, y, path, rng, how):
    """Change the data array at `path` of y (a copy of x).  Returns the replacement for y (Data case) or y."""
    C = cfdm()
    label, get, _ = path
    holder = get(y)
    d = holder if isinstance(holder, C.Data) else holder.data
    a = np.ma.array(d.array, copy=True) if np.ma.isMA(d.array) else np.array(d.array, copy=True)
    if a.size == 0:
        raise Skip
    unmasked = [i for i in range(a.size) if not np.ma.getmaskarray(a).flat[i]]
    masked = [i for i in range(a.size) if np.ma.getmaskarray(a).flat[i]]
    if how == "datum" and a.dtype.kind in "bSUO":
        if not unmasked:
            raise Skip
        i = rng.choice(unmasked)
        a.flat[i] = other_element(a, i, rng)
    elif how == "hidden":
        # what lies under the mask is not part of the data: changing it must go unnoticed
        if not masked:
            raise Skip
        i = rng.choice(masked)
        raw = np.array(np.ma.getdata(a), copy=True)
        if a.dtype.kind in "bSUO":
            raw.flat[i] = other_element(a, i, rng)
        elif a.dtype.kind == "f":
            raw.flat[i] = rng.choice([float(raw.flat[i]) + 7.5, -123.0, 0.0])
            if raw.flat[i] == np.ma.getdata(a).flat[i]:
                raw.flat[i] = 55.0
        else:
            raw.flat[i] = (int(raw.flat[i]) + 7) % 100
        a = np.ma.array(raw, mask=np.ma.getmaskarray(a).copy())
    elif how in ("datum", "within"):
        if a.dtype.kind not in "iuf" or not unmasked:
            raise Skip
        i = rng.choice(unmasked)
        if how == "datum":
            nv = far_value(a.flat[i])
            if a.dtype.kind in "iu":
                nv = int(nv)
            if a.dtype.kind == "u" and nv < 0:
                raise Skip
            if a.dtype.kind == "f" and float(a.dtype.type(nv)) != nv:
                raise Skip
            a.flat[i] = nv
        else:
            if a.dtype != np.dtype("float64"):
                raise Skip
            if rng.random() < 0.4:
                # one unit in the last place: inside the package-wide default tolerance (machine epsilon,
                # relative and absolute) for |v| >= 1, outside an explicit zero tolerance
                nv = float(np.nextafter(a.flat[i], np.inf))
                if nv == float(a.flat[i]) or not np.isfinite(nv):
                    raise Skip
            else:
                nv = float(a.flat[i]) + 0.25
                if Fraction(nv) - Fraction(float(a.flat[i])) != Fraction(1, 4):
                    raise Skip
            a.flat[i] = nv
    elif how == "mask":
        a = np.ma.array(a)
        m = np.ma.getmaskarray(a).copy()
        i = rng.randrange(a.size)
        m.flat[i] = not m.flat[i]
        a = np.ma.array(np.ma.getdata(a), mask=m)
    elif how == "dtype" and a.dtype.kind in "SU":
        # the same strings in wider items
        a = a.astype(a.dtype.kind + str(a.dtype.itemsize // (4 if a.dtype.kind == "U" else 1) + rng.choice([1, 4])))
    elif how == "dtype":
        k = a.dtype.kind
        cands = []
        if k == "f":
            cands = [">f8" if a.dtype.byteorder in "=<|" and a.dtype.itemsize == 8 else "float64", "float32", "float64"]
        elif k in "iu":
            cands = ["int32", "int64", "float64", "int16"]
        elif k == "b":
            cands = ["int8", "uint8", "int32"]
        done = False
        for dt in cands:
            dt = np.dtype(dt)
            if dt == a.dtype:
                continue
            b = a.astype(dt)
            if np.ma.allequal(b.astype("float64"), a.astype("float64")) and (np.ma.getmaskarray(a) == np.ma.getmaskarray(b)).all():
                exact = all(Fraction(float(u)) == Fraction(float(v)) for u, v in zip(np.ma.getdata(a).ravel().tolist(), np.ma.getdata(b).ravel().tolist()))
                if exact:
                    a = b
                    done = True
                    break
        if not done:
            raise Skip
    elif how == "shape":
        only_1d = getattr(holder, "construct_type", None) == "dimension_coordinate"
        if a.ndim == 0:
            a = a.reshape(1)
        elif a.shape[-1] > 1 and (only_1d or rng.random() < 0.6):
            a = a[..., :-1]
        elif only_1d:
            raise Skip
        else:
            a = a.reshape(a.shape + (1,))
    else:
        raise fw.HarnessError(how)
    if isinstance(holder, C.Data):
        nd = new_data(d, a)
        if label == "top" and isinstance(y, C.Data):
            return nd
        raise fw.HarnessError("Data holder inside a construct")
    set_array(holder, a)
    return y


PERTURB_PROP_NAMES = ["foo", "long_name", "comment", "_FillValue", "missing_value", "Conventions", "units", "calendar"]


def perturb_parameter(comp, rng):
    """Change one parameter of a Datum / CoordinateConversion: another value, a value for an unset (None) term,
    None for a set term, an extra term (or an extra unset term), a term removed."""
    ps = comp.parameters()
    unset = sorted(t for t, v in ps.items() if v is None)
    r = rng.random()
    if unset and r < 0.4:
        comp.set_parameter(rng.choice(unset), 1.0)
    elif ps and r < 0.7:
        t = rng.choice(sorted(ps))
        v = ps[t]
        if v is not None and rng.random() < 0.3:
            comp.set_parameter(t, None)
        elif isinstance(v, str):
            comp.set_parameter(t, v + "_x")
        elif v is None:
            comp.set_parameter(t, 1.0)
        else:
            comp.set_parameter(t, far_value(float(v)))
    elif ps and r < 0.8:
        comp.del_parameter(rng.choice(sorted(ps)))
    elif r < 0.9:
        comp.set_parameter("extra_unset_term", None)
    else:
        comp.set_parameter("extra_term", 5.0)
IDENTITY_PROPS = ("standard_name", "long_name", "cf_role", "axis")


def is_nameless(c):
    """identity() of c cannot come from a property (it falls back to the netCDF variable name, if any)."""
    return hasattr(c, "has_property") and not any(c.has_property(q) for q in IDENTITY_PROPS) \
        and getattr(c, "get_measure", lambda d: None)(None) is None


def component(y, where, ctx, rng, need=None):
    """The object at nesting level `where` of y: y itself, its bounds / interior ring, or (for a field or
    domain) one of its metadata constructs with data, the bounds / interior ring of one.  ctx['target'] names
    the construct; otherwise constructs whose identity falls back to the netCDF name are preferred."""
    C = cfdm()
    if where == "top":
        return y
    if where == "bounds":
        if not getattr(y, "has_bounds", lambda: False)():
            raise Skip
        return y.bounds
    if where == "ring":
        if not getattr(y, "has_interior_ring", lambda: False)():
            raise Skip
        return y.get_interior_ring()
    if where not in ("con", "conbounds", "conring") or not isinstance(y, (C.Field, C.Domain)):
        raise Skip
    cs = y.constructs.filter_by_data(todict=True)
    cs = {k: c for k, c in cs.items() if not getattr(c, "nc_get_external", lambda: False)()}
    if where == "conbounds":
        cs = {k: c for k, c in cs.items() if getattr(c, "has_bounds", lambda: False)()}
    if where == "conring":
        cs = {k: c for k, c in cs.items() if getattr(c, "has_interior_ring", lambda: False)()}
    if need:
        cs = {k: c for k, c in cs.items() if need(c)}
    if not cs:
        raise Skip
    tgt = ctx.get("target")
    if tgt is not None:
        if tgt not in cs:
            raise Skip
        k = tgt
    else:
        nameless = sorted(k for k, c in cs.items() if is_nameless(c))
        k = rng.choice(nameless) if nameless and rng.random() < 0.6 else rng.choice(sorted(cs))
    ctx["hit"] = k
    c = cs[k]
    return c if where == "con" else (c.bounds if where == "conbounds" else c.get_interior_ring())


def transform(x, kind, rng, ctx):
    """Build y from x.  Returns (y, info) where info feeds `expected`.  ctx: dict(base=..., sel=..., field=f)."""
    C = cfdm()
    info = {}
    is_fd = isinstance(x, (C.Field, C.Domain))
    if kind == "same":
        return x, info
    if kind == "copy":
        return x.copy(), info
    if kind == "subspace":
        if not isinstance(x, C.Field) or not x.has_data():
            raise Skip
        return x[...], info
    if kind in ("rename", "reorder", "rename+reorder"):
        if not is_fd:
            raise Skip
        return rebuild(x, rng, "rename" in kind, "reorder" in kind), info
    if kind == "ncnames":
        y = x.copy()
        objs = [y]
        if is_fd:
            objs += [c for _, c in all_constructs(y)]
        touched = False
        for o in objs:
            if getattr(o, "nc_get_external", lambda: False)():
                continue
            if hasattr(o, "nc_set_variable"):
                o.nc_set_variable("v%d" % rng.randrange(1000))
                touched = True
            if hasattr(o, "nc_set_dimension"):
                o.nc_set_dimension("d%d" % rng.randrange(1000))
                touched = True
            b = getattr(o, "get_bounds", lambda d: None)(None)
            if b is not None:
                b.nc_set_variable("b%d" % rng.randrange(1000))
        if not touched:
            raise Skip
        return y, info

    if kind.startswith("ncvar:"):
        # the netCDF variable name of ONE component is set / changed / removed on one side only; constructs
        # whose identity() falls back to "ncvar%..." are the interesting ones
        _, how, where = kind.split(":")
        y = x.copy()
        tgt = component(y, where, ctx, rng)
        if not hasattr(tgt, "nc_set_variable") or getattr(tgt, "nc_get_external", lambda: False)():
            raise Skip
        old = tgt.nc_get_variable(None)
        if how == "set":
            tgt.nc_set_variable("renamed_a" if old != "renamed_a" else "renamed_b")
        elif old is None:
            raise Skip
        else:
            tgt.nc_del_variable()
        info.update(where=where, nameless=is_nameless(tgt), tclass=type(tgt).__name__)
        return y, info
    if kind.startswith("tag:"):
        # the class's own type tag: measure (cell measure), cell (domain topology), connectivity (cell connectivity)
        where = kind.split(":")[1]
        y = x.copy()
        tgt = component(y, where, ctx, rng, need=lambda c: any(hasattr(c, a) for a in ("set_measure", "set_cell", "set_connectivity")))
        for acc, vals in (("measure", ["area", "volume"]), ("cell", ["face", "edge", "point"]), ("connectivity", ["edge", "node"])):
            if hasattr(tgt, "set_" + acc):
                old = getattr(tgt, "get_" + acc)(None)
                if old is not None and rng.random() < 0.25:
                    getattr(tgt, "del_" + acc)()
                else:
                    getattr(tgt, "set_" + acc)(rng.choice([v for v in vals if v != old]))
                info.update(where=where, tag=acc, tclass=type(tgt).__name__)
                return y, info
        raise Skip

    if kind.split(":")[0] in ("unbound", "unring", "geom"):
        # bounds removed / interior ring removed / geometry type changed, on the construct itself or on a
        # construct inside a field or domain
        how, where = kind.split(":")
        y = x.copy()
        need = {"unbound": lambda c: getattr(c, "has_bounds", lambda: False)(),
                "unring": lambda c: getattr(c, "has_interior_ring", lambda: False)(),
                "geom": lambda c: hasattr(c, "set_geometry")}[how]
        tgt = component(y, where, ctx, rng, need=need)
        if not need(tgt):
            raise Skip
        if how == "unbound":
            tgt.del_bounds()
        elif how == "unring":
            tgt.del_interior_ring()
        elif tgt.get_geometry(None) is not None and rng.random() < 0.3:
            tgt.del_geometry()
        else:
            tgt.set_geometry("line" if tgt.get_geometry(None) != "line" else "polygon")
        info.update(where=where, tclass=type(tgt).__name__)
        return y, info

    # ---- properties
    if kind.startswith("prop"):
        # prop:<where>: where in top / bounds / ring / con / conbounds / conring
        where = kind.split(":")[1]
        y = x.copy()
        tgt = component(y, where, ctx, rng)
        if not hasattr(tgt, "set_property"):
            raise Skip
        name = ctx.get("pname") or rng.choice(PERTURB_PROP_NAMES)

        def derived(o):
            # what the Data of the construct - and of its bounds, which inherit from it - take from the
            # construct's properties (PropertiesData.get_data, PropertiesDataBounds.get_bounds)
            units, fills = [], []
            for holder in (o, getattr(o, "get_bounds", lambda d: None)(None), getattr(o, "get_interior_ring", lambda d: None)(None)):
                d = holder.get_data(None) if holder is not None and hasattr(holder, "get_data") else None
                units.append(None if d is None else (d.get_units(None), d.get_calendar(None)))
                fills.append(None if d is None else d.get_fill_value(None))
            return units, fills

        before = derived(tgt)
        if tgt.has_property(name) and rng.random() < 0.3:
            tgt.del_property(name)
        else:
            old = tgt.get_property(name, None)
            if name in ("_FillValue", "missing_value"):
                # (a string fill value cannot even be attached to numeric data)
                new = -12345.0 if old is None or float(old) != -12345.0 else -54321.0
            else:
                new = "zzz" if old != "zzz" else "yyy"
            tgt.set_property(name, new)
        after = derived(tgt)
        info.update(where=where, pname=name, fill_changed=bool(after[1] != before[1]), units_changed=bool(after[0] != before[0]))
        return y, info

    # ---- data arrays
    if kind.split(":")[0] in ("datum", "within", "mask", "hidden", "dtype", "shape"):
        how, where = kind.split(":")
        paths = [p for p in data_holder_paths(x) if p[0] == where]
        if ctx.get("target") is not None and where in ("con", "conbounds", "conring"):
            paths = [p for p in paths if p[2] == ctx["target"]]
        if not paths:
            raise Skip
        if how == "shape" and where != "top":
            raise Skip  # would break the container's shape checks, not a single-component change
        if how == "shape" and where == "top" and is_fd:
            raise Skip
        path = rng.choice(paths)
        y = x.copy()
        y = perturb_array(x, y, path, rng, how)
        gx = path[1](x)
        gy = path[1](y)
        dx = gx if isinstance(gx, C.Data) else gx.data
        dy = gy if isinstance(gy, C.Data) else gy.data
        info.update(where=where, dk=data_kind(dx))
        if how in ("within", "datum") and dx.dtype.kind in "biuf":
            # which value moved, for the exact tolerance statement of the oracle (a flipped boolean is a
            # difference of 1, which an absolute tolerance >= 1 covers)
            ax, ay = dx.array, dy.array
            diff = [(float(u), float(v)) for u, v, m in zip(np.ma.getdata(ax).ravel(), np.ma.getdata(ay).ravel(), np.ma.getmaskarray(ax).ravel()) if not m and u != v]
            info["moved"] = diff
        return y, info

    if kind.split(":")[0] in ("fill", "units", "calendar"):
        how, where = kind.split(":")
        # a construct re-derives the units, calendar and fill value of its Data from its own
        # properties (get_data): these are components of a standalone Data only
        if not isinstance(x, C.Data):
            raise Skip
        paths = [p for p in data_holder_paths(x) if p[0] == where]
        if not paths:
            raise Skip
        path = rng.choice(paths)
        y = x.copy()
        holder = path[1](y)
        d = holder if isinstance(holder, C.Data) else holder.data
        if how == "fill":
            if d.get_fill_value(None) is not None and rng.random() < 0.35:
                d.del_fill_value()
            elif d.dtype.kind in "iuf":
                d.set_fill_value(-7.0 if d.get_fill_value(None) != -7.0 else -8.0)
            else:
                raise Skip
        elif how == "units":
            if d.get_units(None) is not None and rng.random() < 0.35:
                d.del_units()
            else:
                d.set_units("zz" if d.get_units(None) != "zz" else "yy")
        else:
            if d.get_calendar(None) is not None and rng.random() < 0.35:
                d.del_calendar()
            else:
                d.set_calendar("noleap" if d.get_calendar(None) != "noleap" else "360_day")
        info.update(where=where)
        return y, info

    if kind == "data:remove":
        y = x.copy()
        if isinstance(y, C.Data) or not hasattr(y, "del_data") or not y.has_data() or isinstance(y, C.Field) and False:
            raise Skip
        y.del_data()
        if isinstance(y, C.Field):
            pass
        return y, info

    # ---- bounds / geometry / interior ring / measure
    if kind == "bounds:remove":
        if not getattr(x, "has_bounds", lambda: False)():
            raise Skip
        y = x.copy()
        y.del_bounds()
        return y, info
    if kind == "bounds:add":
        if not hasattr(x, "set_bounds") or x.has_bounds() or not has_ndata(x):
            raise Skip
        y = x.copy()
        if x.data.dtype.kind in "iuf":
            a = np.asarray(np.ma.getdata(x.array), dtype=float)
            y.set_bounds(C.Bounds(data=C.Data(np.stack([a - 0.5, a + 0.5], axis=-1))))
        else:
            a = np.ma.getdata(x.array)
            y.set_bounds(C.Bounds(data=C.Data(np.stack([a, a], axis=-1))))
        return y, info
    if kind == "geometry":
        if not hasattr(x, "set_geometry"):
            raise Skip
        y = x.copy()
        y.set_geometry("line" if x.get_geometry(None) != "line" else "polygon")
        return y, info
    if kind in ("ring:datum", "ring:remove"):
        if not getattr(x, "has_interior_ring", lambda: False)():
            raise Skip
        y = x.copy()
        if kind == "ring:remove":
            y.del_interior_ring()
        else:
            r = y.get_interior_ring()
            a = np.ma.array(r.array, copy=True)
            un = [i for i in range(a.size) if not np.ma.getmaskarray(a).flat[i]]
            if not un:
                raise Skip
            i = rng.choice(un)
            a.flat[i] = int(far_value(a.flat[i])) if a.dtype.kind in "iuf" else other_element(a, i, rng)
            set_array(r, a)
        return y, info
    if kind == "measure":
        if not hasattr(x, "set_measure"):
            raise Skip
        y = x.copy()
        y.set_measure("volume" if x.get_measure(None) != "volume" else "area")
        return y, info
    if kind == "external":
        if not hasattr(x, "nc_set_external") or x.nc_get_external():
            raise Skip
        y = x.copy()
        y.nc_set_external(True)
        y.nc_set_variable("areacella")
        info["documented_blind"] = True  # netCDF-only status
        return y, info
    if kind == "retype":
        ct = getattr(x, "construct_type", None)
        fam = {"dimension_coordinate": [C.AuxiliaryCoordinate, C.DomainAncillary],
               "auxiliary_coordinate": [C.DomainAncillary] + ([C.DimensionCoordinate] if x.has_data() and x.ndim == 1 else []),
               "domain_ancillary": [C.AuxiliaryCoordinate] + ([C.DimensionCoordinate] if getattr(x, "has_data", lambda: False)() and x.ndim == 1 else []),
               "field_ancillary": [C.AuxiliaryCoordinate, C.DomainAncillary]}.get(ct)
        if not fam:
            raise Skip
        return rng.choice(fam)(source=x), info

    # ---- field-level structure
    if kind.startswith(("axes", "dataaxes", "cm:", "ref:", "construct:", "axis:")) and not is_fd:
        raise Skip
    if kind == "axes":
        # only inside a field whose data span the axes involved: otherwise the change may be a mere
        # relabelling of interchangeable axes (an isomorphic domain, which is rightly equal)
        if not isinstance(x, C.Field) or not x.has_data():
            raise Skip
        fda = set(x.get_data_axes())
        y = x.copy()
        da = y.constructs.data_axes()
        sizes = {k: a.get_size() for k, a in y.domain_axes(todict=True).items()}
        cands = []
        for k, c in data_constructs(y):
            axes = da[k]
            if len(axes) == 2 and sizes[axes[0]] == sizes[axes[1]]:
                cands.append((k, (axes[1], axes[0])))
            if len(axes) == 2:
                # replace one of the two axes by a third axis of the same size
                for pos in (0, 1):
                    for k2, s in sizes.items():
                        if k2 not in axes and s == sizes[axes[pos]]:
                            new = list(axes)
                            new[pos] = k2
                            cands.append((k, tuple(new)))
            if len(axes) == 1:
                for k2, s in sizes.items():
                    if k2 != axes[0] and s == sizes[axes[0]] and c.construct_type != "dimension_coordinate":
                        cands.append((k, (k2,)))
        cands = [(k, new) for k, new in cands if set(new) <= fda and set(da[k]) <= fda]
        if not cands:
            raise Skip
        k, new = rng.choice(cands)
        y.set_data_axes(new, key=k)
        info.update(key=k)
        return y, info
    if kind == "dataaxes":
        if not isinstance(x, C.Field) or not x.has_data():
            raise Skip
        y = x.copy()
        axes = list(y.get_data_axes())
        sizes = {k: a.get_size() for k, a in y.domain_axes(todict=True).items()}
        cands = []
        for i, j in itertools.combinations(range(len(axes)), 2):
            if sizes[axes[i]] == sizes[axes[j]]:
                cands.append((i, j))
        if not cands:
            raise Skip
        i, j = rng.choice(cands)
        axes[i], axes[j] = axes[j], axes[i]
        y.set_data_axes(axes)
        return y, info
    if kind.startswith("cm:"):
        if not isinstance(x, C.Field):
            raise Skip
        how = kind[3:]
        y = x.copy()
        cms = y.cell_methods(todict=True)
        if how == "add":
            ax = rng.choice(sorted(y.domain_axes(todict=True)))
            y.set_construct(C.CellMethod(axes=[ax], method="variance"))
            return y, info
        if not cms:
            raise Skip
        k = rng.choice(sorted(cms))
        m = cms[k]
        if how == "remove":
            y.del_construct(k)
        elif how == "method":
            m.set_method("median" if m.get_method(None) != "median" else "mode")
        elif how == "qualifier":
            if m.has_qualifier("where") and rng.random() < 0.5:
                m.del_qualifier("where")
            else:
                m.set_qualifier("where", "ice" if m.get_qualifier("where", None) != "ice" else "sea")
        elif how == "interval":
            iv = m.get_qualifier("interval", None)
            if iv and len(m.get_axes(())) > 1 and rng.random() < 0.5:
                # another number of intervals: one for all axes <-> one per axis
                n_ax = len(m.get_axes(()))
                m.set_qualifier("interval", [iv[0].copy() for _ in range(1 if len(iv) > 1 else n_ax)])
            elif iv and rng.random() < 0.6:
                d = iv[0]
                new = C.Data(far_value(float(d.array)), units=d.get_units(None))
                m.set_qualifier("interval", [new] + list(iv[1:]))
            elif iv:
                m.del_qualifier("interval")
            else:
                m.set_qualifier("interval", [C.Data(3.0, units="m")])
        elif how == "axes":
            axes = list(m.get_axes(()))
            others = [a for a in y.domain_axes(todict=True) if a not in axes]
            if not others or not axes:
                raise Skip
            axes[rng.randrange(len(axes))] = rng.choice(sorted(others))
            m.set_axes(axes)
        elif how == "order":
            ks = list(cms)
            if len(ks) < 2:
                raise Skip
            i = rng.randrange(len(ks) - 1)
            a, b = cms[ks[i]], cms[ks[i + 1]]
            if a.equals(b) and a.get_axes(()) == b.get_axes(()):
                raise Skip
            ca, cb = a.copy(), b.copy()
            y.set_construct(cb, key=ks[i])
            y.set_construct(ca, key=ks[i + 1])
        else:
            raise fw.HarnessError(kind)
        return y, info
    if kind.startswith("ref:"):
        how = kind[4:]
        y = x.copy()
        refs = y.coordinate_references(todict=True)
        if not refs:
            raise Skip
        k = rng.choice(sorted(refs))
        r = refs[k]
        if how == "remove":
            y.del_construct(k)
        elif how in ("param", "datum"):
            comp = r.coordinate_conversion if how == "param" else r.datum
            perturb_parameter(comp, rng)
        elif how == "coords:remove":
            cs = sorted(r.coordinates())
            if not cs:
                raise Skip
            r.del_coordinate(rng.choice(cs))
        elif how == "coords:replace":
            cs = sorted(r.coordinates())
            allc = sorted(y.constructs.filter_by_type("dimension_coordinate", "auxiliary_coordinate", todict=True))
            others = [c for c in allc if c not in cs]
            if not cs or not others:
                raise Skip
            r.del_coordinate(rng.choice(cs))
            r.set_coordinate(rng.choice(others))
        elif how == "ancillary":
            da = r.coordinate_conversion.domain_ancillaries()
            anc = sorted(y.constructs.filter_by_type("domain_ancillary", todict=True))
            if da and rng.random() < 0.7:
                t = rng.choice(sorted(da))
                others = [a for a in anc if a != da[t]]
                if da[t] is not None and (not others or rng.random() < 0.4):
                    r.coordinate_conversion.set_domain_ancillary(t, None)
                elif others:
                    r.coordinate_conversion.set_domain_ancillary(t, rng.choice(others))
                else:
                    raise Skip
            elif anc:
                r.coordinate_conversion.set_domain_ancillary("zterm", rng.choice(anc))
            else:
                r.coordinate_conversion.set_domain_ancillary("zterm", None)
        else:
            raise fw.HarnessError(kind)
        return y, info
    if kind == "construct:remove":
        y = x.copy()
        cs = sorted(y.constructs.filter_by_data(todict=True))
        if not cs:
            raise Skip
        k = rng.choice(cs)
        for rk, r in y.coordinate_references(todict=True).items():
            r.del_coordinate(k, None)
            for t, v in r.coordinate_conversion.domain_ancillaries().items():
                if v == k:
                    r.coordinate_conversion.set_domain_ancillary(t, None)
        info.update(role=y.constructs[k].construct_type, refs_touched=any(
            k in r.coordinates() or k in r.coordinate_conversion.domain_ancillaries().values()
            for r in x.coordinate_references(todict=True).values()))
        y.del_construct(k)
        return y, info
    if kind == "construct:add":
        y = x.copy()
        axes = y.domain_axes(todict=True)
        k = rng.choice(sorted(axes))
        n = axes[k].get_size()
        cls = rng.choice([C.AuxiliaryCoordinate, C.DomainAncillary, C.CellMeasure] + ([C.FieldAncillary] if isinstance(y, C.Field) else []))
        c = cls(properties={"long_name": "added"}, data=C.Data(np.arange(float(n)) + 50))
        y.set_construct(c, axes=[k])
        info.update(role=c.construct_type)
        return y, info
    if kind == "axis:add":
        y = x.copy()
        y.set_construct(C.DomainAxis(rng.choice([1, 2, 5])))
        return y, info
    if kind == "axis:sizeless":
        y = x.copy()
        y.set_construct(C.DomainAxis())
        return y, info

    # ---- standalone non-array classes
    if kind.startswith("sa:"):
        how = kind[3:]
        y = x.copy()
        if isinstance(x, C.CellMethod):
            if how == "method":
                y.set_method("median" if x.get_method(None) != "median" else "mode")
            elif how == "qualifier":
                y.set_qualifier("where", "ice" if x.get_qualifier("where", None) != "ice" else "sea")
            elif how == "interval":
                iv = x.get_qualifier("interval", None)
                if iv and rng.random() < 0.4:
                    # another NUMBER of intervals, the common ones unchanged
                    y.set_qualifier("interval", list(iv) + [iv[-1].copy()] if len(iv) == 1 or rng.random() < 0.5 else list(iv[:-1]))
                elif iv:
                    y.set_qualifier("interval", [C.Data(far_value(float(iv[0].array)), units=iv[0].get_units(None))] + list(iv[1:]))
                else:
                    y.set_qualifier("interval", [C.Data(3.0, units="m")])
            elif how == "axes":
                y.set_axes(["zz_axis"])
                info["documented_blind"] = True
            else:
                raise Skip
        elif isinstance(x, C.CoordinateReference):
            if how in ("param", "datum"):
                comp = y.coordinate_conversion if how == "param" else y.datum
                perturb_parameter(comp, rng)
            elif how == "coords:replace":
                cs = sorted(x.coordinates())
                if not cs:
                    raise Skip
                y.del_coordinate(cs[0])
                y.set_coordinate("zz_coordinate")
                info["documented_blind"] = True
            elif how == "coords:remove":
                cs = sorted(x.coordinates())
                if not cs:
                    raise Skip
                y.del_coordinate(cs[0])
            elif how == "ancillary":
                y.coordinate_conversion.set_domain_ancillary("zterm", "zz_key")
            else:
                raise Skip
        elif isinstance(x, (C.Datum, C.CoordinateConversion)):
            if how == "param":
                perturb_parameter(y, rng)
            else:
                raise Skip
        elif isinstance(x, C.DomainAxis):
            if how == "size":
                y.set_size((x.get_size(0) or 0) + 1)
            elif how == "sizeless":
                if not x.has_size():
                    raise Skip
                y.del_size()
            else:
                raise Skip
        else:
            raise Skip
        return y, info

    if kind == "uncompress":
        if not hasattr(x, "uncompress") or not (x.data if is_fd else x).get_compression_type():
            raise Skip
        return x.uncompress(), info
    if kind == "compress":
        f = ctx["field"]
        if not isinstance(f, C.Field) or not (x is f or (isinstance(x, C.Data) and ctx["sel"] == ("data", None))):
            raise Skip
        if f.data.get_compression_type():
            raise Skip
        try:
            g = f.compress(rng.choice(["contiguous", "indexed", "indexed_contiguous"]))
        except Exception:
            raise Skip
        if not g.data.get_compression_type() or ctx["base"][0] != "ex" or ctx["base"][1] not in (3, 4):
            raise Skip  # only the DSG example fields: compress() is not meaning-preserving elsewhere

        def same_array(p, q):
            p, q = np.ma.asanyarray(p), np.ma.asanyarray(q)
            return p.shape == q.shape and p.dtype == q.dtype and bool((np.ma.getmaskarray(p) == np.ma.getmaskarray(q)).all()) \
                and bool(np.ma.allequal(p, q))

        # the uncompressed view must be unchanged (numpy-only check), else this is not a pure change of compression
        if not same_array(f.array, g.array) or any(
                c.has_data() and not same_array(c.array, g.constructs[k].array)
                for k, c in data_constructs(f)):
            raise Skip
        return (g if x is f else g.data), info

    if kind.startswith("other:"):
        what = kind[6:]
        if what == "int":
            return 3, info
        if what == "str":
            return "not a construct", info
        if what == "none":
            return None, info
        if what == "ndarray":
            return np.arange(3.0), info
        f = ctx["field"]
        pool = {
            "field": lambda: example(0), "domain": lambda: example(0).domain,
            "data": lambda: C.Data(np.arange(4.0)), "cm": lambda: C.CellMethod(axes=["area"], method="mean"),
            "ref": lambda: C.CoordinateReference(coordinates=["x"]), "axis": lambda: C.DomainAxis(3),
            "dim": lambda: example(0).dimension_coordinate("latitude"), "bounds": lambda: example(0).dimension_coordinate("latitude").bounds,
            "aux2d": lambda: example(1).auxiliary_coordinate("latitude"), "measure": lambda: example(1).cell_measure(),
            "fanc": lambda: example(1).field_ancillary(), "datum": lambda: C.Datum(parameters={"earth_radius": 1.0}),
        }
        y = pool[what]()
        if type(y) is type(x):
            raise Skip
        return y, info
    if kind == "unrelated":
        # another object of the same class that differs in a way no option can hide
        base = ctx["base"]
        if base[0] not in ("ex", "exdom"):
            raise Skip
        f = ctx["field"]
        if is_fd:
            n2 = (base[1] + 1 + rng.randrange(7)) % 8
            g = example(n2)
            y = g if isinstance(x, C.Field) else g.domain
            if x.shape == y.shape if isinstance(x, C.Field) else False:
                raise Skip
            return y, info
        if isinstance(x, C.Data):
            others = [select(f, sl) for sl in selectors(f, rng) if sl[0] == "data"]
            others = [d for d in others if d.shape != x.shape]
        else:
            others = [c for _, c in all_constructs(f) if type(c) is type(x) and c is not x]
            if getattr(x, "construct_type", None) in ROLE:
                others = [c for c in others if c.get_property("standard_name", c.get_property("long_name", None)) !=
                          x.get_property("standard_name", x.get_property("long_name", None)) or c.shape != x.shape]
            elif isinstance(x, C.CellMethod):
                others = [c for c in others if c.get_method(None) != x.get_method(None)]
            elif isinstance(x, C.CoordinateReference):
                others = [c for c in others if set(c.coordinate_conversion.parameters()) != set(x.coordinate_conversion.parameters())]
            elif isinstance(x, C.DomainAxis):
                others = [c for c in others if c.get_size(None) != x.get_size(None)]
            else:
                others = []
        if not others:
            raise Skip
        return rng.choice(others).copy(), info
    raise fw.HarnessError("unknown kind " + kind)


def ignored_at(where, e, x):
    """Property names that `equals` must ignore at nesting level `where` of x."""
    C = cfdm()
    s = set()
    if e["ifv"]:
        s |= {"_FillValue", "missing_value"}
    if where == "top":
        s |= ip_names(e["ip"])
        if isinstance(x, (C.Field, C.Domain)):
            s.add("Conventions")
    return s


def expected(kind, info, e, x, y):
    """The verdict the property demands, by construction of y: 'True', 'False' or 'noraise'."""
    if kind in ("same", "copy", "subspace", "rename", "reorder", "rename+reorder", "ncnames") or kind.startswith(("ncvar:", "hidden:")):
        return "True"
    if kind.startswith("prop"):
        # a construct's data take their fill value from the missing_value/_FillValue property:
        # that derived difference is named by ignore_fill_value only
        if info["fill_changed"] and not e["ifv"]:
            return "False"
        # likewise the units and calendar of the data are derived from the properties of those names: a
        # component of the data that no option names
        if info.get("units_changed"):
            return "False"
        return "True" if info["pname"] in ignored_at(info["where"], e, x) else "False"
    head = kind.split(":")[0]
    if head == "within" or (head == "datum" and "moved" in info):
        at, rt = tol_fracs(e)
        ok = all(abs(Fraction(u) - Fraction(v)) <= at + rt * abs(Fraction(v)) for u, v in info["moved"])
        return "True" if ok else "False"
    if head == "dtype":
        return "True" if e["idt"] else "False"
    if head == "fill":
        return "True" if e["ifv"] else "False"
    if kind in ("compress", "uncompress"):
        return "True" if e["ic"] else "False"
    if kind == "retype":
        return "True" if e["it"] else "False"
    if info.get("documented_blind"):
        return "True"
    if kind == "sa:qualifier" and e.get("iq") and "where" in e["iq"]:
        return "True"
    if kind == "sa:interval" and e.get("iq") and "interval" in e["iq"]:
        return "True"
    if kind.startswith("other:"):
        return "noraise" if e["it"] else "False"
    return "False"


# kinds and where they apply
KINDS_ANY = ["same", "copy", "copy", "ncnames", "unrelated", "unrelated", "compress", "other:int", "other:str", "other:none", "other:ndarray", "other:field", "other:domain",
             "other:data", "other:cm", "other:ref", "other:axis", "other:dim", "other:bounds", "other:aux2d", "other:measure",
             "other:fanc", "other:datum"]
KINDS_PD = ["prop:top", "prop:top", "prop:top", "datum:top", "datum:top", "within:top", "within:top", "within:top", "mask:top", "dtype:top", "dtype:top", "shape:top",
            "fill:top", "fill:top", "units:top", "calendar:top", "data:remove",
            "prop:bounds", "datum:bounds", "mask:bounds", "dtype:bounds", "fill:bounds", "units:bounds", "within:bounds",
            "bounds:remove", "bounds:add", "geometry", "ring:datum", "ring:remove", "measure", "external", "retype", "retype",
            "hidden:top", "hidden:bounds", "hidden:ring", "mask:ring", "datum:ring", "dtype:ring", "prop:ring",
            "ncvar:set:top", "ncvar:del:top", "ncvar:set:bounds", "ncvar:del:bounds", "tag:top"]
KINDS_FD = ["subspace", "rename", "rename", "reorder", "reorder", "rename+reorder", "rename+reorder",
            "prop:con", "prop:con", "prop:conbounds", "datum:con", "datum:con", "within:con", "within:con", "within:con", "mask:con", "dtype:con", "fill:con", "units:con",
            "datum:conbounds", "mask:conbounds", "dtype:conbounds", "fill:conbounds",
            "hidden:con", "hidden:conbounds", "hidden:conring", "mask:conring", "datum:conring", "prop:conring",
            "ncvar:set:con", "ncvar:set:con", "ncvar:del:con", "ncvar:del:con", "ncvar:set:conbounds", "ncvar:del:conbounds", "tag:con",
            "unbound:con", "unring:con", "geom:con",
            "axes", "axes", "dataaxes", "cm:method", "cm:qualifier", "cm:interval", "cm:axes", "cm:remove", "cm:add", "cm:order",
            "ref:param", "ref:datum", "ref:coords:remove", "ref:coords:replace", "ref:ancillary", "ref:remove",
            "construct:remove", "construct:remove", "construct:add", "construct:add", "axis:add", "axis:sizeless"]
KINDS_SA = ["sa:method", "sa:qualifier", "sa:interval", "sa:axes", "sa:param", "sa:datum", "sa:coords:replace", "sa:coords:remove",
            "sa:ancillary", "sa:size", "sa:sizeless"]


def kinds_for(x):
    C = cfdm()
    fam = family(x)
    if isinstance(x, (C.Field, C.Domain)):
        return KINDS_ANY + KINDS_PD[:15] + KINDS_FD + KINDS_FD
    if fam == "pd":
        return KINDS_ANY + KINDS_PD + KINDS_PD
    if fam == "data":
        return KINDS_ANY + ["datum:top", "within:top", "mask:top", "hidden:top", "dtype:top", "shape:top", "fill:top", "units:top", "calendar:top"] * 3
    return KINDS_ANY + KINDS_SA * 3


# =========================================================================
# cases
# =========================================================================
_live = {}


# The systematic part: perturbation family x data kind x level, each drawn uniformly, on the grid field
GRID_FAMILIES = ["datum", "datum", "mask", "mask", "hidden", "hidden", "dtype", "within", "shape", "prop", "ncvar:set", "ncvar:del",
                 "tag", "copy", "fill", "units", "calendar", "unbound", "unring", "geom"]
GRID_LEVELS = ["data", "con", "con", "bounds", "boundsobj", "ring", "ringobj", "field", "fcon", "fcon", "fbounds", "fring",
               "dcon", "dbounds", "dring"]
BOUNDED_ROLES = ["dim", "aux", "geom", "domanc"]


def gen_grid(rng):
    """A payload of the grid family, or None when the drawn combination does not exist."""
    fam = rng.choice(GRID_FAMILIES)
    lvl = rng.choice(GRID_LEVELS)
    dk = rng.choice(DATA_KINDS)
    if fam in ("fill", "units", "calendar"):
        lvl = "data"
    if fam in ("tag", "unbound", "unring", "geom"):
        lvl = rng.choice(["con", "fcon", "dcon"])
    if fam == "shape" and lvl not in ("data", "con", "boundsobj", "ringobj"):
        lvl = rng.choice(["data", "con", "boundsobj", "ringobj"])
    if lvl in ("bounds", "boundsobj", "fbounds", "dbounds"):
        role = rng.choice(BOUNDED_ROLES)
    elif lvl in ("ring", "ringobj", "fring", "dring"):
        role = "geom"
    elif lvl == "field":
        role = "field"
    elif fam == "tag":
        role = rng.choice(["measure", "topology", "topology", "connectivity", "connectivity"])
    elif fam == "unbound":
        role = rng.choice(BOUNDED_ROLES)
    elif fam == "unring":
        role = "geom"
    elif fam == "geom":
        role = rng.choice(["geom", "geom", "dim", "aux", "domanc"])
    else:
        role = rng.choice(GRID_ROLES)
    indom = lvl.startswith("d") and lvl != "data"
    if indom and role == "fanc":
        role = "aux"
    base = ["griddom" if indom else "grid", rng.randrange(1 << 30), role, dk]
    keys = grid_keys(base)
    key = keys.get(role)
    where = {"data": "top", "con": "top", "boundsobj": "top", "ringobj": "top", "field": "top", "bounds": "bounds", "ring": "ring",
             "fcon": "con", "dcon": "con", "fbounds": "conbounds", "dbounds": "conbounds", "fring": "conring", "dring": "conring"}[lvl]
    sel = {"data": ["data", key], "con": ["con", key], "bounds": ["con", key], "ring": ["con", key], "boundsobj": ["bounds", key],
           "ringobj": ["ring", key]}.get(lvl, ["self"])
    if lvl == "data" and rng.random() < 0.3:
        # the Data of the bounds / of the field instead of the construct's
        sel = ["data", None] if rng.random() < 0.4 and not indom else sel
    kind = "copy" if fam == "copy" else fam + ":" + where
    pname = rng.choice(PERTURB_PROP_NAMES) if fam == "prop" else None
    target = key if where in ("con", "conbounds", "conring") else None
    return dict(base=base, sel=sel, kind=kind, pname=pname, target=target, grid=[fam, dk, lvl])


def prop_opts(rng, opts, pname):
    """'Each ignore option removes exactly its own class': for a perturbed property, ignore_properties names
    it in every accepted form - or names ANOTHER property in every form (then the perturbed one must still
    count, except the names that are always ignored: Conventions on a field or domain, the fill-value names
    under ignore_fill_value) - alone and together with ignore_fill_value."""
    r = rng.random()
    if r < 0.35:
        opts["ip"] = rng.choice([["s", pname], ["s", pname], ["t", [pname]], ["l", [pname]], ["t", ["zzz", pname]]])
        opts["ifv"] = rng.random() < 0.5
    elif r < 0.6:
        other = rng.choice([n for n in ("zzz", "long_name", "comment", "foo") if n != pname])
        opts["ip"] = rng.choice([["s", other], ["t", [other]], ["l", [other]], ["t", ["zzz", other]], ["l", [other, "units"]]])
        opts["ifv"] = rng.random() < 0.5


def _mk(p, leaf=False):
    """mk_case, with anything unexpected turned into a harness error (exit 2, never a bare traceback)."""
    try:
        return c05leaf.mk_case(p) if leaf else mk_case(p)
    except fw.HarnessError:
        raise
    except Exception as ex:
        import traceback
        raise fw.HarnessError("building a case raised %r for payload %s\n%s" % (ex, json.dumps(p, default=str)[:600], traceback.format_exc()[-1200:]))


def gen(rng, tier, n):
    C = cfdm()
    made = 0
    attempts = 0
    while made < n and attempts < 20 * n + 100:
        attempts += 1
        r0 = rng.random()
        if r0 < 0.18:
            c = _mk(c05leaf.gen_payload(rng), leaf=True)
            made += 1
            yield c
            continue
        if r0 < 0.45:
            p = gen_grid(rng)
            if p["grid"][0] == "tag" and p["base"][2] != "measure" and rng.random() < 0.85:
                continue  # ends in the open finding on the cell / connectivity type: kept, thinned
            kind, pname = p["kind"], p["pname"]
            opts = gen_opts(rng, pname)
            if kind.startswith("prop") and pname:
                prop_opts(rng, opts, pname)
            if kind.startswith("within") and rng.random() < 0.5:
                opts["rtol"] = rng.choice([0.0, 0.0, 2.0 ** -10])
                opts["atol"] = rng.choice([0.0, 0.0, 0.5])
            p.update(opts=opts, tseed=rng.randrange(1 << 30), swap=rng.random() < 0.3)
            c = _mk(p)
            if c is None:
                continue
            made += 1
            yield c
            continue
        if r0 < 0.50:
            # classes that are nothing but properties (and data); compressed fields
            if rng.random() < 0.6:
                base, sel = ["ex", 0], ["misc", rng.choice(MISC_CLASSES), rng.randrange(1 << 30)]
                kind = rng.choice(["same", "copy", "copy", "prop:top", "prop:top", "prop:top", "datum:top", "mask:top", "hidden:top", "dtype:top",
                                   "shape:top", "data:remove", "ncvar:set:top", "ncvar:del:top", "other:bounds", "other:int", "unrelated"])
                if kind.split(":")[0] in ("datum", "mask", "hidden", "dtype", "shape", "data") and sel[1].endswith("Properties"):
                    kind = "prop:top"
            else:
                base = ["excomp", rng.choice([3, 3, 4]), rng.choice(["contiguous", "indexed", "indexed_contiguous"])]
                sel = ["self"] if rng.random() < 0.7 else ["data", None]
                kind = rng.choice(["same", "copy", "copy", "copy", "uncompress", "uncompress", "uncompress", "datum:top", "mask:top", "ncnames"]
                                  + (["prop:top", "prop:con", "cm:method", "rename"] if sel == ["self"] else []))
            pname = rng.choice(PERTURB_PROP_NAMES) if kind.startswith("prop") else None
            opts = gen_opts(rng, pname)
            if base[0] == "excomp" and rng.random() < 0.6:
                opts["ic"] = False
            p = dict(base=base, sel=sel, kind=kind, pname=pname, opts=opts, tseed=rng.randrange(1 << 30), swap=rng.random() < 0.3)
            c = _mk(p)
            if c is None:
                continue
            made += 1
            yield c
            continue
        r = rng.random()
        if r < 0.35:
            base = ["ex", rng.choice([0, 1, 1, 1, 2, 3, 4, 6, 6, 7, 7, 8, 8, 9, 10, 11] + ([5] if tier == "thorough" else []))]
        elif r < 0.42:
            base = ["exdom", rng.choice([0, 1, 1, 3, 6, 7, 8, 10])]
        elif r < 0.9:
            base = ["rand", rng.randrange(1 << 30)]
        else:
            base = ["randdom", rng.randrange(1 << 30)]
        bare = rng.random() < 0.04
        if bare:
            base = ["bare", rng.randrange(1 << 30)]
        f = base_field(base)
        sels = selectors(f, rng)
        sel = ["self"] if (bare or rng.random() < 0.5) else list(rng.choice(sels))
        x = select(f, sel)
        kind = rng.choice(["axes", "axes", "axes", "axes", "axes", "dataaxes", "rename+reorder", "rename+reorder", "copy"]) if bare else rng.choice(kinds_for(x))
        # kinds that mostly end in one open finding are kept, but thinned (DESIGN §8: a large share of
        # known-finding cases dilutes the check)
        if kind in ("dataaxes", "axis:sizeless") and rng.random() < 0.75:
            continue
        pname = rng.choice(PERTURB_PROP_NAMES) if kind.startswith("prop") else None
        if kind == "prop:top" and isinstance(x, (C.Field, C.Domain)) and rng.random() < 0.2:
            pname = "Conventions"
        opts = gen_opts(rng, pname)
        if kind.startswith("other:") and opts["it"] and rng.random() < 0.8:
            opts["it"] = False
        if kind.startswith("prop") and pname:
            prop_opts(rng, opts, pname)
        if kind.startswith("within") and rng.random() < 0.5:
            # explicit tolerances, zero included, are what "within tolerance" is about
            opts["rtol"] = rng.choice([0.0, 0.0, 2.0 ** -10])
            opts["atol"] = rng.choice([0.0, 0.0, 0.5])
        p = dict(base=base, sel=sel, kind=kind, pname=pname, opts=opts, tseed=rng.randrange(1 << 30), swap=rng.random() < 0.3)
        c = _mk(p)
        if c is None:
            continue
        made += 1
        yield c


def build_pair(p):
    f = base_field(p["base"])
    x = select(f, tuple(p["sel"]))
    trng = fw.rng_for(p["tseed"], "C05t")
    ctx = dict(field=f, pname=p.get("pname"), base=p["base"], sel=tuple(p["sel"]), target=p.get("target"))
    y, info = transform(x, p["kind"], trng, ctx)
    if ctx.get("hit") is not None:
        info.setdefault("hit", ctx["hit"])
    return x, y, info


def mk_case(p):
    try:
        x, y, info = build_pair(p)
    except Skip:
        return None
    except fw.HarnessError:
        raise
    except Exception as ex:
        import traceback
        raise fw.HarnessError("building a case raised %r for payload %s\n%s" % (ex, json.dumps(p, default=str)[:600], traceback.format_exc()[-1200:]))
    kind = p["kind"]
    swap = bool(p.get("swap")) and hasattr(y, "equals") and kind != "same"
    a, b = (y, x) if swap else (x, y)
    e = effective(a, p["opts"])
    # tolerance statements are directional (|x - y| <= atol + rtol*|y|): with the operands swapped the
    # moved pairs are read the other way round
    if swap and "moved" in info:
        info = dict(info, moved=[(v, u) for u, v in info["moved"]])
    exp = expected(kind, info, effective(x, p["opts"]) if not swap else e, x, y)
    if swap and kind == "retype":
        # converting x's class to y's class must also preserve the content
        exp = "True" if e["it"] else "False"
    line = None
    try:
        ab = Ab()
        tx = ab.obj(a)
        ty = ab.obj(b)
        at, rt = tol_fracs(e)
        k = scale_of(ab.fracs)
        ot = opts_tree(ab, e, k)
        line = f"C05.eq o={render(ot, k)} x={render(tx, k)} y={render(ty, k)} same={1 if kind == 'same' else 0}"
        if e.get("iq") is not None:
            iq = [n for n in e["iq"] if n != "interval"]
            line += " iq=" + render((int("interval" in e["iq"]), tuple(ab.name(n) for n in iq)), k)
    except Unrepresentable:
        line = None
    tags = ["kind:" + kind, "x:" + type(a).__name__, "expect:" + exp]
    if swap:
        tags.append("swapped")
    if info.get("dk"):
        tags.append("dk:" + info["dk"])
        tags.append("cell:%s/%s/%s" % (kind.split(":")[0], info["dk"], info.get("where")))
    if info.get("nameless"):
        tags.append("nameless-target")
    if info.get("tclass"):
        tags.append("target:" + info["tclass"])
    if p.get("grid"):
        tags.append("grid")
        tags.append("grid-level:" + p["grid"][2])
        tags.append("grid-role:" + p["base"][2])
    for name, key in (("idt", "idt"), ("ifv", "ifv"), ("it", "it")):
        if e[key]:
            tags.append("opt:" + name)
    if not e["ic"]:
        tags.append("opt:ic=False")
    if e["ip"] is not None:
        tags.append("opt:ip=" + e["ip"][0])
    if e["rtol"] is not None or e["atol"] is not None:
        tags.append("opt:tol")
    if p["opts"]["verbose"] is not None:
        tags.append("opt:verbose")
    if e.get("iq") is not None:
        tags.append("opt:iq")
    if line is None:
        tags.append("oracle-only")
    key = repr((p["base"], p["sel"], kind, p.get("pname"), sorted(p["opts"].items(), key=str), p["tseed"], swap))
    c = Case("C05.eq", p, line, key=key, nontrivial=kind != "same", tags=tags)
    _live[id(c)] = (a, b, exp, info)
    return c


def extra_coverage(run):
    """How the systematic part of the generator covered (perturbation family x data kind x level)."""
    cells = {k[5:]: v for k, v in run.dist.items() if k.startswith("cell:")}
    fams = sorted({c.split("/")[0] for c in cells})
    kinds = sorted({c.split("/")[1] for c in cells})
    levels = sorted({c.split("/")[2] for c in cells})
    return dict(
        grid_cells_hit=len(cells),
        grid_axes=dict(families=fams, data_kinds=kinds, levels=levels),
        grid_family_by_kind={f: {k: sum(v for c, v in cells.items() if c.startswith(f + "/" + k + "/")) for k in kinds} for f in fams},
        cases_ending_in_an_oracle_failure=len(run.failures),
        share_of_cases_ending_in_an_oracle_failure=round(len(run.failures) / max(1, run.evaluations), 4),
    )


def from_payload(stream, payload):
    if stream == "C05.leaf":
        return c05leaf.mk_case(payload)
    c = mk_case(payload)
    if c is None:
        raise fw.HarnessError("payload does not build a case")
    return c


# =========================================================================
# implementation, agreement, oracle
# =========================================================================
def show(r):
    if r is True:
        return "True"
    if r is False:
        return "False"
    return "nonbool:" + type(r).__name__


def impl(c):
    if c.stream == "C05.leaf":
        return c05leaf.impl(c)
    live = _live.pop(id(c), None)
    if live is None:
        cc = mk_case(c.payload)
        live = _live.pop(id(cc))
        c.line = cc.line
    a, b, exp, info = live
    kw = kwargs_for(a, c.payload["opts"])
    c.extra = exp
    try:
        r = a.equals(b, **kw)
    except Exception as ex:
        return "raised:" + fw.exc_enum(ex)
    return show(r)


def agree(c):
    if c.model_out == "unmodelled":
        return True
    return c.impl_out == c.model_out


def oracle(c):
    if c.stream == "C05.leaf":
        return c05leaf.oracle(c)
    exp = c.extra
    if exp is None:
        return "expected verdict missing"
    if exp == "noraise":
        if c.impl_out in ("True", "False"):
            return None
        return f"equals must answer True/False, got {c.impl_out}"
    if c.impl_out != exp:
        return f"expected {exp} by construction ({c.payload['kind']}), got {c.impl_out}"
    return None


# =========================================================================
# findings
# =========================================================================
def _fingerprint(c):
    """Key-free content of a metadata construct."""
    return Ab().construct(c)


def _structure(f):
    """Facts about a field the signatures are stated in."""
    C = cfdm()
    da = f.constructs.data_axes()
    cons = f.constructs.filter_by_data(todict=True)
    groups = {}
    for k, c in cons.items():
        groups.setdefault(da[k], []).append(k)
    try:
        fp = {k: _fingerprint(c) for k, c in cons.items()}
    except Unrepresentable:
        fp = {k: repr(c) for k, c in cons.items()}
    gfp = {ax: sorted((cons[k].construct_type, repr(fp[k])) for k in ks) for ax, ks in groups.items()}
    ambiguous_groups = any(len(a) == len(b) and gfp[a] == gfp[b] for a, b in itertools.combinations(groups, 2))
    ambiguous_constructs = any(
        cons[a].construct_type == cons[b].construct_type and fp[a] == fp[b]
        for ks in groups.values() for a, b in itertools.combinations(ks, 2))
    spanned = set(a for ax in groups for a in ax)
    axes = set(f.domain_axes(todict=True))
    cms = list(f.cell_methods(todict=True).values()) if isinstance(f, C.Field) else []
    cm_unspanned_key = any(a in axes and a not in spanned for m in cms for a in m.get_axes(()))
    cm_mixed = any(
        any(a not in spanned and any(b in spanned for b in m.get_axes(())[i + 2:]) for i, a in enumerate(m.get_axes(())))
        for m in cms)
    return dict(ambiguous=ambiguous_groups or ambiguous_constructs, cm_unspanned_key=cm_unspanned_key, cm_mixed=cm_mixed,
                roles=set(c.construct_type for c in cons.values()), sizeless=any(a.get_size(None) is None for a in f.domain_axes(todict=True).values()))


def _domain_isomorphic(x, y):
    """Exact test (all size-preserving bijections of the domain axes, no use of cfdm.equals): do the
    metadata constructs of x and y agree, with their axes, under some renaming of the domain axes?"""
    from harness import fingerprint as fp
    ax = {k: a.get_size(None) for k, a in x.domain_axes(todict=True).items()}
    ay = {k: a.get_size(None) for k, a in y.domain_axes(todict=True).items()}
    if sorted(map(str, ax.values())) != sorted(map(str, ay.values())) or len(ax) > 6:
        return False

    def cons(f):
        da = f.constructs.data_axes()
        out = []
        for t_ in ("dimension_coordinate", "auxiliary_coordinate", "cell_measure", "field_ancillary", "domain_ancillary",
                   "domain_topology", "cell_connectivity"):
            for k, c_ in f.constructs.filter_by_type(t_, todict=True).items():
                out.append((json.dumps(fp.fp_construct(c_, names=False), sort_keys=True, default=str), tuple(da.get(k, ()))))
        return out

    cx, cy = cons(x), cons(y)
    if len(cx) != len(cy):
        return False
    kx, ky = list(ax), list(ay)
    target = sorted(cy)
    for perm in itertools.permutations(ky):
        m = dict(zip(kx, perm))
        if any(ax[a] != ay[m[a]] for a in kx):
            continue
        if sorted((s, tuple(m[a] for a in axes)) for s, axes in cx) == target:
            return True
    return False


def classify(c):
    """Signature of a known defect, or a coarse label that merely groups unlisted failures
    (such a label is in no known_findings entry, so it is still reported as a VIOLATION)."""
    if c.stream == "C05.leaf":
        return c05leaf.classify(c)
    sig = _classify(c)
    if sig:
        return sig
    exp = c.extra if isinstance(c.extra, str) and len(c.extra) < 10 else "?"
    return f"unlisted:{c.payload['kind']}:got-{c.impl_out}:expected-{exp}"


def _classify(c):
    C = cfdm()
    p = c.payload
    o = p["opts"]
    kind = p["kind"]
    out = str(c.impl_out)
    exp = c.extra if isinstance(c.extra, str) and len(c.extra) < 10 else None
    if out == "raised:TypeError" and o["ifv"]:
        return "ignore_fill_value-concatenated-to-None-or-str-ignore_properties"
    if out == "raised:TypeError" and kind in ("cm:remove", "cm:add"):
        return "different-numbers-of-cell-methods-logger-not-callable"
    if out.startswith("raised:") and o["it"] and kind.startswith("other:"):
        return "ignore_type-conversion-of-incompatible-object-raises"
    if out == "raised:AttributeError" and o["it"] and kind == "retype":
        return "ignore_type-unconverted-other-used-after-conversion"
    try:
        x, y, info = build_pair(p)
    except Exception:
        return None
    if kind.startswith("tag:") and out == "True" and info.get("tclass") in ("DomainTopology", "CellConnectivity"):
        return "domain-topology-cell-or-connectivity-type-not-compared"
    if not isinstance(x, (C.Field, C.Domain)):
        return None
    sx = _structure(x)
    sy = _structure(y) if isinstance(y, (C.Field, C.Domain)) else None
    if out == "raised:ValueError" and sy and (sx["sizeless"] or sy["sizeless"]):
        return "domain-axis-without-size-get_size-raises"
    if kind in ("rename", "reorder", "rename+reorder"):
        if sx["ambiguous"]:
            return "identical-constructs-on-two-axes-or-keys-matched-greedily-without-backtracking"
        if "rename" in kind and sx["cm_unspanned_key"] and out == "False":
            return "cell-method-axis-without-data-constructs-compared-by-key"
    if exp == "True" and sx["cm_mixed"] and out == "False":
        return "cell-method-axes-unmatched-axis-two-places-before-matched-axis"
    if kind == "axes" and out in ("raised:ValueError", "raised:KeyError"):
        return "ambiguous-axis-mapping-message-raises"
    if kind == "dataaxes" and out == "True":
        return "field-data-axes-not-compared"
    if kind == "axes" and out == "True" and sy and _domain_isomorphic(x, y):
        # moving a construct between interchangeable axes gives an isomorphic DOMAIN; only the field's
        # data axes tell the two apart, and those are what the known finding says are never compared
        return "field-data-axes-not-compared"
    if kind in ("construct:add", "construct:remove") and out == "True" and sy:
        role = info.get("role")
        if role and (role not in sx["roles"] or role not in sy["roles"]):
            return "construct-of-a-type-the-other-lacks-break-then-not-constructs1"
    return None
