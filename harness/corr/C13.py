"""C13 — structurally non-compliant datasets are read, and reported.

Streams (every case is: an abstract valid dataset F, hand-written with netCDF4 only, and one fault)
  C13.fault   F x EVERY reference-token site of every referencing attribute x {missing, foreign, removed,
              foreign-shared (an existing variable that ANOTHER variable validly names in the same attribute,
              with dimensions foreign to this parent: reader caches, both creation orders), foreign-data
              (another DATA variable with foreign dimensions: its own field must still be returned)}
              (exhaustive per file, not sampled).  F comes from four templates: gridded (bounds,
              climatology, auxiliary / scalar / string coordinates, formula terms incl. bounds formula
              terms, simple and extended grid mappings, internal and external cell measures, ancillary
              variables, cell methods), DSG ragged (contiguous, indexed, indexed contiguous), gathered,
              geometry (node_coordinates, node_count, part_node_count, interior_ring, nodes)
  C13.mal     F x every cell_methods / formula_terms / cell_measures / grid_mapping attribute x a family
              of malformed strings
  C13.wfault  as C13.fault for files written by cfdm.write from harness/gen/fields.py fields and then
              abstracted through netCDF4 (the model sees what netCDF4 sees)
  C13.valid   F itself (no fault): model vs cfdm on the attached elements; never raises, files closed
  C13.group   (oracle only: the flattener is not modelled) the gridded / gathered / geometry templates with
              every dimension and variable inside one group, the same sites x faults
  C13.tok     (level 2, drift only) `_parse_x`, `_split_string_by_white_space`, `_parse_cell_methods`
              of the real reader vs the model's tokenisers on random strings over a small alphabet

Observed per case (the property's clauses): raised? (enum) / for every data variable of F: the field is
returned, its array equals the valid file's, which elements are attached (netCDF variable name ->
construct type; bounds as separate elements), dataset_compliance() non-empty / descriptors open on
the file after the call (/proc/self/fd).  Message texts are never compared.

The model line (`old=2`) carries the model of the reader at /repo HEAD with the proposed, not yet
merged patches (`patched`: fixes/C13-cell-method-interval-attribute, -grid-mapping-coordinate-not-used,
-node-coordinates-report-with-coordinate, -auxiliary-coordinate-cache-per-geometry) and the model of
HEAD as it is (`head`: the eight earlier C13 repairs and 7931fa5 are merged); `agree` accepts either,
so that the check is quiet on the repository with and without the proposed patches; the oracle
decides.  The models of the code before the merged repairs (`old=3`) are for diagnostics only.
"""
import atexit
import json
import os
import shutil
import tempfile
import urllib.parse
import zlib

import numpy as np

from .. import fw
from ..fw import Case
from ..gen import ncfiles_C13 as G

REQUIRED = [
    "C13_never_raises",
    "C13_field_never_raises",
    "C13_files_closed",
    "C13_coded_raises_and_leaks",
    "C13_cell_methods_total",
    "C13_coded_cell_methods_raise",
    "C13_malformed_mapping_reported",
    "C13_tokens_tolerant",
    "C13_ancillary_tolerant",
    "C13_coded_all_or_nothing",
    "C13_tolerant_partial",
    "C13_rejected_coordinate_not_referenced",
    "C13_unreferenced_field_returned",
    "C13_withheld_fields_are_referenced",
    "C13_report_only_grows",
    "C13_bounds_messages_filed_under_coordinate",
    "C13_broken_coordinate_reported",
    "C13_broken_ancillary_reported",
    "C13_unused_grid_mapping_coordinate_reported",
    "C13_head_grid_mapping_coordinate_silent",
    "C13_head_shared_coordinate_caches",
    "C13_cell_method_messages_quote_attribute",
    "C13_head_cell_method_interval_without_attribute",
]
BUDGET = {"quick": 5000, "thorough": 200000}
TIME_LIMIT = {"quick": 170, "thorough": 1400}
QUICK_JOBS = 8
RULE = (
    "valid abstract datasets from 4 hand-written templates (gridded x {bounds, climatology, 2-d/string/scalar "
    "coordinates, formula terms with bounds formula terms, simple/extended grid mapping, internal/external cell "
    "measures, 1-2 ancillary variables, cell methods with intervals/where/within/comments}, DSG contiguous / indexed "
    "/ indexed-contiguous, gathered, geometry point/line/polygon with node_count / part_node_count / interior_ring / "
    "nodes) with 1-3 data variables sharing coordinates, plus files written by cfdm.write from the shared field "
    "generator; every reference token of every referencing attribute x {missing name, variable with foreign "
    "dimensions, removed}, every mapping/cell_methods attribute x 6-8 malformed strings. non-trivial = a fault case "
    "(not the valid file, not a tokeniser drift case); distinct = distinct (file digest, site, fault)"
)
ASSUMPTIONS = [
    "UGRID-free, subsampling-free datasets, CF-1.11, read with the default backend (netCDF4) and, for about one file in seven of the hand-written stream, with netcdf_backend='h5netcdf' (same model output); the model covers group-free datasets read as fields; datasets with one group, and the domain variables of a broken dataset read with domain=True (must not raise), are judged by the oracle only",
    "'valid' is judged on the abstract description, not by cfdm: the reference for 'unaffected constructs intact' is cfdm's own read of the valid file",
    "a fault kind is applied only where it breaks a reference in the property's sense: 'foreign' not for container variables without dimension constraint (grid mapping variable, part_node_count, bounds of a 0-d coordinate), not for dimension tokens and mapping keys; 'removed' is required to be reported only when it leaves a malformed mapping string; 'removed' of a compress token is skipped (the list values no longer fit)",
    "compound elements may be left out as a whole: all formula terms of one coordinate, one grid mapping with its coordinate list, everything derived from one geometry container; independent list entries (coordinates, ancillary_variables, cell_measures pairs, grid mappings) may lose only the broken entry",
    "no term variable of a formula_terms attribute is itself a coordinate of the data variable; no grid mapping lists a parametric vertical coordinate (reader state shared between fields, C09's subject)",
]

# malformed cell_methods that the parser accepts without a word (open finding, no small patch)
SILENT_CM = ("closeonly", "noaxis", "nomethod")

_cfdm = None


def cfdm():
    global _cfdm
    if _cfdm is None:
        import cfdm as m

        m.log_level("DISABLE")
        _cfdm = m
    return _cfdm


_scratch = None


def pre():
    scratch()


def scratch():
    global _scratch
    if _scratch is None or not os.path.isdir(_scratch):
        _scratch = tempfile.mkdtemp(prefix="verif_c13_")
        atexit.register(shutil.rmtree, _scratch, True)
    return _scratch


_counter = [0]


def tmpfile(tag):
    _counter[0] += 1
    return os.path.join(scratch(), f"{tag}_{os.getpid()}_{_counter[0]}.nc")


# ------------------------------------------------------------------ protocol
SEND = set(G.REF_LIST_ATTRS + G.REF_MAP_ATTRS + G.REF_DIM_ATTRS + G.FREE_TEXT + ("dimensions",))


def q(s):
    return urllib.parse.quote(s, safe=":()._-")


def enc_attrs(d, keys):
    items = [f"{k}~{q(v)}" for k, v in d.items() if k in keys and isinstance(v, str)]
    return ";".join(items) if items else "-"


def line_for(F, dvs, old="2"):
    vs = []
    for v in F["vars"]:
        k = {"f": "n", "i": "n", "s": "s", "c": "c"}[v["kind"]]
        vs.append(f"{v['name']}|{','.join(v['dims'])}|{k}|{enc_attrs(v['attrs'], SEND)}")
    g = enc_attrs(F["globals"], {"featureType", "external_variables"})
    return (f"C13.read old={old} g={g} dims=[{','.join(d for d, _ in F['dims'])}] "
            f"vars={'&'.join(vs) if vs else '-'} dvs=[{','.join(dvs)}]")


# ------------------------------------------------------------------ the harness's own view of a dataset
def referenced_names(F):
    out = set()
    for a in G.GLOBAL_REF_ATTRS:
        s = F["globals"].get(a)
        if isinstance(s, str):
            out.update(G.tokens(s))
    for v in F["vars"]:
        for a, s in v["attrs"].items():
            if not isinstance(s, str):
                continue
            if a in G.REF_LIST_ATTRS:
                out.update(G.tokens(s))
            elif a in G.REF_MAP_ATTRS:
                out.update(t.rstrip(":") for t in G.tokens(s))
    return out


def data_vars(F):
    """Variables that nothing references and that are not coordinate / list / count / index variables."""
    ref = referenced_names(F)
    out = []
    for v in F["vars"]:
        n = v["name"]
        if n in ref or v["dims"] == [n]:
            continue
        if any(a in v["attrs"] for a in G.REF_DIM_ATTRS):
            continue
        if "grid_mapping_name" in v["attrs"] or "geometry_type" in v["attrs"]:
            continue
        if "dimensions" in v["attrs"]:
            continue                      # a domain variable: no field in field mode
        out.append(n)
    return out


def parse_map(s):
    """CF mapping grammar `key: value [value…] [key: …]` or a sole name; None if malformed."""
    if not isinstance(s, str):
        return None
    toks = s.split()
    if not toks:
        return None
    word = lambda t: t != "" and all(c.isascii() and (c.isalnum() or c in "_#") for c in t)
    if len(toks) == 1 and word(toks[0]):
        return [(toks[0], [])]
    out = []
    for t in toks:
        if t.endswith(":") and word(t[:-1]):
            if out and not out[-1][1]:
                return None
            out.append((t[:-1], []))
        elif word(t) and out:
            out[-1][1].append(t)
        else:
            return None
    if not out or not out[-1][1]:
        return None
    return out


# ------------------------------------------------------------------ observing cfdm
def fd_targets():
    out = []
    for fd in os.listdir("/proc/self/fd"):
        try:
            out.append(os.readlink(f"/proc/self/fd/{fd}"))
        except OSError:
            pass
    return out


def elems_of(f, has_cm):
    out = []
    cs = f.constructs.filter_by_type("dimension_coordinate", "auxiliary_coordinate", "domain_ancillary",
                                     "cell_measure", "field_ancillary", todict=True)
    key2nc = {}
    for k, c in cs.items():
        n = base(c.nc_get_variable(None))
        key2nc[k] = n
        t = c.construct_type
        b = None
        if hasattr(c, "get_bounds"):
            bb = c.get_bounds(None)
            if bb is not None:
                b = base(bb.nc_get_variable(None))
        if t == "dimension_coordinate":
            out.append(f"dim:{n}")
        elif t == "auxiliary_coordinate":
            if n is None:
                out.append(f"node:{b}")
                b = None
            else:
                out.append(f"aux:{n}")
        elif t == "domain_ancillary":
            out.append(f"da:{n}")
        elif t == "cell_measure":
            out.append(f"msr:{n}")
        elif t == "field_ancillary":
            out.append(f"anc:{n}")
        if b is not None:
            out.append(f"bnd:{n}:{b}")
    for k, r in f.coordinate_references(todict=True).items():
        n = base(r.nc_get_variable(None))
        if n is not None:
            out.append(f"ref:gm:{n}")
        else:
            cn = sorted(str(key2nc.get(c)) for c in r.coordinates())
            out.append("ref:ft:" + (cn[0] if cn else "?"))
    if has_cm:
        out.append(f"cm:{len(f.cell_methods(todict=True))}")
    return sorted(out)


def report_entries(f):
    """The entries of dataset_compliance(): sorted set of (ncvar, key of the attribute dict, reason)."""
    out = set()
    for rec in f.dataset_compliance().values():
        for ncvar, entries in rec.get("non-compliance", {}).items():
            for d in entries:
                a = d.get("attribute")
                key = "-" if not a else "+".join(str(base(k)) for k in a)
                out.add((str(base(ncvar)), key, str(d.get("reason"))))
    return sorted(out)


def array_sig(f):
    if not f.has_data():
        return None
    a = np.ma.asanyarray(f.array)
    m = np.ma.getmaskarray(a)
    d = np.ma.getdata(a)
    if d.dtype.kind in "fiu":
        d = np.where(m, 0, d).astype("f8")
    else:
        d = np.where(m, "", d.astype(str))
    return (list(a.shape), d.tolist(), m.tolist())


def base(name):
    return name.split("/")[-1] if isinstance(name, str) else name


def observe(F, dvs, group=None, backend=None):
    """Write F, read it with cfdm; dict(status, closed, fields={dv: dict(elems, report, array)}).
    Variable names are compared without their group path.  `backend`: netcdf_backend of cfdm.read
    (None = the default, netCDF4 first)."""
    path = tmpfile("f")
    G.write_nc(F, path, group=group)
    before = fd_targets()
    kw = {"netcdf_backend": backend} if backend else {}
    obs = dict(status="ok", fields={})
    fs = None
    try:
        fs = cfdm().read(path, warnings=False, **kw)
    except Exception as e:
        obs["status"] = "raised:" + fw.exc_enum(e)
    after = fd_targets()
    obs["closed"] = not any(t.startswith(path) and after.count(t) > before.count(t) for t in set(after))
    if fs is not None:
        got = {}
        for f in fs:
            got.setdefault(base(f.nc_get_variable(None)), f)
        for dv in dvs:
            f = got.get(dv)
            if f is None:
                obs["fields"][dv] = None
                continue
            v = G.get_var(F, dv)
            rec = dict(elems=elems_of(f, v is not None and "cell_methods" in v["attrs"]),
                       report=bool(f.dataset_compliance()), entries=report_entries(f))
            try:
                rec["array"] = array_sig(f)
            except Exception as e:
                rec["array"] = "raised:" + fw.exc_enum(e)
            obs["fields"][dv] = rec
    dom = [v for v in F["vars"] if isinstance(v["attrs"].get("dimensions"), str)]
    if dom and obs["status"] == "ok" and group is None:
        # the domain variables, read as domains
        obs["domains"] = {}
        try:
            for d in cfdm().read(path, domain=True, warnings=False, **kw):
                obs["domains"][base(d.nc_get_variable(None))] = elems_of(d, False)
        except Exception as e:
            obs["domains"] = "raised:" + fw.exc_enum(e)
    if obs["closed"]:
        try:
            os.remove(path)
        except OSError:
            pass
    else:
        # the leak has been recorded; let the unreachable datasets go so that a long run on a
        # leaking tree does not exhaust the process's descriptors (which would show up as OSError)
        fs = None
        import gc

        gc.collect()
    return obs


def canon(obs, dvs):
    c = "1" if obs["closed"] else "0"
    if obs["status"] != "ok":
        return f"{obs['status']} closed={c}"
    parts = []
    for dv in dvs:
        r = obs["fields"].get(dv)
        if r is None:
            parts.append(f"{dv}=absent")
        else:
            rep = "N"
            if r["report"]:
                rep = "R{" + ";".join(sorted("|".join(x).replace(" ", "_") for x in r["entries"])) + "}"
            parts.append(f"{dv}=[{','.join(r['elems'])}]:{rep}")
    return f"ok closed={c} " + " ".join(parts)


_valid_cache = {}


def valid_obs(F, dvs, group=None, backend=None):
    k = G.digest(F) + str(group) + str(backend)
    if k not in _valid_cache:
        if len(_valid_cache) > 8:
            _valid_cache.clear()
        _valid_cache[k] = observe(F, dvs, group, backend)
    return _valid_cache[k]


# ------------------------------------------------------------------ cases
def broken(p):
    F = p["file"]
    if p["fault"] == "none":
        return F
    if p["fault"] == "mal":
        return G.malform(F, p["site"][0], p["site"][1], p["site"][2])
    return G.break_ref(F, tuple(p["site"]), p["fault"], p["dvs"])


def applicable(F, site, kind):
    v, attr, i, role = site
    if role == "key":
        return False                       # term / measure names are not references
    if kind == "foreign-shared":
        return role == "var" and attr in G.SHARED_ATTRS
    if kind == "foreign-data":
        return role == "var" and attr in G.PARENT_ATTRS
    if kind == "foreign":
        if role != "var":
            return False
        if attr == "part_node_count":
            return False
        if attr == "grid_mapping" and ":" not in G.get_var(F, v)["attrs"][attr]:
            return False                   # the grid mapping variable is a container
        if attr in ("bounds", "climatology") and not [d for d in G.get_var(F, v)["dims"] if d != "strlen"]:
            return False                   # any 1-d variable is a structurally fine bounds of a 0-d one
        if attr == "external_variables":
            return True
    if kind == "removed" and attr == "compress":
        return False
    return True


def make_case(stream, F, dvs, fault, site, template, group=None, backend=None):
    p = dict(file=F, dvs=dvs, fault=fault, site=list(site) if site else None, template=template)
    if group:
        p["group"] = group
    if backend:
        p["backend"] = backend
    B = broken(p)
    if B is None:
        return None
    attr = site[1] if site else "-"
    key = f"{stream}|{G.digest(F)}|{site}|{fault}|{backend or ''}"
    tags = [f"tpl:{template}", f"attr:{attr}", f"fault:{fault}", f"backend:{backend or 'default'}"]
    # grouped files go through the flattener, which the model does not cover: oracle only
    return Case(stream, p, line=None if group else line_for(B, dvs), key=key, nontrivial=fault != "none", tags=tags)


def cases_of_file(stream, F, template, group=None, backend=None):
    dvs = data_vars(F)
    if not dvs:
        return
    c = make_case(stream if group else "C13.valid", F, dvs, "none", None, template, group, backend)
    if c:
        yield c
    for site in G.sites(F):
        for kind in G.KINDS:
            if not applicable(F, site, kind):
                continue
            c = make_case(stream, F, dvs, kind, site, template, group, backend)
            if c:
                yield c
    if stream == "C13.fault" or group:
        for v, a, m in G.mal_sites(F):
            if a == "cell_methods" and m in SILENT_CM and zlib.crc32(f"{G.digest(F)}|{v}|{m}".encode()) % 4:
                continue      # these always end in the open finding cell_methods:malformed:unreported: keep 1 in 4
            if a == "cell_methods" and m == "badinterval" and zlib.crc32(f"{G.digest(F)}|{v}|{m}".encode()) % 3:
                continue      # always ends in cell_methods:malformed-badinterval:misreported: keep 1 in 3
            c = make_case(stream if group else "C13.mal", F, dvs, "mal", (v, a, m, "mal"), template, group, backend)
            if c:
                yield c


def shared_scalar_string(F):
    """cfdm cannot read a valid file in which a 0-d string coordinate is used twice (by two data
    variables, or twice in one `coordinates` attribute as cfdm.write produces for two equal scalar
    coordinates): the cached construct is given its size-1 dimension twice.  Not a C13 matter (the
    valid file itself is unreadable): such files are skipped."""
    for v in F["vars"]:
        if v["kind"] in "sc" and not [d for d in v["dims"] if not d.startswith("strlen")]:
            n = 0
            for w in F["vars"]:
                c = w["attrs"].get("coordinates")
                if isinstance(c, str):
                    n += G.tokens(c).count(v["name"])
            if n > 1:
                return True
    return False


def written_file(rng):
    """A file written by cfdm.write from generated fields, abstracted through netCDF4."""
    from ..gen import fields as GF

    C = cfdm()
    fs = [GF.random_field(rng, max_axes=3, allow=("dim", "aux", "aux2d", "scalar", "msr", "fan", "cm", "gm", "ft",
                                                  "bounds", "names", "string", "dan"))
          for _ in range(rng.choice([1, 1, 2]))]
    path = tmpfile("w")
    try:
        C.write(fs, path)
        F = G.abstract_nc(path)
    except Exception:
        return None
    finally:
        try:
            os.remove(path)
        except OSError:
            pass
    # a 0-d netCDF string variable read back while the dataset is open has been seen to crash the
    # netCDF library in long runs: such variables are re-written as character arrays
    for v in F["vars"]:
        if v["kind"] == "s" and not v["dims"]:
            text = v["data"] if isinstance(v["data"], str) else "alpha"
            if not any(d == "strlen_zz" for d, _ in F["dims"]):
                F["dims"].append(["strlen_zz", 8])
            v["kind"], v["dims"], v["data"] = "c", ["strlen_zz"], [text[:8]]
    return F


ALPHABET = ["a", "b:", "c", "area:", "x", ":", "a:b", "(", ")", "interval:", "1", "hr", "comment:", "within", "where",
            "over", "mean", "time:", "lat:", "2.5", "one", "z#1", "q-r", "(interval:", "hr)", "days", "( ", " )"]


def tok_case(rng):
    kind = rng.choice(["px", "px", "cm", "cm", "ws"])
    n = rng.randint(0, 7)
    toks = [rng.choice(ALPHABET) for _ in range(n)]
    s = ""
    for t in toks:
        s += rng.choice(["", " ", " ", " ", "  ", "\t"]) + t if s or rng.random() < 0.2 else t
    if rng.random() < 0.2:
        s += " "
    p = dict(kind=kind, s=s)
    line = f"C13.{kind} s={q(s)}" + (" old=1" if kind == "cm" else "")
    return Case("C13.tok", p, line=line, key="tok|" + kind + "|" + s, nontrivial=False, tags=[f"tok:{kind}"])


def gen(rng, tier, n):
    made = 0
    ntok = max(20, n // 20)
    for _ in range(ntok):
        yield tok_case(rng)
        made += 1
    while made < n:
        r = rng.random()
        if r < 0.08:
            # the same templates inside a group (oracle only)
            template, F = G.gen_file(rng, rng.choice(["grid", "grid", "gathered", "geometry"]))
            for c in cases_of_file("C13.group", F, template, group="forecast"):
                yield c
                made += 1
            continue
        if r < 0.28:
            F = written_file(rng)
            if F is None or any("/" in v["name"] for v in F["vars"]) or shared_scalar_string(F):
                continue
            stream, template = "C13.wfault", "written"
        else:
            template, F = G.gen_file(rng)
            stream = "C13.fault"
        # the same reader code behind the other backend (the model does not depend on it)
        backend = "h5netcdf" if stream == "C13.fault" and rng.random() < 0.15 else None
        for c in cases_of_file(stream, F, template, backend=backend):
            yield c
            made += 1


def from_payload(stream, p):
    if stream == "C13.tok":
        line = f"C13.{p['kind']} s={q(p['s'])}" + (" old=1" if p["kind"] == "cm" else "")
        return Case(stream, p, line=line, key="tok|" + p["kind"] + "|" + p["s"], nontrivial=False)
    B = broken(p)
    return Case(stream, p, line=None if p.get("group") else line_for(B, p["dvs"]), nontrivial=p["fault"] != "none")


# ------------------------------------------------------------------ impl
def impl_tok(p):
    C = cfdm()
    from cfdm.read_write.netcdf import NetCDFRead

    r = NetCDFRead(C.implementation())
    r.read_vars = {"has_groups": False, "dataset_compliance": {}, "component_report": {}}
    s = p["s"]
    if p["kind"] == "px":
        out = r._parse_x("v", s)
        return "[" + ";".join(list(d.keys())[0] + ":" + ",".join(list(d.values())[0]) for d in out) + "]"
    if p["kind"] == "ws":
        return "[" + ",".join(r._split_string_by_white_space("v", s)) + "]"
    impl = getattr(r, "_parse_cell_methods_string", None) or r._parse_cell_methods
    try:
        out = impl(s, "v")
    except IndexError:
        return "raised:IndexError"
    rep = bool(r.read_vars["dataset_compliance"].get("v", {}).get("non-compliance"))
    return f"n={len(out)} rep={1 if rep else 0}"


def impl(c):
    p = c.payload
    if c.stream == "C13.tok":
        return impl_tok(p)
    B = broken(p)
    obs = observe(B, p["dvs"], p.get("group"), p.get("backend"))
    c.extra = obs
    return canon(obs, p["dvs"])


def agree(c):
    if c.model_out is None:
        return True
    if c.stream == "C13.tok":
        return c.impl_out == c.model_out
    # the model of the reader at /repo HEAD with, or without, the proposed (not merged) patches
    return c.impl_out in [m.strip() for m in c.model_out.split("||")[:2]]


# ------------------------------------------------------------------ oracle
def _terms(F, cname):
    v = G.get_var(F, cname)
    m = parse_map(v["attrs"].get("formula_terms")) if v else None
    return [vals[0] for _, vals in (m or []) if vals]


def lose_sets(F, p, V):
    """For every data variable: the elements that may be left out ('ANY' = the field's structure is
    itself what cannot be mapped), and whether the problem has to be in its report."""
    dvs = p["dvs"]
    fault = p["fault"]
    v, attr, i, role = p["site"]
    out = {dv: [set(), False] for dv in dvs}
    holder = F["globals"] if v is None else G.get_var(F, v)["attrs"]
    s = holder[attr]
    tok = None if fault == "mal" else G.tokens(s)[i].rstrip(":")

    def match(dv, pred):
        return {e for e in V[dv]["elems"] if pred(e)} if V.get(dv) else set()

    def ft_elems(dv, cname):
        das = set(_terms(F, cname))
        return match(dv, lambda e: e == f"ref:ft:{cname}" or (e.startswith("da:") and e[3:] in das)
                     or (e.startswith("bnd:") and e.split(":")[1] in das))

    def coord_elems(dv, c):
        return match(dv, lambda e: e in (f"dim:{c}", f"aux:{c}") or e.startswith(f"bnd:{c}:")) | ft_elems(dv, c)

    def geom_elems(dv):
        return match(dv, lambda e: e.startswith("node:")) | {
            e for e in match(dv, lambda e: e.startswith("bnd:"))
            if (G.get_var(F, e.split(":")[1]) or {"attrs": {}})["attrs"].get("nodes") == e.split(":")[2]}

    B = broken(p)
    Bs = (B["globals"] if v is None else G.get_var(B, v)["attrs"])[attr]
    malformed_now = attr in G.REF_MAP_ATTRS and parse_map(Bs) is None
    must_report = (fault in ("missing", "foreign", "foreign-shared", "foreign-data") or (fault == "mal" and (attr == "cell_methods" or malformed_now))
                   or (fault == "removed" and malformed_now))

    for dv in dvs:
        L = set()
        if attr in G.REF_DIM_ATTRS:
            out[dv] = ["ANY", must_report]
            continue
        if attr == "coordinates" and dv == v:
            L = coord_elems(dv, tok)
            # a grid mapping that lists the coordinate depends on it
            for k, vals in parse_map(G.get_var(F, dv)["attrs"].get("grid_mapping")) or []:
                if tok in vals:
                    L |= {f"ref:gm:{k}"}
        elif attr == "ancillary_variables" and dv == v:
            L = {f"anc:{tok}"}
        elif attr == "cell_measures" and dv == v:
            L = match(dv, lambda e: e.startswith("msr:")) if (fault == "mal" or malformed_now) else {f"msr:{tok}"}
        elif attr == "cell_methods" and dv == v:
            L = match(dv, lambda e: e.startswith("cm:"))
        elif attr == "grid_mapping" and dv == v:
            if fault == "mal" or malformed_now:
                L = match(dv, lambda e: e.startswith("ref:gm:"))
            else:
                m = parse_map(s) or []
                owner = tok
                if role == "var" and ":" in s:
                    toks = G.tokens(s)
                    owner = [t.rstrip(":") for t in toks[:i] if t.endswith(":")][-1]
                L = {f"ref:gm:{owner}"}
        elif attr in ("bounds", "climatology", "nodes"):
            L = match(dv, lambda e: e.startswith(f"bnd:{v}:"))
            das = set(_terms(F, v))
            L |= match(dv, lambda e: e.startswith("bnd:") and e.split(":")[1] in das)
        elif attr == "formula_terms":
            owner = v
            for cv in F["vars"]:
                if cv["attrs"].get("bounds") == v:
                    owner = cv["name"]
            if owner != v:
                das = set(_terms(F, owner))
                L = match(dv, lambda e: e.startswith("bnd:") and e.split(":")[1] in das)
            else:
                L = ft_elems(dv, v)
        elif attr == "geometry" and dv == v:
            L = geom_elems(dv)
        elif attr in ("node_coordinates", "node_count", "part_node_count", "interior_ring"):
            if G.get_var(F, dv)["attrs"].get("geometry") == v:
                L = geom_elems(dv)
        elif attr == "external_variables":
            L = {f"msr:{tok}"}
        present = V.get(dv) and (set(V[dv]["elems"]) & L)
        concerned = bool(present) or dv == v
        out[dv] = [L, must_report and concerned]
    return out


def names_problem(F, p, entries):
    """Is one of the entries (ncvar, attribute key, reason) of a field's report about the broken
    reference?  It is if it quotes the attribute that holds the reference (`variable:attribute`, or
    the global attribute) or if it is filed under the name that the attribute now holds instead of
    the valid one.  (Independent of which reason the reader gives.)"""
    if entries is None:
        return True                       # observation without entries (old replay)
    v, attr, i, role = p["site"]
    key = attr if v is None else f"{v}:{attr}"
    names = set()
    if p["fault"] == "missing":
        names = {G.MISSING}
    elif p["fault"] == "foreign":
        names = {G.FOREIGN, G.FOREIGN_C}
    elif p["fault"] in ("foreign-shared", "foreign-data"):
        names = {G.replacement(F, tuple(p["site"]), p["fault"], p["dvs"])}
    if attr == "external_variables" and p["fault"] != "removed":
        # the token no longer declares the variable external: that variable is what cannot be mapped
        names.add(G.tokens(F["globals"][attr])[i])
    for ncvar, akey, reason in entries:
        if ncvar.startswith("REF_NOT_FOUND_"):
            ncvar = ncvar[len("REF_NOT_FOUND_"):]       # the flattener's placeholder for an unresolved name
        if key in akey.split("+") or ncvar in names:
            return True
    return False


def oracle(c):
    p = c.payload
    if c.stream == "C13.tok":
        return None
    obs = c.extra
    if not isinstance(obs, dict):
        return "raised-harness: no observation"
    if p["fault"] != "none" and valid_obs(p["file"], p["dvs"], p.get("group"), p.get("backend"))["status"] != "ok":
        return None                 # cfdm cannot read the valid file: nothing to compare with
    if obs["status"] != "ok":
        return f"{obs['status'].replace(':', '-')}: reading the broken dataset raised" + ("" if obs["closed"] else " and left the file open")
    if not obs["closed"]:
        return "leak: a descriptor on the file is still open after the call"
    if p["fault"] == "none":
        for dv in p["dvs"]:
            if obs["fields"].get(dv) is None:
                return f"field-missing: no field for data variable {dv} of the valid file"
        F = p["file"]
        for v in F["vars"]:
            if isinstance(v["attrs"].get("dimensions"), str) and "domains" in obs:
                if not isinstance(obs["domains"], dict):
                    return f"domain-{obs['domains'].replace(':', '-')}: reading the valid file with domain=True raised"
                got = obs["domains"].get(v["name"])
                if got is None:
                    return f"domain-missing: no domain for the domain variable {v['name']}"
                gc = G.get_var(F, v["attrs"].get("geometry", ""))
                if gc is not None:
                    nodes = G.tokens(gc["attrs"].get("node_coordinates", ""))
                    lost = [n for n in nodes if f"node:{n}" not in got and not any(e.startswith("bnd:") and e.endswith(":" + n) for e in got)]
                    if lost:
                        return f"domain-geometry-lost: the domain of {v['name']} has no node coordinates {lost}"
        return None
    F = p["file"]
    dvs = p["dvs"]
    Vobs = valid_obs(F, dvs, p.get("group"), p.get("backend"))
    if Vobs["status"] != "ok":
        return None                 # cfdm cannot read the valid file: nothing to compare with
    V = Vobs["fields"]
    L = lose_sets(F, p, V)
    problems = []
    if isinstance(obs.get("domains"), str) and not isinstance(Vobs.get("domains"), str):
        # the domain variables of the broken dataset, read with domain=True
        problems.append(f"domain-{obs['domains'].replace(':', '-')}: reading the broken dataset with domain=True raised")
    for dv in dvs:
        ref = V.get(dv)
        if ref is None:
            continue
        got = obs["fields"].get(dv)
        if got is None:
            problems.append(f"field-missing: the field of {dv} is not returned")
            continue
        lose, need_report = L[dv]
        own = dv == p["site"][0] or lose == "ANY" or bool(lose)
        if lose != "ANY":
            if got["array"] != ref["array"]:
                problems.append(f"data-changed: the data of {dv} differ from the valid file's")
            lost = [e for e in ref["elems"] if e not in got["elems"] and e not in lose]
            if lost:
                code = "lost-unaffected" if own else "lost-in-other-field"
                problems.append(f"{code}: {dv} lost {lost}")
            bad = [e for e in got["elems"] if e.split(":")[-1] in (G.MISSING, G.FOREIGN, G.FOREIGN_C) and p["fault"] != "removed"]
            if p["fault"] in ("foreign-shared", "foreign-data"):
                r = G.replacement(F, tuple(p["site"]), p["fault"], dvs)
                v0, a0 = p["site"][0], p["site"][1]
                if a0 in G.PARENT_ATTRS and dv == v0:
                    bad += [e for e in got["elems"] if e in (f"aux:{r}", f"dim:{r}", f"anc:{r}", f"msr:{r}")]
                elif a0 in ("bounds", "climatology", "nodes"):
                    bad += [e for e in got["elems"] if e == f"bnd:{v0}:{r}"]
            if bad:
                problems.append(f"attached-unmappable: {dv} has {bad}")
        if need_report and not got["report"]:
            code = "unreported" if dv == p["site"][0] or lose == "ANY" else "unreported-in-sharing-field"
            problems.append(f"{code}: dataset_compliance() of {dv} is empty")
        elif need_report and not names_problem(F, p, got.get("entries")):
            # the report is not empty, but nothing in it is about this reference
            code = "misreported" if dv == p["site"][0] or lose == "ANY" else "misreported-in-sharing-field"
            problems.append(f"{code}: no entry of dataset_compliance() of {dv} names the broken reference: "
                            f"{[list(e) for e in got.get('entries') or []][:4]}")
    if problems:
        order = [p_.split(":")[0] for p_ in problems if p_.startswith("domain-")] + ["field-missing", "data-changed", "lost-unaffected", "lost-in-other-field", "attached-unmappable",
                 "unreported", "unreported-in-sharing-field", "misreported", "misreported-in-sharing-field"]
        problems.sort(key=lambda s: order.index(s.split(":")[0]))
        return "; ".join(problems)
    return None


def classify(c):
    if not c.oracle_fail or c.stream == "C13.tok":
        return None
    p = c.payload
    code = c.oracle_fail.split(":")[0]
    if p.get("group"):
        # one signature per failure code: the flattener path fails the same way for every attribute
        if p["fault"] == "none" and code == "raised-KeyError" and any(
                "geometry_type" in v["attrs"] and "node_count" not in v["attrs"] for v in p["file"]["vars"]):
            # a VALID grouped file: the node dimension of a geometry container without node_count is
            # looked up in the flattened dataset under its unflattened name
            return "group:none:raised-KeyError:geometry-without-node_count"
        return f"group:{p['fault']}:{code}"
    if p["fault"] == "none":
        return f"valid-file:{code}"
    site = p["site"]
    what = p["fault"]
    if p["fault"] == "mal":
        # which malformation matters for what is (not) said about it
        what = "malformed"
        if code.startswith("misreported") and site[2] == "badinterval" and "Cell method interval" in c.oracle_fail:
            what = "malformed-badinterval"      # reported, but without quoting the attribute
    return f"{site[1]}:{what}:{code}"


def shrink(c, run):
    """Drop data variables and unrelated variables while the same signature stays."""
    if c.stream == "C13.tok" or not c.oracle_fail:
        return None
    sig = classify(c)
    p = c.payload
    best = c
    F = p["file"]
    for v in list(F["vars"]):
        if p["site"] and v["name"] == p["site"][0]:
            continue
        F2 = G.clone(F)
        F2["vars"] = [x for x in F2["vars"] if x["name"] != v["name"]]
        if v["name"] in referenced_names(F2):
            continue
        p2 = dict(p, file=F2, dvs=[d for d in p["dvs"] if d != v["name"]])
        if not p2["dvs"]:
            continue
        try:
            c2 = from_payload(c.stream, p2)
            c2.impl_out = impl(c2)
            c2.oracle_fail = oracle(c2)
        except Exception:
            continue
        if c2.oracle_fail and classify(c2) == sig:
            best, p, F = c2, p2, F2
    return best if best is not c else None
