"""C04 — copies are independent; operations that are not in-place are pure.

Lean side: lean/Cfdm/Model/Heap.lean (cell trees with addresses, `copyT` driven by the table of
cfdm's copy discipline, writes at addresses, the in-place decorator), Lemmas/Heap.lean,
Props/C04.lean, Driver/C04.lean.

Streams (both over every public class found by reflection over the cfdm namespace — cfdm has no
`__all__` — and generated instances, harness/gen/objects_C04.py):

  C04.share  the real object graphs of x and of x.copy() / copy.deepcopy(x) / x.copy(data=False) /
             Data.copy(array=False) are walked by id(); the cells of x that the copy still reaches are
             compared with the cells the model's copy keeps.  Every cell shared by the implementation
             must be predicted by the model (an extra shared cell is a disagreement).
  C04.meth   one public operation (method, property, indexing dunder; reflection) is applied with
             generated arguments to the copy (mode A), to the source (mode B) or — for operations with
             an `inplace` switch — to the source with the switch off (mode C).  Observed:
               * the independent structural fingerprint (harness/fingerprint_C04.py) of the OTHER object
                 before/after;
               * mode C: the receiver's own fingerprint before/after, the returned result against the
                 in-place result on a copy, and — after one further mutation of the result — the receiver
                 again;
               * the primitive heap writes of the call (cells of the receiver's object graph whose
                 contents changed), which the Lean driver replays on the model's copy: the model says
                 whether the other object's fingerprint can change and whether every write went through a
                 cell that copies re-create.
"""
import contextlib
import copy as _copy
import inspect
import json
import os

from .. import fw
from .. import fingerprint_C04 as F
from .. import heapwalk_C04 as H
from .. import methods_C04 as M
from ..gen import objects_C04 as G

REQUIRED = [
    "C04_copy_sep",
    "C04_copy_shares_only_kept",
    "C04_frame",
    "C04_table_disciplined",
    "C04_copy_independent",
    "C04_inplace_off",
    "C04_inplace_off_cfdm",
    "C04_poke_counterexample",
    "C04_old_apply_masking_counterexample",
    "C04_old_set_data_counterexample",
]
BUDGET = {"quick": 9000, "thorough": 150000}
QUICK_JOBS = 8
TIME_LIMIT = {"quick": 150, "thorough": 1350}
RULE = (
    "a case is nontrivial when the object has at least one mutable cell besides itself and (method stream) the call "
    "returned normally or changed the receiver; distinct = distinct (recipe, operation, argument seed, mode) tuples"
)
ASSUMPTIONS = [
    "scope = every public class of the cfdm namespace except the ones listed with reasons in harness/gen/objects_C04.py "
    "OUT_OF_SCOPE (settings, reader/writer plumbing, abstract bases); instances come from example fields 0-11 and their "
    "components, the shared random field generator, ab-initio ragged/gathered/subsampled/mesh arrays, fields read back "
    "lazily from files (both backends) and stand-alone constructor calls",
    "observable state = what public accessors return (reflective scan of every zero-argument get_/has_/is_/nc_* reader, "
    "data values+mask+dtype, nested components, construct membership); lazily cached values, file handles, the "
    "realisation of lazy data, `Bounds.inherited_properties` (a cache re-derived from the parent by every get_bounds()) "
    "and leftover private attributes are not state",
    "arguments handed to an operation are fresh objects (or the other object, for readers such as equals): sharing that "
    "the caller asks for (copy=False arguments, Field(source=f, copy=False), Constructs.shallow_copy, the domain view of "
    "a field) is documented behaviour and not a copy in the sense of the property",
    "`custom` is shallow-copied by design and file arrays share their attributes/storage_options dictionaries: the model "
    "predicts these cells as shared and proves that no operation of the method table writes through them",
    "the Lean theorems hold for trees in which no cell sits both at a re-created and at a handed-over position (wf=1, "
    "reported per instance by the driver); the count of instances outside this hypothesis is in the evidence",
]

_dn = open(os.devnull, "w")


def cfdm():
    return G.cfdm()


# --------------------------------------------------------------------------- operation table by reflection
_table = None


def op_table():
    """[(class name, op name, kind)] over every in-scope public class (sorted, deterministic)."""
    global _table
    if _table is None:
        C = cfdm()
        t = []
        for cn in G.in_scope_classes():
            K = getattr(C, cn)
            if not hasattr(K, "copy"):
                continue
            for name, kind in M.operations(K):
                t.append((cn, name, kind))
        _table = t
    return _table


def copy_modes(K):
    """which ways of copying the class offers"""
    out = ["copy", "copy", "deepcopy"]
    try:
        ps = inspect.signature(K.copy).parameters
    except (TypeError, ValueError):
        ps = {}
    if "data" in ps:
        out.append("nodata")
    if "array" in ps:
        out.append("noarray")
    return out


def do_copy(x, how):
    if how == "copy":
        return x.copy()
    if how == "deepcopy":
        return _copy.deepcopy(x)
    if how == "nodata":
        return x.copy(data=False)
    if how == "noarray":
        return x.copy(array=False)
    raise fw.HarnessError("unknown copy mode " + how)


# --------------------------------------------------------------------------- generation
def mk_share(p):
    return fw.Case("C04.share", p, line=None, tags=("cls:" + p["cls"], "how:" + p["how"], "src:" + p["recipe"]["src"]))


def mk_meth(p):
    return fw.Case("C04.meth", p, line=None,
                   tags=("cls:" + p["cls"], "mode:" + p["mode"], "kind:" + p["kind"], "src:" + p["recipe"]["src"],
                         "how:" + p["how"], "history:" + str(1 + len(p.get("then", ())))))


def from_payload(stream, payload):
    if stream == "C04.share":
        return mk_share(payload)
    if stream == "C04.meth":
        return mk_meth(payload)
    raise fw.HarnessError("unknown stream " + stream)


def gen(rng, tier, n):
    C = cfdm()
    table = op_table()
    order = list(range(len(table)))
    fw.rng_for(0, "C04-op-order").shuffle(order)     # the same order in every worker
    start = rng.randrange(len(order))
    classes = sorted(set(t[0] for t in table))
    switches = [t for t in table if t[2] == "switch"]
    j = 0
    made = 0
    turn = 0
    while made < n:
        turn += 1
        # two cases in eight: an operation with an in-place switch, called with the switch off
        if turn % 8 in (3, 6) and switches:
            cn, name, kind = rng.choice(switches)
            r = G.recipe_for(cn, rng)
            if r is not None:
                made += 1
                yield mk_meth(dict(recipe=r, cls=cn, op=name, kind=kind, aseed=rng.randrange(1 << 30), mode="C",
                                   how=rng.choice(["copy", "copy", "deepcopy"])))
            continue
        # one sharing-graph case in eight, the rest walk the operation table cyclically from a random start
        if turn % 8 == 0:
            cn = rng.choice(classes)
            r = G.recipe_for(cn, rng)
            if r is not None:
                how = rng.choice(copy_modes(getattr(C, cn)))
                made += 1
                yield mk_share(dict(recipe=r, cls=cn, how=how))
                continue
        cn, name, kind = table[order[(start + j) % len(order)]]
        j += 1
        if name in M.UNCALLABLE:
            continue
        r = G.recipe_for(cn, rng)
        if r is None:
            continue
        modes = ["A", "B"]
        if kind == "switch":
            modes = ["A", "B", "C", "C", "C"]
        mode = rng.choice(modes)
        hows = ["copy", "copy", "copy", "deepcopy"]
        extra = [h for h in copy_modes(getattr(C, cn)) if h in ("nodata", "noarray")]
        how = rng.choice(hows if mode == "C" else hows + extra)
        p = dict(recipe=r, cls=cn, op=name, kind=kind, aseed=rng.randrange(1 << 30), mode=mode, how=how)
        if mode != "C" and rng.random() < 0.3:
            # a history: further operations of the same class applied to the same receiver afterwards
            ops_cn = [t for t in table if t[0] == cn and t[1] not in M.UNCALLABLE]
            p["then"] = [[t[1], t[2], rng.randrange(1 << 30)] for t in (rng.choice(ops_cn) for _ in range(rng.randint(1, 3)))]
        made += 1
        yield mk_meth(p)


# --------------------------------------------------------------------------- implementation side
def _settle(x):
    """touch the accessors that synchronise lazily (units of data from properties, inherited properties …)"""
    try:
        return F.fp(x)
    except fw.HarnessError:
        raise
    except Exception:
        return None


def _shared_idx(gx, gy):
    return sorted(idx for ident, idx in gx.by_id.items() if ident in gy.by_id)


def impl(c):
    p = c.payload
    c.extra = {}
    label, x = G.build(p["recipe"])
    if label != p["cls"]:
        raise fw.HarnessError(f"recipe built a {label}, expected {p['cls']}")
    if c.stream == "C04.share":
        return impl_share(c, x)
    return impl_meth(c, x)


def impl_share(c, x):
    p = c.payload
    _settle(x)
    y = do_copy(x, p["how"])
    gx = H.Graph(x)
    gy = H.Graph(y)
    sh = _shared_idx(gx, gy)
    how = p["how"] if p["how"] in ("nodata", "noarray") else "copy"
    c.line = f"C04.share how={how} tree={gx.text()}"
    c.nontrivial = len(gx.cells) > 1
    c.extra["cells"] = len(gx.cells)
    c.extra["paths"] = {i: (gx.cells[i].path or "/", gx.cells[i].kind, gx.cells[i].cls) for i in sh}
    return "shared=" + fw.fmt_list(sh)


def _call(fn):
    try:
        with contextlib.redirect_stdout(_dn):
            return "ok", fn()
    except fw.HarnessError:
        raise
    except Exception as e:  # an operation refusing its arguments is an outcome like any other
        return "raised:" + fw.exc_enum(e), None


def _follow_up(r, rng):
    """one further in-place mutation of a returned object (is the result independent of the receiver?)"""
    C = cfdm()
    done = []
    try:
        if isinstance(r, C.core.Data) and r.size and r.size == r.size:
            r[...] = -3
            done.append("data[...]=-3")
        elif hasattr(r, "get_data") and r.get_data(None) is not None and r.get_data(None).size:
            r.get_data()[...] = -3
            done.append("data[...]=-3")
    except Exception:
        pass
    for name, args in (("set_property", ("long_name", "mutated result")), ("nc_set_variable", ("mutated",)),
                       ("set_units", ("zz",))):
        fn = getattr(r, name, None)
        if fn is not None:
            try:
                fn(*args)
                done.append(name)
            except Exception:
                pass
    try:
        if hasattr(r, "constructs") and hasattr(r, "domain_axes"):
            for k, cc in r.constructs.filter_by_data(todict=True).items():
                try:
                    cc.set_property("long_name", "mutated construct of result")
                    if cc.has_data() and cc.data.size:
                        cc.data[...] = -4
                    b = cc.get_bounds(None) if hasattr(cc, "get_bounds") else None
                    if b is not None and b.has_data():
                        b.data[...] = -5
                    done.append("construct " + k)
                except Exception:
                    pass
        b = r.get_bounds(None) if hasattr(r, "get_bounds") else None
        if b is not None and b.get_data(None) is not None:
            b.data[...] = -5
            done.append("bounds[...]=-5")
    except Exception:
        pass
    return done


def impl_meth(c, x):
    p = c.payload
    C = cfdm()
    mode = p["mode"]
    name, kind = p["op"], p["kind"]
    fails = []
    _settle(x)
    y = do_copy(x, p["how"])
    fy_before = _settle(y)
    arng = fw.rng_for(p["aseed"], "C04args")
    if mode == "A":
        recv, other, who = y, x, "copy"
    else:
        recv, other, who = x, y, "src"
    use_other = arng.random() < 0.4 and mode != "C"
    inplace = None
    if kind == "switch":
        inplace = False if mode == "C" else (True if arng.random() < 0.7 else None)
    argfail = False
    try:
        mc = M.make_call(recv, name, kind, arng, other=other if use_other else None, inplace=inplace)
    except fw.HarnessError:
        raise
    except Exception:
        # the argument generator itself tripped over the state of the object (counted in the evidence)
        mc, argfail = None, True
    gx = H.Graph(x)
    tree = gx.text()
    if mc is None:
        st = "argfail" if argfail else "uncallable"
        c.extra.update(status=st, fails=[])
        c.tags = c.tags + ("status:" + st, "op:" + p["cls"] + "." + name + ":" + st)
        c.nontrivial = False
        c.line = f"C04.meth how=copy who={who} tree={tree} writes=[]"
        return "other=same disc=ok"
    call, desc = mc
    fo0 = F.fp(other)
    fr0 = F.fp(recv) if mode == "C" else None
    g0 = gx if recv is x else H.Graph(recv)
    status, res = _call(call)
    for name2, kind2, aseed2 in p.get("then", ()):
        arng_t = fw.rng_for(aseed2, "C04args")
        try:
            mc_t = M.make_call(recv, name2, kind2, arng_t, other=None,
                               inplace=(True if kind2 == "switch" and arng_t.random() < 0.8 else None))
        except fw.HarnessError:
            raise
        except Exception:
            mc_t = None
        if mc_t is not None:
            st_t, _ = _call(mc_t[0])
            desc += " ; " + mc_t[1] + ("" if st_t == "ok" else " [" + st_t + "]")
    writes = H.observe_writes(g0)
    fo1 = F.fp(other)
    other_same = fo0 == fo1
    if not other_same:
        fails.append(dict(kind="other-changed", diff=F.diff(fo0, fo1)))
    recv_changed = bool(writes)
    if mode == "C":
        fr1 = F.fp(recv)
        if fr0 != fr1:
            fails.append(dict(kind="receiver-changed", diff=F.diff(fr0, fr1)))
        # the in-place form on the copy, same arguments
        arng2 = fw.rng_for(p["aseed"], "C04args")
        arng2.random()
        mc2 = M.make_call(y, name, kind, arng2, other=None, inplace=True)
        status2, res2 = _call(mc2[0])
        if status.split(":")[0] != status2.split(":")[0]:
            fails.append(dict(kind="status-differs", off=status, on=status2))
        elif status == "ok":
            if res is None or not hasattr(res, "copy"):
                fails.append(dict(kind="no-result", got=repr(res)[:60]))
            else:
                a, b = F.fp(res), F.fp(y)
                if a != b:
                    fails.append(dict(kind="result-differs", diff=F.diff(a, b)))
                # effective coverage: which nested components did the in-place form change on this receiver?
                if fy_before is not None:
                    opname = p["cls"] + "." + name
                    present = F.components_present(fy_before)
                    changed = F.components_changed(fy_before, b)
                    c.tags = c.tags + tuple(f"has:{opname}:{k}" for k in sorted(present)) + \
                        tuple(f"eff:{opname}:{k}" for k in sorted(changed))
                fr2 = F.fp(recv)
                done = _follow_up(res, arng)
                fr3 = F.fp(recv)
                if fr2 != fr3:
                    fails.append(dict(kind="result-aliases-receiver", after=done, diff=F.diff(fr2, fr3)))
    c.extra.update(status=status, desc=desc, fails=fails, nwrites=len(writes))
    c.tags = c.tags + ("status:" + status.split(":")[0], "op:" + p["cls"] + "." + name + ":" + status.split(":")[0],
                       "receiver:" + ("written" if recv_changed else "untouched"))
    c.nontrivial = len(gx.cells) > 1 and (status == "ok" or recv_changed)
    how = p["how"] if p["how"] in ("nodata", "noarray") else "copy"
    c.line = f"C04.meth how={how} who={who} tree={tree} writes=[{';'.join(writes)}]"
    return f"other={'same' if other_same else 'changed'} disc=ok"


# --------------------------------------------------------------------------- agreement and oracle
def _parse_share(s):
    import re
    m = re.match(r"shared=\[([0-9,]*)\](?: wf=(\d) cells=(\d+))?$", s or "")
    if not m:
        return None
    return set(int(v) for v in m.group(1).split(",") if v), m.group(2), m.group(3)


def agree(c):
    if c.stream == "C04.share":
        a, b = _parse_share(c.impl_out), _parse_share(c.model_out)
        if a is None or b is None:
            return False
        if b[2] is not None and isinstance(c.extra, dict) and int(b[2]) != c.extra.get("cells"):
            return False
        return a[0] <= b[0]
    return c.impl_out == c.model_out


def oracle(c):
    """the fingerprint comparisons made while the real operation ran (the fingerprint goes through public
    accessors only and never through equals/copy)"""
    if not isinstance(c.extra, dict):
        return "the harness could not drive the case: " + str(c.impl_out)
    if c.stream == "C04.share":
        b = _parse_share(c.model_out)
        if b is not None and b[1] == "0":
            c.tags = c.tags + ("outside-wf-hypothesis",)
        return None
    fails = c.extra.get("fails") or []
    if not fails:
        return None
    f = fails[0]
    return f"{c.payload['cls']}.{c.extra.get('desc', c.payload['op'])} mode {c.payload['mode']}: {f['kind']}: " + \
        "; ".join(str(d) for d in (f.get("diff") or [f.get("off", ""), f.get("on", ""), f.get("got", "")]))[:600]


S_SETDATA = "set_data-inplace-false:result-built-from-copy-without-data-loses-nested-data"


def classify(c):
    if not isinstance(c.extra, dict) or c.stream != "C04.meth":
        return None
    fails = c.extra.get("fails") or []
    if not fails:
        return None
    p = c.payload
    kinds = [f["kind"] for f in fails]
    if p["op"] == "set_data" and p["mode"] == "C" and kinds == ["result-differs"]:
        d = fails[0]["diff"]
        nested = ("/get_bounds", "/constructs", "/get_interior_ring")
        if d and all(any(t in line.split(":")[0] for t in nested) for line in d):
            return S_SETDATA
    # any other failure: one report per (kind of failure, operation, mode)
    return f"{kinds[0]}:{p['cls']}.{p['op']}:mode-{p['mode']}"


def shrink(c, run):
    """drop the operations of a history that are not needed for the failure"""
    p = c.payload
    if c.stream != "C04.meth" or not p.get("then"):
        return None
    best = None
    cur = dict(p)
    changed = True
    while changed and cur.get("then"):
        changed = False
        for i in range(len(cur["then"])):
            q = dict(cur)
            q["then"] = cur["then"][:i] + cur["then"][i + 1:]
            if not q["then"]:
                q.pop("then")
            c2 = mk_meth(q)
            try:
                c2.impl_out = impl(c2)
                c2.oracle_fail = oracle(c2)
            except Exception:
                continue
            if c2.oracle_fail:
                if c2.line is not None:
                    try:
                        c2.model_out = fw.model_run([c2.line])[0]
                    except Exception:
                        pass
                best, cur, changed = c2, q, True
                break
    return best


# --------------------------------------------------------------------------- evidence
def extra_coverage(run):
    ops = {}
    for k in list(run.dist):
        if k.startswith("op:"):
            _, name, st = k.split(":")
            ops.setdefault(name, {})[st] = run.dist.pop(k)
    has, eff = {}, {}
    for k in list(run.dist):
        if k.startswith("has:") or k.startswith("eff:"):
            tag, name, comp = k.split(":")
            (has if tag == "has" else eff).setdefault(name, {})[comp] = run.dist.pop(k)
    effective = {}
    for name in sorted(has):
        ch = eff.get(name, {})
        effective[name] = dict(changed={k: ch[k] for k in sorted(ch)},
                               present_never_changed=sorted(k for k in has[name] if k not in ch),
                               receivers=max(has[name].values()))
    switch_ops = sorted(f"{cn}.{n}" for cn, n, k in op_table() if k == "switch")
    table = op_table()
    all_ops = sorted(set(f"{cn}.{n}" for cn, n, _ in table))
    never_ok = sorted(n for n in ops if "ok" not in ops[n])
    C = cfdm()
    no_instance = sorted(cn for cn in G.in_scope_classes() if cn in G._no_instance)
    return dict(
        public_classes=len(G.public_classes()),
        classes_in_scope=len(G.in_scope_classes()),
        classes_out_of_scope=G.OUT_OF_SCOPE,
        operations_in_table=len(all_ops),
        operations_exercised=len(ops),
        operations_returned_normally_at_least_once=len(ops) - len(never_ok),
        operations_only_raised_this_run=never_ok[:80],
        uncallable_operations=dict(size=len(M.UNCALLABLE), names=M.UNCALLABLE),
        inplace_switchable_operations=len(switch_ops),
        inplace_switchable_never_run_in_place_this_run=[n for n in switch_ops if n not in effective],
        inplace_switchable_without_any_effect_this_run=[n for n in effective if not effective[n]["changed"]],
        effective_coverage_note="per in-place-switchable (class, method), over the mode-C cases in which both forms returned: "
                                "`changed` = nested components of the receiver that the in-place form changed at least once "
                                "(with the number of cases), `present_never_changed` = components some receiver had but no "
                                "call changed (a no-op there is not coverage of that component)",
        effective_coverage=effective,
        classes_without_generated_instance=["BiQuadraticLatitudeLongitudeSubarray", "QuadraticLatitudeLongitudeSubarray"],
    )
