"""C04 — copies are independent; operations that are not in-place are pure.

Lean side: lean/Cfdm/Model/Heap.lean (cell trees with addresses, `copyT` driven by the table of
cfdm's copy discipline, writes at addresses, the in-place decorator), Lemmas/Heap.lean,
Props/C04.lean, Driver/C04.lean.

Streams (both over every public class found by reflection over the cfdm namespace — cfdm has no
`__all__` — and generated instances, harness/gen/objects_C04.py):

  C04.share  the real object graphs of x and of x.copy() / copy.deepcopy(x) / x.copy(data=False) /
             Data.copy(array=False) are walked by id(); the cells of x that the copy still reaches are
             compared with the cells the model's copy keeps.  Every cell shared by the implementation
             must be predicted by the model (an extra shared cell is a disagreement).
  C04.meth   one public operation (method, property, indexing dunder; reflection) is applied with
             generated arguments to the copy (mode A), to the source (mode B) or — for operations with
             an `inplace` switch — to the source with the switch off (mode C).  Observed:
               * the independent structural fingerprint (harness/fingerprint_C04.py) of the OTHER object
                 before/after;
               * mode C: the receiver's own fingerprint before/after, the returned result against the
                 in-place result on a copy, and — after one further mutation of the result — the receiver
                 again;
               * the primitive heap writes of the call (cells of the receiver's object graph whose
                 contents changed), which the Lean driver replays on the model's copy: the model says
                 whether the other object's fingerprint can change, whether every write went through a
                 cell that copies re-create, and whether every write is an instance of an in-place
                 mutation site that the translator (harness/heapsites_C04.py, run by pre()) extracted
                 from the sources into lean/Cfdm/Generated/HeapSites.lean (expl=ok).
             Arguments of in-place-switchable methods come in three styles: valid, invalid (the call is
             expected to raise, possibly half-way: the receiver must be unchanged all the same) and valid but
             unusual (explicit axes= differing from / permuting the current data axes, square data with swapped
             axes, data-less template receivers).

  C04.share also covers: pickle round trips (nothing may be shared; fingerprints equal; mutation of either side
             leaves the other unchanged), subspaces x[indices] (the subspaced data may not share the stored buffer;
             mutual mutation check), and — compared EXACTLY, their intended sharing being a specification —
             Constructs.shallow_copy(), Domain.fromconstructs(c).constructs (a view) and Field.domain.  Six cases in
             ten start from an object that was given non-empty nested dictionaries (global / group attributes),
             array-valued properties / parameters / qualifiers and a mutable value under `custom`.
"""
import contextlib
import copy as _copy
import inspect
import json
import os
import pickle

from .. import fw
from .. import fingerprint_C04 as F
from .. import heapsites_C04 as S
from .. import heapwalk_C04 as H
from .. import methods_C04 as M
from ..gen import objects_C04 as G

REQUIRED = [
    "C04_copy_sep",
    "C04_copy_shares_only_kept",
    "C04_frame",
    "C04_table_disciplined",
    "C04_copy_independent",
    "C04_inplace_off",
    "C04_inplace_off_cfdm",
    "C04_poke_counterexample",
    "C04_old_apply_masking_counterexample",
    "C04_old_set_data_counterexample",
    "C04_wf_needed",
    "C04_code_sites_ok",
    "C04_code_sites_disciplined",
    "C04_copy_independent_code",
    "C04_site_check_rejects",
    "C04_site_check_needed",
    "C04_inplace_off_raising",
    "C04_axes_via_self_counterexample",
    "C04_inplace_off_result_independent",
    "C04_getitem_independent",
    "C04_pickle_independent",
    "C04_view_spec",
    "C04_view_in_sync",
    "C04_shallow_copy_membership_independent",
    "C04_shallow_copy_shares_constructs",
]
BUDGET = {"quick": 9000, "thorough": 150000}
QUICK_JOBS = 8
TIME_LIMIT = {"quick": 150, "thorough": 1350}
RULE = (
    "a case is nontrivial when the object has at least one mutable cell besides itself and (method stream) the call "
    "returned normally, changed the receiver, or was made with the in-place switch off (a raising call with the switch "
    "off is a case of 'receiver unchanged after a raising call'); (share stream) the way of copying was accepted; "
    "distinct = distinct (recipe, operation, argument seed, mode, argument style) tuples"
)
ASSUMPTIONS = [
    "scope = every public class of the cfdm namespace except the ones listed with reasons in harness/gen/objects_C04.py "
    "OUT_OF_SCOPE (settings, reader/writer plumbing, abstract bases); instances come from example fields 0-11 and their "
    "components, the shared random field generator, ab-initio ragged/gathered/subsampled/mesh arrays, fields read back "
    "lazily from files (both backends) and stand-alone constructor calls",
    "observable state = what public accessors return (reflective scan of every zero-argument get_/has_/is_/nc_* reader, "
    "data values+mask+dtype, nested components, construct membership); lazily cached values, file handles, the "
    "realisation of lazy data, `Bounds.inherited_properties` (a cache re-derived from the parent by every get_bounds()) "
    "and leftover private attributes are not state",
    "arguments handed to an operation are fresh objects (or the other object, for readers such as equals): sharing that "
    "the caller asks for (copy=False arguments, Field(source=f, copy=False), Constructs.shallow_copy, the domain view of "
    "a field) is documented behaviour and not a copy in the sense of the property",
    "`custom` is shallow-copied by design and file arrays share their attributes/storage_options dictionaries: the model "
    "predicts these cells as shared and proves that no operation of the method table writes through them",
    "the Lean theorems hold for trees in which no cell sits both at a re-created and at a handed-over position (wf=1, "
    "reported per instance by the driver); the count of instances outside this hypothesis is in the evidence",
    "views (Field.domain, Domain.fromconstructs, Constructs.shallow_copy) are not copies: their intended sharing is the "
    "specification (model: viewT / domainOfT / shallowCopyTbl) and the implementation must share exactly those cells",
    "the table of in-place mutation sites (lean/Cfdm/Generated/HeapSites.lean) is extracted from the sources by "
    "harness/heapsites_C04.py: statements that mutate a container fetched from the storage of self (or of an alias of "
    "self, or an attribute of an object that an accessor of self hands out); a private method counts for a class family "
    "when it is reachable from a public operation of a class of the family through calls on self, or is invoked "
    "somewhere on another object (not for NumpyArray/SparseArray, whose copies share `_components`: nothing calls a "
    "private method on them from outside); every primitive write observed by the method stream must be an instance of "
    "a site of that table (expl=ok), which polices the translator's completeness on every run",
]

_dn = open(os.devnull, "w")


def cfdm():
    return G.cfdm()


# --------------------------------------------------------------------------- the table of in-place mutation sites
_sites = {}


def site_rows():
    """(rows, classification, statistics) extracted from the sources of the cfdm that is under test"""
    if not _sites:
        C = cfdm()
        repo = os.path.dirname(os.path.dirname(os.path.abspath(C.__file__)))
        try:
            sites, funcs, ext = S.scan_repo(repo)
        except SyntaxError as e:
            raise fw.HarnessError(f"cannot parse the sources of cfdm: {e}")
        classes = [getattr(C, n) for n in G.in_scope_classes()]

        def fam(K):
            try:
                return H.family(K.__new__(K))
            except Exception:
                return "o"
        rows, reach = S.attribute(repo, sites, funcs, ext, classes, fam)
        _sites.update(rows=rows, cls=S.classification(rows), statements=len(sites), repo=repo,
                      source_writes=[r for r in rows if r[1].startswith("source:")])
    return _sites


def pre():
    """regenerate lean/Cfdm/Generated/HeapSites.lean from the sources (theorem C04_code_sites_ok is then re-checked
    by the build)"""
    bad = S.selftest()
    if bad:
        raise fw.HarnessError(bad)
    info = site_rows()
    fw.write_if_changed(fw.LEAN / "Cfdm" / "Generated" / "HeapSites.lean", S.lean_table(info["rows"], "$CFDM_REPO (default /repo)"))


# --------------------------------------------------------------------------- operation table by reflection
_table = None


def op_table():
    """[(class name, op name, kind)] over every in-scope public class (sorted, deterministic)."""
    global _table
    if _table is None:
        C = cfdm()
        t = []
        for cn in G.in_scope_classes():
            K = getattr(C, cn)
            if not hasattr(K, "copy"):
                continue
            for name, kind in M.operations(K):
                t.append((cn, name, kind))
        _table = t
    return _table


FOCUS_NAMES = {"__getitem__", "__setitem__", "set_data", "del_data", "set_construct", "del_construct", "set_data_axes",
               "nc_set_global_attribute", "nc_set_global_attributes", "nc_clear_global_attributes", "nc_set_group_attribute",
               "nc_set_group_attributes", "nc_clear_group_attributes", "set_bounds", "del_bounds", "set_interior_ring",
               "set_properties", "set_property", "del_property", "clear_properties", "set_parameters", "set_qualifier",
               "set_coordinates", "nc_set_hdf5_chunksizes", "replace", "get_domain", "domain", "shallow_copy", "copy"}
FOCUS_CLASSES = {"Field", "Domain", "Data", "AuxiliaryCoordinate", "DimensionCoordinate", "DomainAncillary", "Bounds",
                 "Constructs", "CellMethod", "CoordinateReference", "FieldAncillary", "CellMeasure"}
_focus = None


def focus_ops():
    """the operations behind the anchored mechanisms: every in-place-switchable method of every class, and the
    subspacing / assignment / component-replacing / netCDF-attribute operations of the main classes"""
    global _focus
    if _focus is None:
        _focus = [t for t in op_table() if t[1] not in M.UNCALLABLE and
                  (t[2] == "switch" or (t[0] in FOCUS_CLASSES and t[1] in FOCUS_NAMES))]
    return _focus


def copy_modes(K):
    """which ways of copying the class offers"""
    out = ["copy", "copy", "deepcopy"]
    try:
        ps = inspect.signature(K.copy).parameters
    except (TypeError, ValueError):
        ps = {}
    if "data" in ps:
        out.append("nodata")
    if "array" in ps:
        out.append("noarray")
    out.append("pickle")
    try:
        if "source" in inspect.signature(K.__init__).parameters:
            out.append("ctor")      # K(source=x): what copy() does for most classes, spelled by the user
    except (TypeError, ValueError):
        pass
    C = cfdm()
    if issubclass(K, C.Constructs):
        out += ["shallow", "shallow", "view", "view"]
    if issubclass(K, C.Field):
        out += ["domain", "domain"]
    if any("__getitem__" in vars(B) for B in K.__mro__ if B is not object) and not issubclass(K, C.Constructs):
        out += ["getitem", "getitem"]
    return out


def do_copy(x, how, rng=None):
    if how == "pickle":
        return pickle.loads(pickle.dumps(x))
    if how == "ctor":
        return type(x)(source=x)
    if how == "shallow":
        return x.shallow_copy()
    if how == "view":
        # the public route to a view of a collection
        return cfdm().Domain.fromconstructs(x).constructs
    if how == "domain":
        return x.domain
    if how == "getitem":
        return x[M._index(x, rng or fw.rng_for(0, "C04getitem"))]
    if how == "copy":
        return x.copy()
    if how == "deepcopy":
        return _copy.deepcopy(x)
    if how == "nodata":
        return x.copy(data=False)
    if how == "noarray":
        return x.copy(array=False)
    raise fw.HarnessError("unknown copy mode " + how)


# --------------------------------------------------------------------------- generation
def mk_share(p):
    return fw.Case("C04.share", p, line=None, tags=("cls:" + p["cls"], "how:" + p["how"], "src:" + p["recipe"]["src"]) +
                   (("deco",) if p.get("deco") else ()))


def mk_meth(p):
    return fw.Case("C04.meth", p, line=None,
                   tags=("cls:" + p["cls"], "mode:" + p["mode"], "kind:" + p["kind"], "src:" + p["recipe"]["src"],
                         "how:" + p["how"], "history:" + str(1 + len(p.get("then", ()))),
                         "args:" + p.get("astyle", "valid")) + tuple("prep:" + q for q in p.get("prep", ())) +
                   (("deco",) if p.get("deco") else ()))


def from_payload(stream, payload):
    if stream == "C04.share":
        return mk_share(payload)
    if stream == "C04.meth":
        return mk_meth(payload)
    raise fw.HarnessError("unknown stream " + stream)


def gen(rng, tier, n):
    C = cfdm()
    table = op_table()
    order = list(range(len(table)))
    fw.rng_for(0, "C04-op-order").shuffle(order)     # the same order in every worker
    start = rng.randrange(len(order))
    classes = sorted(set(t[0] for t in table))
    switches = [t for t in table if t[2] == "switch"]
    j = 0
    made = 0
    turn = 0
    while made < n:
        turn += 1
        # two cases in eight: an operation with an in-place switch, called with the switch off
        if turn % 8 in (3, 6) and switches:
            cn, name, kind = rng.choice(switches)
            r = G.recipe_for(cn, rng)
            if r is not None:
                made += 1
                p = dict(recipe=r, cls=cn, op=name, kind=kind, aseed=rng.randrange(1 << 30), mode="C",
                         how=rng.choice(["copy", "copy", "deepcopy"]))
                # half of these: invalid arguments (the call raises, possibly half-way) or valid but unusual ones;
                # sometimes on a data-less template
                u = rng.random()
                if u < 0.3:
                    p["astyle"] = "invalid"
                elif u < 0.5:
                    p["astyle"] = "unusual"
                if name in ("set_data", "insert_dimension", "squeeze", "transpose", "apply_masking") and rng.random() < 0.12:
                    p["prep"] = ["deldata"]
                yield mk_meth(p)
            continue
        # one sharing-graph case in eight, the rest walk the operation table cyclically from a random start
        if turn % 8 == 0:
            # every fourth of them: a view / shallow copy / subspace / pickle of a field or a collection
            if turn % 32 == 0:
                cn = rng.choice(["Field", "Field", "Constructs", "Constructs", "Domain", "Data", "AuxiliaryCoordinate",
                                 "DimensionCoordinate"])
                hows = [h for h in copy_modes(getattr(C, cn)) if h in ("domain", "view", "shallow", "getitem", "pickle")]
            elif turn % 32 == 16:
                # the classes that store nested dictionaries in their netCDF names (global / group attributes)
                cn = rng.choice(["Field", "Field", "Domain"])
                hows = [h for h in copy_modes(getattr(C, cn)) if h in ("copy", "deepcopy", "ctor", "nodata")]
            else:
                cn = rng.choice(classes)
                hows = copy_modes(getattr(C, cn))
            r = G.recipe_for(cn, rng)
            if r is not None:
                how = rng.choice(hows)
                made += 1
                p = dict(recipe=r, cls=cn, how=how, iseed=rng.randrange(1 << 30))
                if rng.random() < 0.6 or turn % 32 == 16:
                    p["deco"] = True     # start from an object with NON-EMPTY nested dictionaries / mutable values
                yield mk_share(p)
                continue
        # one case in 32: Field.set_data / transpose / squeeze / insert_dimension with the switch off and explicit,
        # unusual or invalid axes, on a square, a data-less or an ordinary receiver
        if turn % 32 == 13:
            name = rng.choice(["set_data", "set_data", "set_data", "transpose", "squeeze", "insert_dimension"])
            kind = "switch"
            v = rng.random()
            if v < 0.45:
                r = dict(src="sq", seed=rng.randrange(1 << 40), pick=0)
            else:
                r = G.recipe_for("Field", rng)
            if r is not None:
                p = dict(recipe=r, cls="Field", op=name, kind=kind, aseed=rng.randrange(1 << 30), mode="C",
                         how=rng.choice(["copy", "copy", "deepcopy"]), astyle=rng.choice(["unusual", "unusual", "invalid"]))
                if rng.random() < 0.3:
                    p["prep"] = ["deldata"]
                made += 1
                yield mk_meth(p)
                continue
        # one case in eight: an operation of the focus list (the anchored mechanisms), any mode, any argument style
        if turn % 8 == 5:
            foc = focus_ops()
            if foc:
                cn, name, kind = rng.choice(foc)
                r = G.recipe_for(cn, rng)
                if r is not None:
                    mode = rng.choice(["A", "B", "C"] if kind == "switch" else ["A", "B"])
                    p = dict(recipe=r, cls=cn, op=name, kind=kind, aseed=rng.randrange(1 << 30), mode=mode,
                             how=rng.choice(["copy", "copy", "deepcopy"]))
                    if kind == "switch":
                        u = rng.random()
                        if u < 0.25:
                            p["astyle"] = "invalid"
                        elif u < 0.5:
                            p["astyle"] = "unusual"
                    if rng.random() < 0.5:
                        p["deco"] = True
                    made += 1
                    yield mk_meth(p)
                    continue
        cn, name, kind = table[order[(start + j) % len(order)]]
        j += 1
        if name in M.UNCALLABLE:
            continue
        r = G.recipe_for(cn, rng)
        if r is None:
            continue
        modes = ["A", "B"]
        if kind == "switch":
            modes = ["A", "B", "C", "C", "C"]
        mode = rng.choice(modes)
        hows = ["copy", "copy", "copy", "deepcopy"]
        extra = [h for h in copy_modes(getattr(C, cn)) if h in ("nodata", "noarray", "ctor", "pickle")]
        how = rng.choice(hows if mode == "C" else hows + extra)
        p = dict(recipe=r, cls=cn, op=name, kind=kind, aseed=rng.randrange(1 << 30), mode=mode, how=how)
        if mode != "C" and rng.random() < 0.3:
            # a history: further operations of the same class applied to the same receiver afterwards
            ops_cn = [t for t in table if t[0] == cn and t[1] not in M.UNCALLABLE]
            p["then"] = [[t[1], t[2], rng.randrange(1 << 30)] for t in (rng.choice(ops_cn) for _ in range(rng.randint(1, 3)))]
        made += 1
        yield mk_meth(p)


# --------------------------------------------------------------------------- implementation side
def _settle(x):
    """touch the accessors that synchronise lazily (units of data from properties, inherited properties …)"""
    try:
        return F.fp(x)
    except fw.HarnessError:
        raise
    except Exception:
        return None


def _shared_idx(gx, gy):
    return sorted(idx for ident, idx in gx.by_id.items() if ident in gy.by_id)


def force_nested(x, rng):
    """give x non-empty nested dictionaries and mutable values wherever its class stores some: global and group
    attributes of the netCDF names, array / list valued properties, parameters and qualifiers, a value under
    `custom`; for a field also on some of its constructs"""
    C = cfdm()
    np = __import__("numpy")

    def one(o, deep=True):
        def tryit(name, *a):
            fn = getattr(o, name, None)
            if fn is not None:
                try:
                    fn(*a)
                    return True
                except Exception:
                    pass
            return False
        tryit("nc_set_global_attributes", {"history": None, "flags": np.array([1, 2]), "comment": "global comment"})
        tryit("nc_set_group_attributes", {"institution": "x", "vec": [1, 2]})
        if rng.random() < 0.7:
            tryit("set_property", "flag_values", np.array([1, 2, 4], dtype="i4"))
        if rng.random() < 0.4:
            tryit("set_property", "valid_range", [0.0, 10.0])
        if rng.random() < 0.5:
            tryit("set_parameter", "towgs84", np.array([1.0, 2.0]))
        if rng.random() < 0.5:
            tryit("set_qualifier", "interval", [C.Data(1, "hour")])
        if rng.random() < 0.25 and isinstance(o, C.core.abstract.Container):
            try:
                o._custom["verif_cache"] = [1, 2]
            except Exception:
                pass
    one(x)
    if hasattr(x, "constructs") and hasattr(x, "domain_axes"):
        for k, cc in sorted(x.constructs.todict().items()):
            if rng.random() < 0.35:
                one(cc)
    elif isinstance(x, C.Constructs):
        for k, cc in sorted(x.todict().items()):
            if rng.random() < 0.35:
                one(cc)
    return x


def impl(c):
    p = c.payload
    c.extra = {}
    label, x = G.build(p["recipe"])
    if label != p["cls"]:
        raise fw.HarnessError(f"recipe built a {label}, expected {p['cls']}")
    if p.get("deco"):
        force_nested(x, fw.rng_for(p.get("iseed", p.get("aseed", 0)), "C04deco"))
    if c.stream == "C04.share":
        return impl_share(c, x)
    return impl_meth(c, x)


EXACT_HOWS = ("shallow", "view", "domain")      # views: the intended sharing is a specification, compared both ways
MODEL_HOW = {"deepcopy": "copy", "ctor": "copy"}


def _nested_tags(gx):
    """does the object hold non-empty nested dictionaries in its netCDF names (global / group attributes), mutable
    property values, values under `custom`?  (what a shallow copy of those components would alias)"""
    out = set()
    for cell in gx.cells:
        pth = cell.path or ""
        if cell.kind == "D" and cell.kids and pth.endswith(("/netcdf/global_attributes", "/netcdf/group_attributes")):
            out.add("nested:netcdf-attributes")
        elif "/properties/" in pth and cell.kind in "bLDM":
            out.add("nested:mutable-property-value")
        elif "/custom/" in pth:
            out.add("nested:custom-value")
        elif "/parameters/" in pth and cell.kind in "bLDMO":
            out.add("nested:mutable-parameter-value")
        elif "/qualifiers/" in pth and cell.kind in "bLDMO":
            out.add("nested:mutable-qualifier-value")
    return tuple(sorted(out))


def impl_share(c, x):
    p = c.payload
    C = cfdm()
    _settle(x)
    how = p["how"]
    fx0 = F.fp(x) if how in ("getitem", "pickle", "domain", "view", "shallow") else None
    status, y = _call(lambda: do_copy(x, how, fw.rng_for(p.get("iseed", 0), "C04getitem")))
    gx = H.Graph(x)
    c.extra["cells"] = len(gx.cells)
    c.tags = c.tags + _nested_tags(gx)
    mhow = MODEL_HOW.get(how, how)
    if how == "getitem" and not (isinstance(x, C.core.Data) or hasattr(x, "get_data")):
        mhow = "pickle"     # an array class hands out a numpy array: it must not be a view of the stored one
    elif how == "getitem" and not isinstance(x, C.core.Data) and \
            M._index(x, fw.rng_for(p.get("iseed", 0), "C04getitem")) is Ellipsis:
        mhow = "copy"       # `x[...]` of a construct or field is documented to be `x.copy()`
    c.line = f"C04.share how={mhow} tree={gx.text()}"
    c.nontrivial = len(gx.cells) > 1 and status == "ok"
    if status != "ok":
        # the way of copying is refused for this object (not picklable, index refused, …): nothing to compare
        c.tags = c.tags + ("status:" + status,)
        c.line = None
        c.extra["skipped"] = status
        return "skipped:" + status
    gy = H.Graph(y)
    sh = _shared_idx(gx, gy)
    c.extra["paths"] = {i: (gx.cells[i].path or "/", gx.cells[i].kind, gx.cells[i].cls) for i in sh}
    fails = []
    if fx0 is not None:
        # making the copy / view / subspace must not change the source; and (pickle, getitem) the result is independent
        fx1 = F.fp(x)
        if fx0 != fx1:
            fails.append(dict(kind="source-changed-by-" + how, diff=F.diff(fx0, fx1)))
        if how in ("getitem", "pickle") and hasattr(y, "copy") and not isinstance(y, __import__("numpy").ndarray):
            arng = fw.rng_for(p.get("iseed", 0), "C04follow")
            fy0 = _settle(y)
            done = _follow_up(y, arng)
            fx2 = F.fp(x)
            if fx1 != fx2:
                fails.append(dict(kind=how + "-result-aliases-source", after=done, diff=F.diff(fx1, fx2)))
            if how == "pickle" and fy0 is not None and fy0 != fx1:
                fails.append(dict(kind="pickle-differs", diff=F.diff(fx1, fy0)))
            fy1 = _settle(y)
            done2 = _follow_up(x, arng)
            fy2 = _settle(y)
            if fy1 is not None and fy1 != fy2:
                fails.append(dict(kind=how + "-source-aliases-result", after=done2, diff=F.diff(fy1, fy2)))
        elif how == "getitem" and isinstance(y, __import__("numpy").ndarray) and y.size:
            try:
                y[...] = 0 if y.dtype.kind in "fiub" else y.flat[0]
                if __import__("numpy").ma.isMA(y):
                    y[...] = __import__("numpy").ma.masked
            except Exception:
                pass
            fx2 = F.fp(x)
            if fx1 != fx2:
                fails.append(dict(kind="getitem-result-aliases-source", after=["array[...]=0"], diff=F.diff(fx1, fx2)))
    c.extra["fails"] = fails
    return "shared=" + fw.fmt_list(sh)


def _call(fn):
    try:
        with contextlib.redirect_stdout(_dn):
            return "ok", fn()
    except fw.HarnessError:
        raise
    except Exception as e:  # an operation refusing its arguments is an outcome like any other
        return "raised:" + fw.exc_enum(e), None


def _follow_up(r, rng):
    """one further in-place mutation of a returned object (is the result independent of the receiver?)"""
    C = cfdm()
    done = []
    try:
        if isinstance(r, C.core.Data) and r.size and r.size == r.size:
            r[...] = -3
            done.append("data[...]=-3")
        elif hasattr(r, "get_data") and r.get_data(None) is not None and r.get_data(None).size:
            r.get_data()[...] = -3
            done.append("data[...]=-3")
    except Exception:
        pass
    for name, args in (("set_property", ("long_name", "mutated result")), ("nc_set_variable", ("mutated",)),
                       ("set_units", ("zz",))):
        fn = getattr(r, name, None)
        if fn is not None:
            try:
                fn(*args)
                done.append(name)
            except Exception:
                pass
    try:
        if hasattr(r, "constructs") and hasattr(r, "domain_axes"):
            for k, cc in r.constructs.filter_by_data(todict=True).items():
                try:
                    cc.set_property("long_name", "mutated construct of result")
                    if cc.has_data() and cc.data.size:
                        cc.data[...] = -4
                    b = cc.get_bounds(None) if hasattr(cc, "get_bounds") else None
                    if b is not None and b.has_data():
                        b.data[...] = -5
                    done.append("construct " + k)
                except Exception:
                    pass
        b = r.get_bounds(None) if hasattr(r, "get_bounds") else None
        if b is not None and b.get_data(None) is not None:
            b.data[...] = -5
            done.append("bounds[...]=-5")
    except Exception:
        pass
    return done


def impl_meth(c, x):
    p = c.payload
    C = cfdm()
    mode = p["mode"]
    name, kind = p["op"], p["kind"]
    fails = []
    for q in p.get("prep", ()):
        if q == "deldata" and hasattr(x, "del_data"):
            try:
                x.del_data(None)
            except Exception:
                pass
    style = p.get("astyle", "valid")
    _settle(x)
    try:
        y = do_copy(x, p["how"])
    except fw.HarnessError:
        raise
    except Exception:
        if p["how"] not in ("pickle", "ctor"):
            raise
        # this object cannot be pickled / rebuilt from source= (counted): use the plain copy
        y = x.copy()
        c.tags = c.tags + ("how-fallback:" + p["how"],)
    fy_before = _settle(y)
    arng = fw.rng_for(p["aseed"], "C04args")
    if mode == "A":
        recv, other, who = y, x, "copy"
    else:
        recv, other, who = x, y, "src"
    use_other = arng.random() < 0.4 and mode != "C"
    inplace = None
    if kind == "switch":
        inplace = False if mode == "C" else (True if arng.random() < 0.7 else None)
    argfail = False
    try:
        mc = M.make_call(recv, name, kind, arng, other=other if use_other else None, inplace=inplace, style=style)
    except fw.HarnessError:
        raise
    except Exception:
        # the argument generator itself tripped over the state of the object (counted in the evidence)
        mc, argfail = None, True
    gx = H.Graph(x)
    tree = gx.text()
    if mc is None:
        st = "argfail" if argfail else "uncallable"
        c.extra.update(status=st, fails=[])
        c.tags = c.tags + ("status:" + st, "op:" + p["cls"] + "." + name + ":" + st)
        c.nontrivial = False
        c.line = f"C04.meth how=copy who={who} tree={tree} writes=[]"
        return "other=same disc=ok expl=ok"
    call, desc = mc
    if getattr(call, "style", "valid") != style:
        c.tags = tuple(t for t in c.tags if not t.startswith("args:")) + ("args:valid",)
    if name == "set_data" and isinstance(recv, C.Field):
        # which kind of receiver / axes argument is this? (evidence: data-less templates, square data, permuted axes)
        try:
            cur = list(recv.get_data_axes(default=()))
            shp = tuple(recv.data.shape) if recv.has_data() else None
            t = ["setdata:" + ("dataless" if shp is None else ("square" if len(set(shp)) < len(shp) else "nonsquare"))]
            given = getattr(call, "kw", {}).get("axes")
            if given is None:
                t.append("setdata:axes-omitted")
            else:
                given = list(given)
                t.append("setdata:axes-" + ("same" if given == cur else ("permuted" if sorted(given) == sorted(cur) else "different")))
            c.tags = c.tags + tuple(t)
        except Exception:
            pass
    fo0 = F.fp(other)
    fr0 = F.fp(recv) if mode == "C" else None
    g0 = gx if recv is x else H.Graph(recv)
    status, res = _call(call)
    for name2, kind2, aseed2 in p.get("then", ()):
        arng_t = fw.rng_for(aseed2, "C04args")
        try:
            mc_t = M.make_call(recv, name2, kind2, arng_t, other=None,
                               inplace=(True if kind2 == "switch" and arng_t.random() < 0.8 else None))
        except fw.HarnessError:
            raise
        except Exception:
            mc_t = None
        if mc_t is not None:
            st_t, _ = _call(mc_t[0])
            desc += " ; " + mc_t[1] + ("" if st_t == "ok" else " [" + st_t + "]")
    writes = H.observe_writes(g0)
    fo1 = F.fp(other)
    other_same = fo0 == fo1
    if not other_same:
        fails.append(dict(kind="other-changed", diff=F.diff(fo0, fo1)))
    recv_changed = bool(writes)
    if mode == "C":
        fr1 = F.fp(recv)
        if fr0 != fr1:
            fails.append(dict(kind="receiver-changed", diff=F.diff(fr0, fr1)))
        # the in-place form on the copy, same arguments
        arng2 = fw.rng_for(p["aseed"], "C04args")
        arng2.random()
        mc2 = M.make_call(y, name, kind, arng2, other=None, inplace=True, style=style)
        status2, res2 = _call(mc2[0])
        if status.split(":")[0] != status2.split(":")[0]:
            fails.append(dict(kind="status-differs", off=status, on=status2))
        elif status == "ok":
            if res is None or not hasattr(res, "copy"):
                fails.append(dict(kind="no-result", got=repr(res)[:60]))
            else:
                a, b = F.fp(res), F.fp(y)
                if a != b:
                    fails.append(dict(kind="result-differs", diff=F.diff(a, b)))
                # effective coverage: which nested components did the in-place form change on this receiver?
                if fy_before is not None:
                    opname = p["cls"] + "." + name
                    present = F.components_present(fy_before)
                    changed = F.components_changed(fy_before, b)
                    c.tags = c.tags + tuple(f"has:{opname}:{k}" for k in sorted(present)) + \
                        tuple(f"eff:{opname}:{k}" for k in sorted(changed))
                fr2 = F.fp(recv)
                done = _follow_up(res, arng)
                fr3 = F.fp(recv)
                if fr2 != fr3:
                    fails.append(dict(kind="result-aliases-receiver", after=done, diff=F.diff(fr2, fr3)))
    if mode == "C" and status != "ok":
        # a raising call with the switch off: the receiver's fingerprint was compared all the same
        c.tags = c.tags + ("offraise:" + p["cls"] + "." + name,)
    c.extra.update(status=status, desc=desc, fails=fails, nwrites=len(writes))
    c.tags = c.tags + ("status:" + status.split(":")[0], "op:" + p["cls"] + "." + name + ":" + status.split(":")[0],
                       "receiver:" + ("written" if recv_changed else "untouched"))
    c.nontrivial = len(gx.cells) > 1 and (status == "ok" or recv_changed or mode == "C")
    how = p["how"] if p["how"] in ("nodata", "noarray") else "copy"
    c.line = f"C04.meth how={how} who={who} tree={tree} writes=[{';'.join(writes)}]"
    return f"other={'same' if other_same else 'changed'} disc=ok expl=ok"


# --------------------------------------------------------------------------- agreement and oracle
def _parse_share(s):
    import re
    m = re.match(r"shared=\[([0-9,]*)\](?: wf=(\d) cells=(\d+))?$", s or "")
    if not m:
        return None
    return set(int(v) for v in m.group(1).split(",") if v), m.group(2), m.group(3)


def agree(c):
    if c.stream == "C04.share":
        a, b = _parse_share(c.impl_out), _parse_share(c.model_out)
        if a is None or b is None:
            return False
        if b[2] is not None and isinstance(c.extra, dict) and int(b[2]) != c.extra.get("cells"):
            return False
        if c.payload["how"] in EXACT_HOWS:
            return a[0] == b[0]
        return a[0] <= b[0]
    return c.impl_out == c.model_out


def oracle(c):
    """the fingerprint comparisons made while the real operation ran (the fingerprint goes through public
    accessors only and never through equals/copy)"""
    if not isinstance(c.extra, dict):
        return "the harness could not drive the case: " + str(c.impl_out)
    if c.stream == "C04.share":
        b = _parse_share(c.model_out)
        if b is not None and b[1] == "0":
            c.tags = c.tags + ("outside-wf-hypothesis",)
        fails = c.extra.get("fails") or []
        if not fails:
            return None
        f = fails[0]
        return f"{c.payload['cls']} {c.payload['how']}: {f['kind']}: " + "; ".join(str(d) for d in (f.get("diff") or []))[:600]
    fails = c.extra.get("fails") or []
    if not fails:
        return None
    f = fails[0]
    return f"{c.payload['cls']}.{c.extra.get('desc', c.payload['op'])} mode {c.payload['mode']}: {f['kind']}: " + \
        "; ".join(str(d) for d in (f.get("diff") or [f.get("off", ""), f.get("on", ""), f.get("got", "")]))[:600]


S_SETDATA = "set_data-inplace-false:result-built-from-copy-without-data-loses-nested-data"


def classify(c):
    if isinstance(c.extra, dict) and c.stream == "C04.share":
        fails = c.extra.get("fails") or []
        return f"{fails[0]['kind']}:{c.payload['cls']}" if fails else None
    if not isinstance(c.extra, dict) or c.stream != "C04.meth":
        return None
    fails = c.extra.get("fails") or []
    if not fails:
        return None
    p = c.payload
    kinds = [f["kind"] for f in fails]
    if p["op"] == "set_data" and p["mode"] == "C" and kinds == ["result-differs"]:
        d = fails[0]["diff"]
        nested = ("/get_bounds", "/constructs", "/get_interior_ring")
        if d and all(any(t in line.split(":")[0] for t in nested) for line in d):
            return S_SETDATA
    # any other failure: one report per (kind of failure, operation, mode)
    return f"{kinds[0]}:{p['cls']}.{p['op']}:mode-{p['mode']}"


def shrink(c, run):
    """drop the operations of a history that are not needed for the failure"""
    p = c.payload
    if c.stream != "C04.meth" or not p.get("then"):
        return None
    best = None
    cur = dict(p)
    changed = True
    while changed and cur.get("then"):
        changed = False
        for i in range(len(cur["then"])):
            q = dict(cur)
            q["then"] = cur["then"][:i] + cur["then"][i + 1:]
            if not q["then"]:
                q.pop("then")
            c2 = mk_meth(q)
            try:
                c2.impl_out = impl(c2)
                c2.oracle_fail = oracle(c2)
            except Exception:
                continue
            if c2.oracle_fail:
                if c2.line is not None:
                    try:
                        c2.model_out = fw.model_run([c2.line])[0]
                    except Exception:
                        pass
                best, cur, changed = c2, q, True
                break
    return best


# --------------------------------------------------------------------------- evidence
def extra_coverage(run):
    ops = {}
    for k in list(run.dist):
        if k.startswith("op:"):
            _, name, st = k.split(":")
            ops.setdefault(name, {})[st] = run.dist.pop(k)
    has, eff = {}, {}
    for k in list(run.dist):
        if k.startswith("has:") or k.startswith("eff:"):
            tag, name, comp = k.split(":")
            (has if tag == "has" else eff).setdefault(name, {})[comp] = run.dist.pop(k)
    offraise = {}
    for k in list(run.dist):
        if k.startswith("offraise:"):
            offraise[k.split(":", 1)[1]] = run.dist.pop(k)
    effective = {}
    for name in sorted(has):
        ch = eff.get(name, {})
        effective[name] = dict(changed={k: ch[k] for k in sorted(ch)},
                               present_never_changed=sorted(k for k in has[name] if k not in ch),
                               receivers=max(has[name].values()))
    switch_ops = sorted(f"{cn}.{n}" for cn, n, k in op_table() if k == "switch")
    table = op_table()
    all_ops = sorted(set(f"{cn}.{n}" for cn, n, _ in table))
    never_ok = sorted(n for n in ops if "ok" not in ops[n])
    C = cfdm()
    no_instance = sorted(cn for cn in G.in_scope_classes() if cn in G._no_instance)
    info = site_rows()
    return dict(
        inplace_mutation_sites=dict(
            source=info["repo"],
            statements_found=info["statements"],
            table_entries=len(info["rows"]),
            constructor_writes_into_its_source=[list(r[:6]) for r in info["source_writes"]],
            stored_values=info["cls"],
            note="per class family and stored value: how the code writes it (only replaced on write = not listed; "
                 "'entries set/removed in place' needs a copy that re-creates the container itself; 'nested values "
                 "mutated in place' needs a deep copy) — theorem C04_code_sites_ok checks the copy table against this",
        ),
        public_classes=len(G.public_classes()),
        classes_in_scope=len(G.in_scope_classes()),
        classes_out_of_scope=G.OUT_OF_SCOPE,
        operations_in_table=len(all_ops),
        operations_exercised=len(ops),
        operations_returned_normally_at_least_once=len(ops) - len(never_ok),
        operations_only_raised_this_run=never_ok[:80],
        uncallable_operations=dict(size=len(M.UNCALLABLE), names=M.UNCALLABLE),
        inplace_switchable_operations=len(switch_ops),
        inplace_switchable_never_run_in_place_this_run=[n for n in switch_ops if n not in effective],
        receiver_unchanged_after_raising_call=dict(
            note="mode-C cases (switch off) in which the call raised — invalid or unusual arguments, data-less receivers —; "
                 "the receiver's full fingerprint is compared before/after in every one of them",
            cases=sum(offraise.values()), operations=len(offraise),
            switchable_operations_never_raising_this_run=[n for n in switch_ops if n not in offraise][:60]),
        inplace_switchable_without_any_effect_this_run=[n for n in effective if not effective[n]["changed"]],
        effective_coverage_note="per in-place-switchable (class, method), over the mode-C cases in which both forms returned: "
                                "`changed` = nested components of the receiver that the in-place form changed at least once "
                                "(with the number of cases), `present_never_changed` = components some receiver had but no "
                                "call changed (a no-op there is not coverage of that component)",
        effective_coverage=effective,
        classes_without_generated_instance=["BiQuadraticLatitudeLongitudeSubarray", "QuadraticLatitudeLongitudeSubarray"],
    )
