"""C19 — inspection always works; creation commands rebuild the construct.

Streams
  C19.desc  abstract container state -> repr/str/dump raise or not            (model + oracle)
  C19.cmds  abstract container state -> emitted commands (kind, key, axes) and
            the container that exec() of the emitted text builds              (model + oracle)
  C19.emit  object of a class that is not a container (Data, Properties*, coordinates, DomainAxis,
            CellMethod, CoordinateReference) x keyword variant -> the emitted statements in order,
            exec outcome, equality + netCDF names                             (model Cfdm.Emit + oracle)
  C19.dstr  Data object -> str() / repr(), character by character             (model Cfdm.DataStr + oracle)
  C19.cstr  construct with units / calendar of any type -> str(), Data(...) line of dump
                                                                               (model + oracle)
  C19.obj   every class exporting repr/str/dump/creation_commands x generated
            instances x keyword variants of creation_commands                 (oracle only)
(the last three of emit/dstr/cstr live in harness/c19_emit.py)

The container model mirrors field.py/domain.py at /repo HEAD (the repairs fabc4b1, f9edab4, … are in);
the behaviour before those repairs is the ``…Old`` part of the model output.  For the open findings with a
proposed patch the model carries both behaviours (``fix…`` / ``old…`` fields); the implementation is compared
with the repaired one and a failure counts as a known finding only when it is what the model of the code as
it is predicts.
"""
import ast
import inspect
import json
import os
import re
import tempfile
import textwrap

import numpy as np

from .. import fw
from .. import c19_emit as E
from ..fw import Case

REQUIRED = [
    "C19_describe_total",
    "C19_describeOld_total_partial",
    "C19_describeOld_needs_axes",
    "C19_describeOld_counterexample",
    "C19_describe_needs_data_axes",
    "C19_reprOld_counterexample",
    "C19_reprOld_partial",
    "C19_commands_roundtrip",
    "C19_commands_roundtrip_exact",
    "C19_commandsOld_counterexample",
    "C19_commandsOld_roundtrip_partial",
    "C19_new_identifier_consecutive",
    "C19_emit_data_roundtrip",
    "C19_emit_namespace_needed",
    "C19_emit_data_counterexamples",
    "C19_emit_leaf_roundtrip",
    "C19_emit_inherited_counterexample",
    "C19_emit_pobj_roundtrip",
    "C19_emit_pobj_counterexamples",
    "C19_emit_axis_roundtrip",
    "C19_emit_cm_roundtrip",
    "C19_emit_ref_roundtrip",
    "C19_namespace_prefix",
    "C19_dataStr_total",
    "C19_dataStr_layout",
    "C19_constructStr_total",
    "C19_constructStrOld_counterexample",
    "C19_constructStrOld_total_partial",
    "C19_dump_dims",
]
BUDGET = {"quick": 14000, "thorough": 160000}
QUICK_JOBS = 8
RULE = (
    "desc/cmds: random abstract containers (Field or Domain, or the domain view of a field; 0-4 domain axes with "
    "consecutive or gapped keys, sized/unsized, with/without netCDF dimension names; 0-3 constructs of each of the 7 "
    "array types with/without data, bounds, netCDF names, with axes set / not set / deleted again; field data with or "
    "without data axes; 0-3 cell methods and 0-2 coordinate references under consecutive or gapped keys) built through "
    "the public API.  emit: seeded recipes for Data (shapes () to 3-d incl. zero-sized, 9 data types incl. str/bytes/bool, "
    "masked / all masked / NaN under the mask, numpy-valued units, fill values of 5 kinds), the 13 Properties/PropertiesData "
    "classes (numpy-/list-/NaN-valued properties, netCDF variable / dimension / sample dimension names, bounds taken from a "
    "parent), the 3 PropertiesDataBounds classes (bounds with/without data, interior ring, geometry, climatology, node "
    "coordinate variable), domain axes, cell methods (qualifiers incl. interval Data), coordinate references (numpy-, list-, "
    "Data-valued parameters, domain ancillaries) x keywords (namespace None/''/cfdm/cfdm./xyz/xyz./a.b, name, data_name, "
    "bounds_name, interior_ring_name incl. clashing ones, header, indent, string).  dstr: Data of 17 shapes (size 0,1,2,3 along "
    "the last axis or not, >3) x 7 types x masked x reference-time units (good, unparsable, empty calendar) x extreme / "
    "non-finite displayed elements x non-string units.  cstr: 8 classes x units/calendar of the construct and of its bounds "
    "(absent, string, reference time, number) x axis-name lists shorter/longer than the data.  obj: every component (field, "
    "domain view, domain copy, each construct, bounds, interior ring, data, datum, conversion, domain axis, cell method, "
    "count/index/list variable) of example fields 0-11, of the same fields written and re-read, of fields over ragged "
    "contiguous/indexed/indexed-contiguous/gathered arrays, of random containers as above and stand-alone instances of every "
    "class, each after 0-3 mutations (no data, no identity, reference-time units + calendar, string data, masked / all-masked "
    "data, size 1, scalar, numpy-valued properties, numeric units, identity with a line break, geometry-variable / tie-point / "
    "datum netCDF names, construct without axes, unsized axis, netCDF names on every component) x creation_commands keyword "
    "variants.  non-trivial = container with >= 1 metadata construct, or an object carrying data or >= 1 property/parameter; "
    "distinct = distinct (stream, abstract state | object recipe, keywords)"
)
ASSUMPTIONS = [
    "construct identifiers have the standard form <base><n> (custom keys given to set_construct are outside the model streams)",
    "the container model abstracts a construct to (type, shape, netCDF variable name, bounds(has data, netCDF name), axes); the "
    "command-language model (Cfdm.Emit) covers the constructs themselves: properties, data, bounds, interior ring, geometry, "
    "climatology, measure/cell/connectivity, parameters, netCDF names; strings and numbers are opaque tokens in it (only whether "
    "their spelling evaluates in a fresh namespace is modelled) and an object with a value it has no encoding for (tuple-valued "
    "property, object data type) is run through the oracle only (tag emit:outside-the-model)",
    "the order in which creation_commands meets the construct types comes from a Python set and is not compared "
    "(commands are compared as a multiset plus the order of cell methods and of coordinate references plus the "
    "axes-before-use dependency); the round-trip theorem holds for every such order",
    "'fresh namespace' = a new dict holding only the cfdm package under the name given by the namespace keyword "
    "(its public names for namespace=''; a chain of simple namespaces for a dotted prefix)",
    "representative_data=True is not exercised (the property sets it aside)",
    "states whose recorded axes name a deleted domain axis are C02 violations and are not generated here, except "
    "Field.set_data_axes naming a missing axis on a field without data (rare, tagged)",
    "the date-time conversions of Data.__str__ are a parameter of the display model: the harness obtains them from "
    "netCDF4.num2date with the call forms of Data.datetime_array (0-d for one element, 1-d for the first/last pair)",
    "a refusal of clashing names (ValueError naming the parameter) is an accepted outcome of creation_commands",
]
TIME_LIMIT = {"quick": 170, "thorough": 1400}

_cfdm = None


def cfdm():
    global _cfdm
    if _cfdm is None:
        import logging
        import cfdm as m
        m.log_level("DISABLE")
        logging.disable(logging.CRITICAL)
        _cfdm = m
    return _cfdm


TYPES = ["dim", "aux", "msr", "dan", "top", "con", "fan"]
LONG = {"dim": "dimension_coordinate", "aux": "auxiliary_coordinate", "msr": "cell_measure", "dan": "domain_ancillary",
        "top": "domain_topology", "con": "cell_connectivity", "fan": "field_ancillary"}
BASE = {"dim": "dimensioncoordinate", "aux": "auxiliarycoordinate", "msr": "cellmeasure", "dan": "domainancillary",
        "top": "domaintopology", "con": "cellconnectivity", "fan": "fieldancillary"}
CLS = {"dim": "DimensionCoordinate", "aux": "AuxiliaryCoordinate", "msr": "CellMeasure", "dan": "DomainAncillary",
       "top": "DomainTopology", "con": "CellConnectivity", "fan": "FieldAncillary"}
CLS_INV = {v: k for k, v in CLS.items()}
NAMES = ["lat", "lon", "time", "x", "y", "z", "ta", "q", "p0", "orog", "area2", "bnds", "v1", "v_2", "T"]
METHODS = ["mean", "maximum", "point", "sum"]
TERMS = ["a", "b", "orog", "p0"]


# =========================================================================== abstract containers
def gen_abs(rng, partial):
    """A random abstract container; `partial` allows constructs without axes / data without axes."""
    dom = rng.random() < 0.25
    nax = rng.choice([0, 1, 1, 2, 2, 3, 3, 4])
    keys = list(range(nax))
    if rng.random() < 0.25:
        keys = rng.sample(range(nax + 3), nax)
    axes = []
    for k in keys:
        size = rng.choice([1, 1, 2, 3, 4])
        axes.append([k, size, rng.choice([None, None] + NAMES)])
    sized = [a[0] for a in axes]
    size_of = {a[0]: a[1] for a in axes}
    if rng.random() < 0.1:  # an unsized, unspanned axis
        axes.insert(rng.randint(0, len(axes)), [max(keys + [-1]) + 1 + rng.randint(0, 2), None, rng.choice([None] + NAMES)])
    cons = []
    for t in TYPES:
        if dom and t == "fan":
            continue
        n = rng.choice([0, 0, 1, 1, 2, 3]) if t in ("dim", "aux") else rng.choice([0, 0, 0, 1, 2])
        ks = list(range(n))
        if n and rng.random() < 0.2:
            ks = sorted(rng.sample(range(n + 3), n))
            if rng.random() < 0.5:
                rng.shuffle(ks)
        for k in ks:
            if t in ("dim", "top", "con"):
                ax = rng.sample(sized, 1) if sized else []
            else:
                ax = rng.sample(sized, rng.randint(0 if rng.random() < 0.1 else 1, min(3, len(sized)))) if sized else []
            if t in ("dim", "top", "con") and not ax:
                # no axis to span: the construct can only sit there without axes
                shape = [rng.randint(1, 3)]
                axes_ = None
            else:
                shape = [size_of[a] for a in ax]
                axes_ = list(ax)
            hasdata = rng.random() < 0.85
            bounds = None
            if t in ("dim", "aux", "dan") and rng.random() < 0.4:
                bounds = [hasdata and rng.random() < 0.85 or (not hasdata and rng.random() < 0.5), rng.choice([None] + NAMES)]
                bounds[0] = bool(bounds[0])
            if partial and rng.random() < 0.3:
                axes_ = None
            if axes_ is None and not partial:
                continue
            cons.append([t, k, shape if hasdata else None, rng.choice([None, None] + NAMES), bounds, axes_,
                         shape])  # last item: the shape bounds data take when the construct has none
    data = daxes = None
    if not dom and rng.random() < 0.8:
        ax = rng.sample(sized, rng.randint(0, len(sized))) if sized else []
        if rng.random() < 0.75:
            data = [size_of[a] for a in ax]
            daxes = list(ax)
            if partial and rng.random() < 0.15:
                daxes = None
        elif rng.random() < 0.5:
            daxes = list(ax)  # data axes without data
    cms = []
    if not dom:
        n = rng.choice([0, 0, 1, 2, 3])
        ks = list(range(n))
        if n and rng.random() < 0.3:
            ks = sorted(rng.sample(range(n + 3), n))
        for k in ks:
            r = rng.random()
            if r < 0.1:
                ax = None
            else:
                pool = [f"domainaxis{a[0]}" for a in axes] + ["area", "time"]
                ax = rng.sample(pool, rng.randint(0 if r < 0.2 else 1, min(2, len(pool))))
            cms.append([k, ax, rng.choice([None] + METHODS * 3)])
    refs = []
    n = rng.choice([0, 0, 1, 1, 2])
    ks = list(range(n))
    if n and rng.random() < 0.3:
        ks = sorted(rng.sample(range(n + 3), n))
    coords = [f"{BASE[c[0]]}{c[1]}" for c in cons if c[0] in ("dim", "aux")]
    dans = [f"{BASE[c[0]]}{c[1]}" for c in cons if c[0] == "dan"]
    for k in ks:
        co = sorted(rng.sample(coords, rng.randint(0, min(3, len(coords)))))
        terms = sorted(rng.sample(TERMS, rng.randint(0, 2)))
        an = [[t, rng.choice(dans) if dans and rng.random() < 0.7 else None] for t in terms]
        refs.append([k, rng.choice([None] + NAMES), co, an])
    return dict(dom=dom, nc=rng.choice([None] + NAMES), data=data, daxes=daxes, axes=axes, cons=cons, cms=cms, refs=refs)


def view_of(a):
    """abstract of `f.domain` for the field `a`."""
    return dict(dom=True, nc=None, data=None, daxes=None, axes=a["axes"], cons=[c for c in a["cons"] if c[0] != "fan"],
                cms=[], refs=a["refs"])


def _shape(s):
    return "_" if s is None else ("x".join(map(str, s)) or "s")


def _axes(s):
    return "_" if s is None else ("+".join(map(str, s)) or "n")


def _strs(s):
    return "+".join(s) or "n"


def _o(x):
    return "_" if x is None else str(x)


def enc_abs(a, sep=" "):
    A = ",".join(f"{k}:{_o(size)}:{_o(nc)}" for k, size, nc in a["axes"])
    cons = sorted(a["cons"], key=lambda c: TYPES.index(c[0]))  # stable: grouped by type
    C = ",".join(
        f"{c[0]}{c[1]};{_shape(c[2])};{_o(c[3])};{'_' if c[4] is None else ('B1~' if c[4][0] else 'B0~') + _o(c[4][1])};{_axes(c[5])}"
        for c in cons)
    M = ",".join(f"{k};{'_' if ax is None else _strs(ax)};{_o(m)}" for k, ax, m in a["cms"])
    R = ",".join(f"{k};{_o(nc)};{_strs(co)};{'+'.join(t + '~' + _o(v) for t, v in an) or 'n'}" for k, nc, co, an in a["refs"])
    return sep.join([f"dom={int(a['dom'])}", f"nc={_o(a['nc'])}", f"data={_shape(a['data'])}", f"daxes={_axes(a['daxes'])}",
                     f"A=[{A}]", f"C=[{C}]", f"M=[{M}]", f"R=[{R}]"])


def _num(key, base):
    m = re.fullmatch(re.escape(base) + r"(\d+)", key)
    if not m:
        raise fw.HarnessError(f"non-standard construct key {key!r} (expected {base}<n>)")
    return int(m.group(1))


def abstract_live(f):
    """The abstract container of a live Field/Domain, through public accessors only."""
    C = cfdm()
    dom = isinstance(f, C.Domain)
    axes = [[_num(k, "domainaxis"), a.get_size(None), a.nc_get_dimension(None)] for k, a in f.domain_axes(todict=True).items()]
    da = f.constructs.data_axes()
    cons = []
    for t in TYPES:
        if dom and t == "fan":
            continue
        for k, c in f.constructs.filter_by_type(LONG[t], todict=True).items():
            b = None
            if t in ("dim", "aux", "dan") and c.has_bounds():
                b = [bool(c.bounds.has_data()), c.bounds.nc_get_variable(None)]
            ax = da.get(k)
            cons.append([t, _num(k, BASE[t]), list(c.shape) if c.has_data() else None, c.nc_get_variable(None), b,
                         None if ax is None else [_num(x, "domainaxis") for x in ax]])
    data = daxes = None
    cms = []
    if not dom:
        if f.has_data():
            data = list(f.data.shape)
        x = f.get_data_axes(default=None)
        daxes = None if x is None else [_num(k, "domainaxis") for k in x]
        for k, m in f.cell_methods(todict=True).items():
            ax = m.get_axes(None)
            cms.append([_num(k, "cellmethod"), None if ax is None else list(ax), m.get_method(None)])
    refs = []
    for k, r in f.coordinate_references(todict=True).items():
        refs.append([_num(k, "coordinatereference"), r.nc_get_variable(None), sorted(r.coordinates()),
                     [[t, v] for t, v in sorted(r.coordinate_conversion.domain_ancillaries().items())]])
    return dict(dom=dom, nc=f.nc_get_variable(None), data=data, daxes=daxes, axes=axes, cons=cons, cms=cms, refs=refs)


def _mk_construct(t, shape, nc, bounds, bshape):
    C = cfdm()
    c = getattr(C, CLS[t])()
    if t == "msr":
        c.set_measure("area")
    if t == "top":
        c.set_cell("face")
    if t == "con":
        c.set_connectivity("edge")
    if shape is not None:
        if t == "top":
            c.set_data(C.Data(np.arange(int(np.prod(shape)) * 3, dtype=int).reshape(tuple(shape) + (3,))))
        elif t == "con":
            c.set_data(C.Data(np.arange(int(np.prod(shape)) * 4, dtype=int).reshape(tuple(shape) + (4,))))
        else:
            c.set_data(C.Data(np.arange(int(np.prod(shape)), dtype=float).reshape(shape)))
    if nc is not None:
        c.nc_set_variable(nc)
    if bounds is not None:
        b = C.Bounds()
        if bounds[0]:
            shp = tuple(shape if shape is not None else bshape) + (2,)
            b.set_data(C.Data(np.arange(int(np.prod(shp)), dtype=float).reshape(shp)))
        if bounds[1] is not None:
            b.nc_set_variable(bounds[1])
        c.set_bounds(b)
    return c


def build_abs(a, view=False):
    """Build the live Field/Domain of an abstract container through the public API (ab initio)."""
    C = cfdm()
    f = C.Domain() if a["dom"] else C.Field()
    if a["nc"] is not None:
        f.nc_set_variable(a["nc"])
    for k, size, nc in a["axes"]:
        ax = C.DomainAxis(size) if size is not None else C.DomainAxis()
        if nc is not None:
            ax.nc_set_dimension(nc)
        f.set_construct(ax, key=f"domainaxis{k}")
    for c in a["cons"]:
        t, k, shape, nc, bounds, axes = c[:6]
        bshape = c[6] if len(c) > 6 else None
        con = _mk_construct(t, shape, nc, bounds, bshape)
        f.set_construct(con, key=f"{BASE[t]}{k}", axes=None if axes is None else [f"domainaxis{x}" for x in axes])
    if not a["dom"]:
        if a["data"] is not None:
            d = C.Data(np.arange(int(np.prod(a["data"])), dtype=float).reshape(a["data"]))
            f.set_data(d, axes=None if a["daxes"] is None else [f"domainaxis{x}" for x in a["daxes"]])
        elif a["daxes"] is not None:
            f.set_data_axes([f"domainaxis{x}" for x in a["daxes"]])
        for k, ax, m in a["cms"]:
            cm = C.CellMethod()
            if ax is not None:
                cm.set_axes(ax)
            if m is not None:
                cm.set_method(m)
            f.set_construct(cm, key=f"cellmethod{k}")
    for k, nc, co, an in a["refs"]:
        r = C.CoordinateReference(coordinates=co, coordinate_conversion=C.CoordinateConversion(
            domain_ancillaries={t: v for t, v in an}))
        if nc is not None:
            r.nc_set_variable(nc)
        f.set_construct(r, key=f"coordinatereference{k}")
    if view:
        f = f.domain
    return f


def norm_abs(a):
    b = dict(a)
    b["cons"] = [list(c) for c in sorted(a["cons"], key=lambda c: TYPES.index(c[0]))]
    b["axes"] = [list(x) for x in a["axes"]]
    b["cms"] = [list(x) for x in a["cms"]]
    b["refs"] = [[k, nc, list(co), [list(x) for x in an]] for k, nc, co, an in a["refs"]]
    return b


def has_noaxes(a):
    return any(c[5] is None for c in a["cons"] if not (a["dom"] and c[0] == "fan"))


def bad_daxes(a):
    return a["daxes"] is not None and any(x not in [ax[0] for ax in a["axes"]] for x in a["daxes"])


def _try(fn):
    try:
        fn()
        return "ok", None
    except Exception as e:  # the observable is raise / no raise
        return "raised:" + fw.exc_enum(e), f"{type(e).__name__}: {str(e)[:160]}"


# =========================================================================== netCDF-name fingerprint
def nc_names(x):
    """nc_get_variable / nc_get_dimension of x and of every component (public accessors)."""
    C = cfdm()
    out = {}
    for m in ("nc_get_variable", "nc_get_dimension", "nc_get_sample_dimension", "nc_get_node_coordinate_variable",
              "nc_get_geometry_variable", "nc_get_subsampled_dimension", "nc_get_interpolation_subarea_dimension"):
        if hasattr(x, m):
            try:
                out[m] = getattr(x, m)(None)
            except Exception as e:
                out[m] = "raised " + type(e).__name__
    if isinstance(x, C.CoordinateReference):
        out["datum"] = x.datum.nc_get_variable(None)
    if hasattr(x, "has_bounds") and x.has_bounds():
        out["bounds"] = nc_names(x.bounds)
    if hasattr(x, "has_interior_ring") and x.has_interior_ring():
        out["ring"] = nc_names(x.interior_ring)
    if isinstance(x, (C.Field, C.Domain)):
        cons = {}
        cms = []
        refs = []
        for k, c in x.constructs.todict().items():
            if c.construct_type == "cell_method":
                cms.append(nc_names(c))
            elif c.construct_type == "coordinate_reference":
                refs.append(nc_names(c))
            else:
                cons[k] = nc_names(c)
        out["constructs"] = cons
        out["cms"] = cms
        out["refs"] = sorted(refs, key=lambda d: repr(sorted(d.items())))
    return out


# =========================================================================== parsing the emitted text
def _lit(node):
    return ast.literal_eval(node)


def _knum(key, base):
    """key number for a token; never raises (the emitted text is an observable, not an input)."""
    if key is None:
        return "_"
    m = re.fullmatch(re.escape(base) + r"(\d+)", str(key))
    return m.group(1) if m else "?" + str(key)


def _axnums(t):
    if t is None:
        return None
    if isinstance(t, str):
        t = (t,)
    return [_knum(k, "domainaxis") for k in t]


def parse_commands(text, top):
    """The emitted text as the token sequence of the model's command language."""
    toks = []
    cur = None  # class of the object bound to `c`
    shapes = {}
    unknown = []
    for node in ast.parse(textwrap.dedent(text)).body:
        if isinstance(node, ast.Assign) and isinstance(node.value, ast.Call):
            name = node.targets[0].id
            fn = node.value.func
            cls = fn.attr if isinstance(fn, ast.Attribute) else fn.id
            if cls == "Data":
                shapes[name] = list(np.shape(_lit(node.value.args[0])))
            elif name == top:
                toks.append("F1" if cls == "Domain" else "F0")
            elif name == "c":
                cur = cls
                toks.append({"DomainAxis": "A", "CellMethod": "M", "CoordinateReference": "R"}.get(cls) or (
                    "C" + CLS_INV[cls] if cls in CLS_INV else "?" + cls))
            elif name == "b":
                toks.append("B")
            else:
                unknown.append(ast.unparse(node)[:60])
            continue
        if not (isinstance(node, ast.Expr) and isinstance(node.value, ast.Call)):
            unknown.append(ast.unparse(node)[:60])
            continue
        call = node.value
        target = ast.unparse(call.func)
        args = call.args
        kw = {k.arg: k.value for k in call.keywords}
        obj, _, meth = target.rpartition(".")
        if obj == top:
            if meth == "nc_set_variable":
                toks.append("fnc:" + _lit(args[0]))
            elif meth == "set_data":
                toks.append("fdata:" + _shape(shapes[args[0].id]))
            elif meth == "set_data_axes":
                toks.append("daxes:" + _axes(_axnums(_lit(args[0]))))
            elif meth == "set_construct":
                key = _lit(kw["key"]) if "key" in kw else None
                if cur == "DomainAxis":
                    toks.append(f"setA:{_knum(key, 'domainaxis')}")
                elif cur == "CellMethod":
                    toks.append("setM" if key is None else "setM:" + key)
                elif cur == "CoordinateReference":
                    toks.append("setR" if key is None else "setR:" + key)
                elif cur not in CLS_INV:
                    toks.append(f"setC:?{cur}")
                else:
                    t = CLS_INV[cur]
                    ax = _lit(kw["axes"]) if "axes" in kw else None
                    toks.append(f"setC:{t}{_knum(key, BASE[t])}:{_axes(_axnums(ax))}")
            elif meth in ("set_properties", "nc_set_global_attributes"):
                pass
            else:
                unknown.append(target)
        elif obj == "c":
            if meth == "set_size":
                toks.append(f"size:{_lit(args[0])}")
            elif meth == "nc_set_dimension":
                toks.append("ncdim:" + _lit(args[0]))
            elif meth == "nc_set_variable":
                toks.append("nc:" + _lit(args[0]))
            elif meth == "set_data":
                s = shapes[args[0].id]
                if cur in ("DomainTopology", "CellConnectivity"):
                    s = s[:-1]
                toks.append("data:" + _shape(s))
            elif meth == "set_bounds":
                toks.append("setb")
            elif meth == "set_method":
                toks.append("meth:" + _lit(args[0]))
            elif meth == "set_axes":
                toks.append("axes:" + _strs(list(_lit(args[0]))))
            elif meth == "set_coordinates":
                toks.append("coords:" + _strs(sorted(_lit(args[0]))))
            elif meth in ("set_measure", "set_cell", "set_connectivity", "set_properties"):
                pass
            else:
                unknown.append(target)
        elif obj == "c.coordinate_conversion" and meth == "set_domain_ancillaries":
            d = _lit(args[0])
            toks.append("anc:" + ("+".join(t + "~" + _o(v) for t, v in sorted(d.items())) or "n"))
        elif obj == "b":
            if meth == "nc_set_variable":
                toks.append("bnc:" + _lit(args[0]))
            elif meth == "set_data":
                toks.append("bdata")
            elif meth == "set_properties":
                pass
            else:
                unknown.append(target)
        else:
            unknown.append(target)
    return toks, unknown


_ENDS = ("F0", "F1", "fnc:", "fdata:", "setA:", "setC:", "setM", "setR", "daxes:")


def canon_commands(toks):
    blocks, cur = [], []
    for t in toks:
        cur.append(t)
        if t.startswith(_ENDS):
            blocks.append("/".join(cur))
            cur = []
    if cur:
        blocks.append("/".join(cur))
    seen = set()
    deps = True
    for t in toks:
        if t.startswith("setA:"):
            seen.add(t[5:])
        elif t.startswith("setC:"):
            ax = t.split(":")[2]
            if ax not in ("_", "n"):
                deps = deps and all(x in seen for x in ax.split("+"))
        elif t.startswith("daxes:"):
            ax = t[6:]
            if ax not in ("_", "n"):
                deps = deps and all(x in seen for x in ax.split("+"))
    cm = [b for b in blocks if b.split("/")[-1].startswith("setM")]
    rf = [b for b in blocks if b.split("/")[-1].startswith("setR")]
    return f"cmds=[{','.join(sorted(blocks))}] cm=[{','.join(cm)}] ref=[{','.join(rf)}] deps={'ok' if deps else 'bad'}"


# =========================================================================== keyword variants / exec
KW_VARIANTS = [
    {}, {}, {"indent": 4}, {"string": False}, {"name": "x"}, {"data_name": "dd"}, {"namespace": ""}, {"namespace": "cfdm"},
    {"namespace": "cfalias"}, {"header": False}, {"indent": 2, "header": False, "name": "obj"},
    {"namespace": "cfalias.", "data_name": "d2", "string": False}, {"name": "f2", "namespace": "", "indent": 3},
]
# names that clash with each other or with the names creation_commands uses itself: a refusal (ValueError naming the
# parameter) is the documented outcome, building something else is not
KW_CLASH = [{"name": "c"}, {"name": "b"}, {"name": "data"}, {"data_name": "c"}, {"name": "mask"}, {"name": "i", "indent": 2},
            {"data_name": "b"}, {"bounds_name": "c"}, {"name": "x", "data_name": "x"}]


def names_may_clash(x, kw):
    """the keyword names are not pairwise distinct, or one of them is a name the commands use themselves"""
    C = cfdm()
    names = [kw.get("name", default_name(x)), kw.get("data_name", "data"), kw.get("bounds_name", "b"),
             kw.get("interior_ring_name", "i")]
    if len(set(names)) < len(names) or "mask" in names[:2]:
        return True
    if isinstance(x, (C.Field, C.Domain)):
        return names[0] in ("b", "c", "mask", "i") or names[1] in ("b", "c", "i")
    return False


def default_name(x):
    C = cfdm()
    if isinstance(x, C.Field):
        return "field"
    if isinstance(x, C.Domain):
        return "domain"
    if isinstance(x, C.Data):
        return "data"
    return "c"


def fresh_namespace(namespace):
    C = cfdm()
    if namespace is None:
        return {"cfdm": C}
    ns = namespace.rstrip(".")
    if ns == "":
        return {k: getattr(C, k) for k in dir(C) if not k.startswith("_")}
    return {ns: C}


def applicable_kw(x, kw):
    sig = inspect.signature(x.creation_commands).parameters
    return {k: v for k, v in kw.items() if k in sig}


def run_commands(x, kw):
    """(text, rebuilt object | None, stage, detail)"""
    try:
        out = x.creation_commands(**kw)
    except Exception as e:
        return None, None, "cc=raised:" + fw.exc_enum(e), f"creation_commands raised {type(e).__name__}: {str(e)[:160]}"
    text = out if isinstance(out, str) else "\n".join(out)
    if kw.get("string", True) is False and isinstance(out, str):
        return text, None, "cc=notlist", "string=False did not return a list"
    ind = " " * kw.get("indent", 0) if kw.get("string", True) else ""
    if any(not l.startswith(ind) for l in text.split("\n") if l.strip()):
        return text, None, "cc=badindent", "a line of the returned text lacks the requested indent"
    ns = fresh_namespace(kw.get("namespace"))
    try:
        exec(textwrap.dedent(text), ns)
    except Exception as e:
        return text, None, "exec=raised:" + fw.exc_enum(e), f"exec raised {type(e).__name__}: {str(e)[:160]}"
    name = kw.get("name", default_name(x))
    if name not in ns:
        return text, None, "exec=noname", f"no object named {name!r} after exec"
    return text, ns[name], "ok", None


def twin_constructs(f):
    """the precondition of the open C05 finding on greedy matching: two metadata constructs of one type that are
    identical but for their key, their axes and their netCDF names (which `equals` does not look at)"""
    try:
        from harness import fingerprint as _fp
        seen = set()
        for k, c in f.constructs.todict().items():
            if c.construct_type in ("domain_axis", "cell_method", "coordinate_reference"):
                continue
            h = (c.construct_type, json.dumps(_fp.fingerprint(c, names=False), sort_keys=True, default=str))
            if h in seen:
                return True
            seen.add(h)
    except Exception:
        return False
    return False


def both_equal(x, y):
    """True / False, or None when `equals` itself raises (a C05 matter, not decidable here)."""
    try:
        return bool(x.equals(y)) and bool(y.equals(x))
    except Exception:
        return None


# =========================================================================== C19.obj: object recipes
_scratch = None


def scratch():
    global _scratch
    if _scratch is None:
        _scratch = tempfile.mkdtemp(prefix="verif_c19_")
        import atexit
        import shutil
        atexit.register(shutil.rmtree, _scratch, True)
    return _scratch


_read_cache = {}


def read_back(i):
    """example field i written with cfdm.write and read again (None if that does not work here)."""
    C = cfdm()
    if i not in _read_cache:
        path = os.path.join(scratch(), f"ex{i}_{os.getpid()}.nc")
        try:
            C.write(C.example_field(i), path)
            fs = C.read(path)
            _read_cache[i] = path if len(fs) >= 1 else None
        except Exception:
            _read_cache[i] = None
    if _read_cache[i] is None:
        return None
    fs = C.read(_read_cache[i])
    return fs[0]


def compressed_field(kind, rng):
    """A field whose data are a ragged / gathered array built ab initio."""
    C = cfdm()
    f = C.Field(properties={"standard_name": "air_temperature", "units": "K"})
    if kind == "contiguous":
        counts = [rng.randint(1, 3) for _ in range(rng.randint(1, 3))]
        n, m = len(counts), max(counts)
        cv = C.Count(data=C.Data(np.array(counts)), properties={"long_name": "number of obs"})
        cv.nc_set_variable("row_size")
        cv.nc_set_sample_dimension("obs")
        arr = C.RaggedContiguousArray(compressed_array=np.arange(sum(counts), dtype=float), shape=(n, m), count_variable=cv)
        shape = (n, m)
    elif kind == "indexed":
        n = rng.randint(1, 3)
        idx = sorted(list(range(n)) + [rng.randrange(n) for _ in range(rng.randint(0, 3))])
        rng.shuffle(idx)
        m = max(idx.count(i) for i in range(n))
        iv = C.Index(data=C.Data(np.array(idx)), properties={"long_name": "which station"})
        iv.nc_set_variable("station_index")
        arr = C.RaggedIndexedArray(compressed_array=np.arange(len(idx), dtype=float), shape=(n, m), index_variable=iv)
        shape = (n, m)
    elif kind == "indexed_contiguous":
        n = rng.randint(1, 2)
        pidx = sorted(list(range(n)) + [rng.randrange(n) for _ in range(rng.randint(0, 2))])
        counts = [rng.randint(1, 3) for _ in pidx]
        p = max(pidx.count(i) for i in range(n))
        m = max(counts)
        cv = C.Count(data=C.Data(np.array(counts)))
        iv = C.Index(data=C.Data(np.array(pidx)))
        arr = C.RaggedIndexedContiguousArray(compressed_array=np.arange(sum(counts), dtype=float), shape=(n, p, m),
                                             count_variable=cv, index_variable=iv)
        shape = (n, p, m)
    else:  # gathered
        a, b, c = rng.randint(1, 2), rng.randint(1, 3), rng.randint(1, 3)
        k = rng.randint(1, b * c)
        lst = sorted(rng.sample(range(b * c), k))
        lv = C.List(data=C.Data(np.array(lst)))
        lv.nc_set_variable("landpoint")
        arr = C.GatheredArray(compressed_array=np.arange(a * k, dtype=float).reshape(a, k), shape=(a, b, c),
                              compressed_dimensions={1: (1, 2)}, list_variable=lv)
        shape = (a, b, c)
    axes = [f.set_construct(C.DomainAxis(s)) for s in shape]
    f.set_data(C.Data(arr), axes=axes)
    aux = C.AuxiliaryCoordinate(properties={"long_name": "obs coordinate"}, data=C.Data(arr))
    f.set_construct(aux, axes=axes)
    return f


def components(f):
    """[(label, object)] — every inspectable component of a field."""
    C = cfdm()
    out = [("Field", f), ("Field", f), ("Field", f), ("Domain(view)", f.domain), ("Domain(copy)", f.domain.copy())]

    def add_data(d):
        out.append(("Data", d))
        for g in ("get_count", "get_index", "get_list"):
            try:
                v = getattr(d, g)(None)
            except Exception:
                v = None
            if v is not None:
                out.append((type(v).__name__, v))

    if f.has_data():
        add_data(f.data)
    for k, c in f.constructs.todict().items():
        out.append((type(c).__name__, c))
        if hasattr(c, "has_data") and c.has_data():
            add_data(c.data)
        if hasattr(c, "has_bounds") and c.has_bounds():
            out.append(("Bounds", c.bounds))
            if c.bounds.has_data():
                add_data(c.bounds.data)
        if hasattr(c, "has_interior_ring") and c.has_interior_ring():
            out.append(("InteriorRing", c.interior_ring))
        if isinstance(c, C.CoordinateReference):
            out.append(("Datum", c.datum))
            out.append(("CoordinateConversion", c.coordinate_conversion))
    return out


STANDALONE = ["DimensionCoordinate", "AuxiliaryCoordinate", "CellMeasure", "DomainAncillary", "FieldAncillary", "DomainTopology",
              "CellConnectivity", "Bounds", "InteriorRing", "Count", "Index", "List", "Data", "CellMethod", "CoordinateReference",
              "DomainAxis", "Datum", "CoordinateConversion", "Field", "Domain", "NodeCountProperties", "PartNodeCountProperties",
              "InterpolationParameter", "TiePointIndex"]


def rand_data(rng, kind=None, shape=None):
    C = cfdm()
    if shape is None:
        shape = [rng.randint(1, 4) for _ in range(rng.choice([0, 1, 1, 1, 2, 2, 3]))]
    n = int(np.prod(shape)) if shape else 1
    kind = kind or rng.choice(["f", "f", "i", "str", "bool", "f4", "reftime"])
    if kind == "str":
        a = np.array([rng.choice(["a", "bc", "xyz", "station 1", ""]) for _ in range(n)]).reshape(shape)
        return C.Data(a)
    if kind == "bool":
        return C.Data(np.array([rng.random() < 0.5 for _ in range(n)]).reshape(shape))
    if kind == "i":
        return C.Data(np.array([rng.randint(-5, 50) for _ in range(n)]).reshape(shape), units=rng.choice([None, "m", "1"]))
    if kind == "f4":
        return C.Data(np.array([rng.randint(-50, 50) / 4 for _ in range(n)], dtype="f4").reshape(shape), units="K")
    if kind == "reftime":
        return C.Data(np.array([float(rng.randint(0, 4000)) for _ in range(n)]).reshape(shape),
                      units=rng.choice(["days since 2000-01-01", "hours since 1970-01-01 00:00:00", "days since 1-1-1"]),
                      calendar=rng.choice([None, "gregorian", "360_day", "noleap", "standard"]))
    a = np.array([rng.randint(-500, 500) / 8 for _ in range(n)]).reshape(shape)
    if rng.random() < 0.03 and n > 0:
        a.flat[rng.randrange(n)] = rng.choice([np.nan, np.inf, -np.inf])
    if rng.random() < 0.3 and n > 0:
        m = np.array([rng.random() < 0.4 for _ in range(n)]).reshape(shape)
        a = np.ma.array(a, mask=m)
    return C.Data(a, units=rng.choice([None, "m", "K", "degrees_north"]), fill_value=rng.choice([None, None, -999.0]))


def rand_props(rng):
    p = {}
    if rng.random() < 0.6:
        p["standard_name"] = rng.choice(["air_temperature", "latitude", "time", "altitude"])
    if rng.random() < 0.4:
        p["long_name"] = rng.choice(["a long name", "it's \"quoted\"", "x"])
    if rng.random() < 0.4:
        p["units"] = rng.choice(["K", "m", "degrees_east", "days since 2000-01-01"])
        if "since" in p["units"] and rng.random() < 0.6:
            p["calendar"] = rng.choice(["gregorian", "360_day"])
    if rng.random() < 0.15:
        p["comment"] = rng.choice(["", "multi\nline", "tab\there"])
    return p


def standalone(cls, rng):
    C = cfdm()
    K = getattr(C, cls)
    if cls == "Data":
        return rand_data(rng)
    if cls == "DomainAxis":
        x = K(rng.choice([None, 1, 7]))
        if rng.random() < 0.5:
            x.nc_set_dimension(rng.choice(NAMES))
        if rng.random() < 0.3:
            x.nc_set_unlimited(True)
        return x
    if cls == "CellMethod":
        x = K()
        if rng.random() < 0.8:
            x.set_axes(rng.choice([["domainaxis0"], ["area"], ["domainaxis1", "domainaxis0"], []]))
        if rng.random() < 0.8:
            x.set_method(rng.choice(METHODS))
        for q in rng.sample(["within", "where", "over", "comment"], rng.randint(0, 2)):
            x.set_qualifier(q, rng.choice(["years", "land", "days", "a comment"]))
        if rng.random() < 0.3:
            x.set_qualifier("interval", [C.Data(rng.randint(1, 9), rng.choice(["hour", "days", None]))
                                         for _ in range(rng.randint(1, 2))])
        return x
    if cls in ("Datum", "CoordinateConversion", "CoordinateReference"):
        def params():
            p = {}
            if rng.random() < 0.6:
                p["earth_radius"] = rng.choice([6371007, 6371007.0])
            if rng.random() < 0.4:
                p["grid_mapping_name"] = "rotated_latitude_longitude"
            if rng.random() < 0.25:
                p["semi_major_axis"] = C.Data(6378137.0, "m")
            if rng.random() < 0.2:
                p["standard_parallel"] = rng.choice([[25.0, 30.0], np.array([25.0, 30.0]), np.float64(25.0)])
            return p
        if cls == "Datum":
            return K(parameters=params())
        if cls == "CoordinateConversion":
            return K(parameters=params(), domain_ancillaries={t: rng.choice([None, "domainancillary0"])
                                                               for t in rng.sample(TERMS, rng.randint(0, 2))})
        x = K(coordinates=rng.sample(["dimensioncoordinate0", "auxiliarycoordinate1", "dimensioncoordinate2"], rng.randint(0, 3)),
              datum=C.Datum(parameters=params()),
              coordinate_conversion=C.CoordinateConversion(parameters=params(), domain_ancillaries={
                  t: rng.choice([None, "domainancillary0"]) for t in rng.sample(TERMS, rng.randint(0, 2))}))
        if rng.random() < 0.4:
            x.nc_set_variable(rng.choice(NAMES))
        return x
    if cls in ("Field", "Domain"):
        a = gen_abs(rng, partial=rng.random() < 0.5)
        a["dom"] = cls == "Domain"
        if a["dom"]:
            a = dict(view_of(a), nc=a["nc"])
        f = build_abs(a)
        if rng.random() < 0.5:
            f.set_properties(rand_props(rng))
        return f
    if cls in ("NodeCountProperties", "PartNodeCountProperties"):
        x = K(properties=rand_props(rng))
        if rng.random() < 0.5:
            x.nc_set_variable(rng.choice(NAMES))
        return x
    # properties + data (+ bounds)
    x = K(properties=rand_props(rng))
    if rng.random() < 0.85:
        if cls in ("Count", "Index", "List", "TiePointIndex", "InteriorRing"):
            x.set_data(rand_data(rng, "i", [rng.randint(1, 4) for _ in range(2 if cls == "InteriorRing" else 1)]))
        elif cls in ("DomainTopology", "CellConnectivity"):
            x.set_data(rand_data(rng, "i", [rng.randint(1, 3), rng.randint(2, 4)]))
        elif cls == "DimensionCoordinate":
            x.set_data(rand_data(rng, rng.choice(["f", "i", "reftime"]), [rng.randint(1, 4)]))
        else:
            x.set_data(rand_data(rng))
    if cls == "CellMeasure" and rng.random() < 0.8:
        x.set_measure(rng.choice(["area", "volume"]))
    if cls == "DomainTopology" and rng.random() < 0.8:
        x.set_cell(rng.choice(["face", "edge", "point"]))
    if cls == "CellConnectivity" and rng.random() < 0.8:
        x.set_connectivity(rng.choice(["edge", "node"]))
    if cls in ("DimensionCoordinate", "AuxiliaryCoordinate", "DomainAncillary") and rng.random() < 0.5:
        b = C.Bounds(properties=rand_props(rng) if rng.random() < 0.3 else {})
        if x.has_data() and rng.random() < 0.85:
            shp = list(x.data.shape) + [rng.choice([2, 2, 4])]
            b.set_data(rand_data(rng, "f", shp))
        elif not x.has_data() and rng.random() < 0.5:
            b.set_data(rand_data(rng, "f", [3, 2]))
        if rng.random() < 0.5:
            b.nc_set_variable(rng.choice(NAMES))
        x.set_bounds(b)
        if cls != "DomainAncillary" and rng.random() < 0.2:
            x.set_geometry(rng.choice(["polygon", "line", "point"]))
        if cls != "DomainAncillary" and rng.random() < 0.15:
            try:
                x.set_climatology(True)
            except ValueError:
                pass  # only reference-time coordinates can be climatological
    if rng.random() < 0.5 and hasattr(x, "nc_set_variable"):
        x.nc_set_variable(rng.choice(NAMES))
    return x


MUTATIONS = ["deldata", "noid", "reftime", "strdata", "mask", "allmask", "size1", "scalar", "npprop", "noaxes", "delaxes",
             "unsized", "ncnames", "fill", "bigtime"] * 4 + ["numunits", "nlident", "morenc", "globattr"]


def mutate(x, mut, rng):
    """Apply one mutation where it makes sense for the object; returns the (possibly new) object."""
    C = cfdm()
    isfd = isinstance(x, (C.Field, C.Domain))
    try:
        if mut == "deldata" and hasattr(x, "del_data") and x.has_data():
            x.del_data()
        elif mut == "noid" and hasattr(x, "clear_properties"):
            x.clear_properties()
            if hasattr(x, "nc_del_variable"):
                x.nc_del_variable(None)
        elif mut == "reftime":
            if isinstance(x, C.Data):
                if x.dtype.kind in "if":
                    x.set_units("days since 2001-02-03")
                    x.set_calendar(rng.choice(["360_day", "noleap", "gregorian"]))
            elif hasattr(x, "set_property") and (not hasattr(x, "has_data") or not x.has_data() or x.data.dtype.kind in "if"):
                x.set_property("units", rng.choice(["days since 2001-02-03", "seconds since 1970-01-01T00:00:00Z"]))
                if rng.random() < 0.7:
                    x.set_property("calendar", rng.choice(["360_day", "noleap", "gregorian"]))
        elif mut == "bigtime" and not isfd and (isinstance(x, C.Data) or (hasattr(x, "has_data") and x.has_data())):
            # reference-time data with a displayed element (first / second / last) that no calendar can convert:
            # an unmasked default fill value (what read(mask=False) yields), or simply a huge number
            d = x if isinstance(x, C.Data) else x.data
            if d.dtype.kind == "f" and d.size:
                arr = np.ma.array(d.array, copy=True)
                pos = rng.choice([0, -1, 1 if arr.size > 1 else 0])
                arr.flat[pos] = rng.choice([1e20, 9.969209968386869e36, -1e30])
                nd = C.Data(arr, units="days since 2001-02-03", calendar=rng.choice([None, "noleap"]))
                if isinstance(x, C.Data):
                    return nd
                x.set_property("units", "days since 2001-02-03")
                x.set_data(nd)
        elif mut in ("strdata", "mask", "allmask") and (isinstance(x, C.Data) or (hasattr(x, "has_data") and x.has_data())):
            d = x if isinstance(x, C.Data) else x.data
            arr = np.ma.asanyarray(d.array)
            if mut == "strdata":
                new = np.array([rng.choice(["a", "bc", "xyz", "st 1"]) for _ in range(arr.size)]).reshape(arr.shape)
                nd = C.Data(new)
            else:
                if arr.dtype.kind not in "if":
                    return x
                m = np.ones(arr.shape, bool) if mut == "allmask" else np.array(
                    [rng.random() < 0.5 for _ in range(arr.size)]).reshape(arr.shape)
                nd = C.Data(np.ma.array(np.ma.getdata(arr), mask=m), units=d.get_units(None), calendar=d.get_calendar(None))
            if isinstance(x, C.Data):
                return nd
            if isinstance(x, C.Field):
                x.set_data(nd, axes=x.get_data_axes(default=None))
            else:
                x.set_data(nd)
        elif mut == "size1" and hasattr(x, "__getitem__") and (isinstance(x, C.Data) or (hasattr(x, "has_data") and x.has_data())):
            nd = x.ndim if not isinstance(x, C.Field) else x.data.ndim
            if nd:
                return x[tuple(slice(0, 1) for _ in range(nd))]
        elif mut == "scalar":
            if isinstance(x, C.Data):
                return C.Data(rng.choice([5, 2.5, "abc", True]), units=rng.choice([None, "m"]))
            if hasattr(x, "set_data") and not isfd and not isinstance(x, (C.DomainTopology, C.CellConnectivity)):
                x.set_data(C.Data(rng.choice([5, 2.5, "abc"])))
        elif mut == "npprop" and hasattr(x, "set_property"):
            r = rng.random()
            if r < 0.4:
                x.set_property("_FillValue", np.float32(-999.0))
            elif r < 0.7:
                x.set_property("valid_range", np.array([0.0, 10.0]))
            else:
                x.set_property("missing_value", np.int16(-1))
        elif mut == "noaxes" and isfd:
            n = rng.randint(1, 3)
            x.set_construct(C.AuxiliaryCoordinate(properties=rand_props(rng), data=C.Data(np.arange(float(n)))))
        elif mut == "delaxes" and isinstance(x, C.Field):
            ks = sorted(x.constructs.data_axes())
            if ks:
                x.del_data_axes(rng.choice(ks))
        elif mut == "unsized" and isfd:
            x.set_construct(C.DomainAxis())
        elif mut == "ncnames":
            i = [0]

            def name():
                i[0] += 1
                return f"nc{i[0]}"
            stack = [x]
            if isfd:
                stack += list(x.constructs.todict().values())
            for y in list(stack):
                if hasattr(y, "has_bounds") and y.has_bounds():
                    stack.append(y.bounds)
                if hasattr(y, "has_interior_ring") and y.has_interior_ring():
                    stack.append(y.interior_ring)
            for y in stack:
                if hasattr(y, "nc_set_variable"):
                    y.nc_set_variable(name())
                if hasattr(y, "nc_set_dimension"):
                    y.nc_set_dimension(name())
        elif mut == "numunits" and hasattr(x, "set_property") and not isfd:
            # a numeric `units` attribute, as read from a dataset
            if not hasattr(x, "has_data") or not x.has_data() or x.data.dtype.kind in "if":
                x.set_property("units", rng.choice([np.int32(1), np.float64(1.0), 1]))
                x.del_property("calendar", None)
                if hasattr(x, "del_climatology"):
                    x.del_climatology(None)  # only reference-time coordinates can be climatological
        elif mut == "nlident" and hasattr(x, "set_property"):
            # an identity with a line break
            x.del_property("standard_name", None)
            if hasattr(x, "del_property"):
                x.del_property("cf_role", None)
                x.del_property("axis", None)
            x.set_property("long_name", rng.choice(["air temperature\nat 2 m", "multi\nline"]))
        elif mut == "globattr" and isfd:
            x.nc_set_global_attributes({"history": "created", "comment": None})
        elif mut == "morenc":
            # netCDF names other than variable / dimension names
            if isinstance(x, C.TiePointIndex):
                x.nc_set_subsampled_dimension("ssdim")
                x.nc_set_interpolation_subarea_dimension("isdim")
            elif isinstance(x, C.CoordinateReference):
                x.datum.nc_set_variable("datum_var")
            elif isfd:
                x.nc_set_geometry_variable("geometry_container")
        elif mut == "fill" and hasattr(x, "set_property"):
            x.set_property("_FillValue", -999.0)
            if hasattr(x, "has_data") and x.has_data():
                x.data.set_fill_value(-999.0)
    except fw.HarnessError:
        raise
    except Exception:
        # a mutation that the API refuses is simply not applied
        return x
    return x


def build_object(p):
    """(label, object) of an object recipe."""
    C = cfdm()
    rng = fw.rng_for(p["seed"], "obj")
    src = p["src"]
    if src == "new":
        cls = p["cls"]
        x = standalone(cls, rng)
        label = cls
    else:
        if src == "ex":
            f = C.example_field(p["idx"])
        elif src == "read":
            f = read_back(p["idx"])
            if f is None:
                f = C.example_field(p["idx"])
                src = "ex(unwritable)"
        elif src == "comp":
            f = compressed_field(p["kind"], rng)
        elif src == "abs":
            a = gen_abs(rng, partial=p.get("partial", False))
            f = build_abs(a)
            if rng.random() < 0.5:
                f.set_properties(rand_props(rng))
        else:
            raise fw.HarnessError("unknown source " + src)
        # field-level mutations happen before a component is picked
        for m in p["mut"]:
            if m in ("noaxes", "delaxes", "unsized"):
                f = mutate(f, m, rng)
        if isinstance(f, C.Domain):
            comps = [("Domain", f)] * 3 + [(type(c).__name__, c) for c in f.constructs.todict().values()]
        else:
            comps = components(f)
        label, x = comps[p["pick"] % len(comps)]
        if label.startswith("Domain(view)"):
            pass  # keep the live view
        else:
            x = x.copy()
    for m in p["mut"]:
        if src != "new" and m in ("noaxes", "delaxes", "unsized"):
            continue
        x = mutate(x, m, rng)
    return label, x


def gen_obj_payload(rng):
    src = rng.choices(["ex", "read", "comp", "abs", "new"], [30, 12, 10, 12, 36])[0]
    p = dict(src=src, seed=rng.randrange(1 << 40), pick=rng.randrange(1 << 20))
    if src in ("ex", "read"):
        p["idx"] = rng.randrange(12) if src == "ex" else rng.choice([0, 1, 2, 3, 4, 5, 6, 7, 8, 9, 10, 11])
    elif src == "comp":
        p["kind"] = rng.choice(["contiguous", "indexed", "indexed_contiguous", "gathered"])
    elif src == "abs":
        p["partial"] = rng.random() < 0.5
    else:
        p["cls"] = rng.choice(STANDALONE)
    nm = rng.choice([0, 0, 1, 1, 2, 3])
    p["mut"] = [rng.choice(MUTATIONS) for _ in range(nm)]
    p["kw"] = dict(rng.choice(KW_VARIANTS))
    # at most one of the mutations that end in an open finding per object, so that each failure has one cause
    special = [m for m in p["mut"] if m in ("numunits", "nlident", "morenc")]
    if len(special) > 1:
        p["mut"] = [m for m in p["mut"] if m not in special[1:]]
    if rng.random() < 0.04:
        p["kw"] = dict(rng.choice(KW_CLASH))
        p["mut"] = [m for m in p["mut"] if m not in ("numunits", "nlident", "morenc")]
    return p


# =========================================================================== cases
def mk_desc(p):
    a = norm_abs(p["abs"])
    view = bool(p.get("view"))
    shown = view_of(a) if view else a
    line = "C19.desc " + enc_abs(shown)
    tags = ["desc:" + ("view" if view else "domain" if a["dom"] else "field")]
    if has_noaxes(shown):
        tags.append("desc:construct-without-axes")
    if bad_daxes(shown):
        tags.append("desc:data-axes-name-missing-axis")
    if shown["data"] is not None and shown["daxes"] is None:
        tags.append("desc:data-without-axes")
    return Case("C19.desc", dict(abs=p["abs"], view=view), line, key=line, nontrivial=bool(shown["cons"]), tags=tags)


def mk_cmds(p):
    a = norm_abs(p["abs"])
    line = "C19.cmds " + enc_abs(a)
    kw = dict(p.get("kw") or {})
    tags = ["cmds:" + ("domain" if a["dom"] else "field")]
    if has_noaxes(a):
        tags.append("cmds:construct-without-axes")
    tags += ["cmds:kw:" + (",".join(sorted(kw)) or "default")]
    return Case("C19.cmds", dict(abs=p["abs"], kw=kw), line, key=line + repr(sorted(kw.items())), nontrivial=bool(a["cons"]), tags=tags)


def mk_obj(p):
    p = dict(p)
    key = repr(sorted((k, repr(v)) for k, v in p.items()))
    tags = ["obj:src:" + p["src"]] + ["obj:mut:" + m for m in p["mut"]] + ["obj:kw:" + (",".join(sorted(p["kw"])) or "default")]
    if p["kw"] in KW_CLASH:
        tags.append("obj:kw:clashing-names")
    return Case("C19.obj", p, None, key=key, nontrivial=True, tags=tags)


def mk_emit(p):
    p = dict(p)
    kw = p.get("kw") or {}
    tags = ["emit:kind:" + p["kind"], "emit:kw:" + (",".join(sorted(kw)) or "default")]
    if "namespace" in kw:
        tags.append("emit:namespace:" + repr(kw["namespace"]))
    return Case("C19.emit", p, None, key="emit" + json.dumps(p, sort_keys=True), nontrivial=True, tags=tags)


def mk_dstr(p):
    return Case("C19.dstr", dict(p), None, key="dstr" + json.dumps(p, sort_keys=True), nontrivial=True, tags=[])


def mk_cstr(p):
    return Case("C19.cstr", dict(p), None, key="cstr" + json.dumps(p, sort_keys=True), nontrivial=True, tags=[])


def from_payload(stream, payload):
    return {"C19.desc": mk_desc, "C19.cmds": mk_cmds, "C19.obj": mk_obj, "C19.emit": mk_emit, "C19.dstr": mk_dstr,
            "C19.cstr": mk_cstr}[stream](payload)


def gen(rng, tier, n):
    n_desc = int(n * 0.20)
    n_cmds = int(n * 0.17)
    n_emit = int(n * 0.20)
    n_dstr = int(n * 0.07)
    n_cstr = int(n * 0.05)
    n_obj = max(1, n - n_desc - n_cmds - n_emit - n_dstr - n_cstr)
    for _ in range(n_desc):
        a = gen_abs(rng, partial=rng.random() < 0.5)
        view = (not a["dom"]) and rng.random() < 0.2
        if not a["dom"] and a["data"] is None and rng.random() < 0.04:
            a["daxes"] = [rng.choice([9, 7] + [x[0] for x in a["axes"]])]
        yield mk_desc(dict(abs=a, view=view))
    for _ in range(n_cmds):
        a = gen_abs(rng, partial=rng.random() < 0.4)
        kw = dict(rng.choice([{}, {}, {"header": False}, {"indent": 4}, {"string": False}, {"namespace": ""},
                              {"data_name": "dd"}, {"name": "g"}]))
        yield mk_cmds(dict(abs=a, kw=kw))
    for _ in range(n_emit):
        yield mk_emit(E.gen_emit_payload(rng))
    for _ in range(n_dstr):
        yield mk_dstr(E.gen_dstr_payload(rng))
    for _ in range(n_cstr):
        yield mk_cstr(E.gen_cstr_payload(rng))
    for _ in range(n_obj):
        yield mk_obj(gen_obj_payload(rng))


# =========================================================================== implementation side
def impl(c):
    # every exception of cfdm that is an observable is caught where it is observed; anything
    # that escapes is a fault of this harness, not an outcome
    try:
        fn = {"C19.desc": impl_desc, "C19.cmds": impl_cmds, "C19.obj": impl_obj, "C19.emit": E.impl_emit,
              "C19.dstr": E.impl_dstr, "C19.cstr": E.impl_cstr}.get(c.stream)
        if fn is not None:
            out = fn(c)
            if isinstance(c.extra, dict):
                # a string survives the trip from a worker process to the parent, a dict does not
                c.extra = json.dumps(c.extra, default=str)
            return out
    except fw.HarnessError:
        raise
    except Exception:
        import traceback
        raise fw.HarnessError(f"{c.stream} {c.payload}: {traceback.format_exc()[-900:]}")
    raise fw.HarnessError("unknown stream " + c.stream)


def _inspect(x):
    """repr/str/dump outcomes + whether the object is unchanged."""
    res, det = {}, {}
    try:
        x0 = x.copy()
        fp0 = nc_names(x)
        pre = both_equal(x, x0)
    except Exception as e:
        x0, fp0, pre = None, None, False
        det["copy"] = f"{type(e).__name__}: {str(e)[:120]}"
    res["repr"], det["repr"] = _try(lambda: repr(x))
    res["str"], det["str"] = _try(lambda: str(x))
    if hasattr(x, "dump"):
        def d():
            s = x.dump(display=False)
            if not isinstance(s, str):
                raise TypeError("dump(display=False) did not return a string")
        res["dump"], det["dump"] = _try(d)
    else:
        res["dump"] = "ok"
    same = True
    if x0 is not None and pre:
        try:
            same = bool(both_equal(x, x0)) and nc_names(x) == fp0
        except Exception:
            same = False
    elif x0 is not None and pre is None:
        det["equals"] = "equals() raises on the object and its own copy (C05): unchanged-ness judged on netCDF names only"
        same = nc_names(x) == fp0
    return res, det, same


def _build(a, view=False):
    try:
        return build_abs(a, view=view)
    except fw.HarnessError:
        raise
    except Exception as e:
        raise fw.HarnessError(f"could not build the container {enc_abs(a)}: {type(e).__name__}: {e}")


def impl_desc(c):
    p = c.payload
    a = norm_abs(p["abs"])
    shown = view_of(a) if p.get("view") else a
    if bad_daxes(a):
        # Since repair 7ccd512 Field.set_data_axes refuses domain axes that do not exist, so this state is
        # not reachable through the public API any more: the refusal is the expected outcome (nothing to
        # inspect, no model line).  If the state becomes reachable again the case is inspected as before.
        try:
            x = build_abs(a, view=p.get("view", False))
        except ValueError as e:
            if "doesn't exist" in str(e):
                c.line = None
                c.tags = tuple(c.tags) + ("desc:dangling-data-axes-refused",)
                return "refused-unreachable-state"
            raise fw.HarnessError(f"could not build the container {enc_abs(a)}: {e}")
    else:
        x = _build(a, view=p.get("view", False))
    if not bad_daxes(shown):
        live = abstract_live(x)
        if p.get("view"):
            live["nc"] = None
        if enc_abs(live) != enc_abs(shown):
            raise fw.HarnessError(f"built object does not have the requested abstract state: {enc_abs(live)} != {enc_abs(shown)}")
    res, det, same = _inspect(x)
    c.extra = dict(detail={k: v for k, v in det.items() if v}, same=same)
    return f"repr={res['repr']} str={res['str']} dump={res['dump']}"


def impl_cmds(c):
    p = c.payload
    a = norm_abs(p["abs"])
    x = _build(a)
    if enc_abs(abstract_live(x)) != enc_abs(a):
        raise fw.HarnessError("built object does not have the requested abstract state")
    kw = applicable_kw(x, p.get("kw") or {})
    text, y, stage, detail = run_commands(x, kw)
    c.extra = dict(stage=stage, detail=detail)
    if text is None:
        return stage.split("=")[1]
    name = kw.get("name", default_name(x))
    try:
        toks, unknown = parse_commands(text, name)
    except fw.HarnessError:
        raise
    except Exception as e:  # text that is not in the command language at all: an observable, compared as such
        toks, unknown = ["unparseable:" + type(e).__name__], []
    c.extra["unknown"] = unknown
    out = canon_commands(toks)
    if y is None:
        c.extra["equal"] = False
        return out + " state=" + stage.split("=")[1]
    b = abstract_live(y)
    eq = both_equal(x, y)
    if eq is None:
        # equals() itself raises (on the pair, or even on the original and its own copy): totality of
        # equals is property C05; here the abstract comparison in the oracle decides
        eq = True
        c.tags = tuple(c.tags) + ("cmds:equals-raises(C05)",)
    elif eq is False:
        # `equals` of fields/domains has an open C05 finding: identical (or interchangeable) metadata constructs
        # on different axes - e.g. two size-1 dimension coordinates with the same values, or the constructs of two
        # axes of equal size - are matched greedily in an order that depends on the hash seed: on the SAME pair of
        # objects it answers True under PYTHONHASHSEED=0 and False under 1 (alarm replays of seeds 3 and 4).  The
        # rebuilt container has the same keys, so the independent structural fingerprint (properties, data type,
        # shape, hashes of values and mask, bounds, every construct with the axes it spans, cell methods in order,
        # coordinate references, netCDF names) decides, together with the abstract comparison of the oracle: if it
        # is identical the False verdict is C05's, not C19's; if it differs the case is reported.
        try:
            from harness import fingerprint as _fp
            if _fp.fingerprint(x) == _fp.fingerprint(y):
                eq = True
                c.tags = tuple(c.tags) + ("cmds:equals-false-fingerprint-equal(C05)" + ("" if twin_constructs(x) else ":no-identical-pair"),)
        except Exception:
            pass
    c.extra["equal"] = bool(eq)
    c.extra["type"] = type(x) is type(y)
    c.extra["nc"] = nc_names(x) == nc_names(y)  # cell methods by order, coordinate references as a multiset
    c.extra["orig"] = a
    c.extra["rebuilt"] = b
    return out + " state=" + enc_abs(b, sep="|")


def _np_valued(d):
    return any(isinstance(v, (np.generic, np.ndarray)) for v in d.values())


def object_facts(x, kw):
    """Facts about the input object that the known-finding signatures are predicates of."""
    C = cfdm()
    F = dict(cls=type(x).__name__, noaxes=[], unsized_domain=False)
    isfd = isinstance(x, (C.Field, C.Domain))
    comps = [x]
    if isfd:
        da = x.constructs.data_axes()
        types = [LONG[t] for t in TYPES if not (isinstance(x, C.Domain) and t == "fan")]
        F["noaxes"] = sorted(k for k in x.constructs.filter_by_type(*types, todict=True) if k not in da)
        sizes = [a.get_size(None) for a in x.domain_axes(todict=True).values()]
        F["unsized_domain"] = isinstance(x, C.Domain) and len(sizes) >= 2 and any(z is None for z in sizes)
        comps += list(x.constructs.todict().values())
    for y in list(comps):
        if hasattr(y, "has_bounds") and y.has_bounds():
            comps.append(y.bounds)
        if hasattr(y, "has_interior_ring") and y.has_interior_ring():
            comps.append(y.interior_ring)
        if isinstance(y, C.CoordinateReference):
            comps += [y.datum, y.coordinate_conversion]
    npv = scalar_str = data_param = nonfinite = npunits = nonstr_units = nl_ident = False
    for y in comps:
        try:
            if "\n" in str(y.identity("")):
                nl_ident = True
        except Exception:
            pass
        if isinstance(y, C.CellMethod) and "\n" in str(y.get_method("")):
            nl_ident = True
        if isinstance(y, (C.DimensionCoordinate, C.AuxiliaryCoordinate, C.DomainAncillary)):
            for src in (y, y.get_bounds(None)):
                if src is not None and any(src.has_property(k) and not isinstance(src.get_property(k), str) for k in ("units", "calendar")):
                    nonstr_units = True
        elif hasattr(y, "has_property") and y.has_property("calendar") and not isinstance(y.get_property("calendar"), str):
            nonstr_units = True
        if hasattr(y, "properties") and _np_valued(y.properties()):
            npv = True
        if hasattr(y, "parameters"):
            ps = y.parameters()
            if _np_valued(ps):
                npv = True
            if any(isinstance(v, C.Data) for v in ps.values()):
                data_param = True
        datas = []
        if isinstance(y, C.Data):
            datas.append(y)
        elif hasattr(y, "has_data") and y.has_data():
            datas.append(y.data)
        if isinstance(y, C.CellMethod):
            datas += [v for v in y.get_qualifier("interval", ()) if isinstance(v, C.Data)]
        if hasattr(y, "parameters"):
            datas += [v for v in y.parameters().values() if isinstance(v, C.Data)]
        for d in datas:
            if isinstance(d.get_units(None), np.generic) or isinstance(d.get_calendar(None), np.generic):
                npunits = True
            if d.ndim == 0 and d.dtype.kind in "SU":
                scalar_str = True
            if d.dtype.kind == "f":
                arr = np.ma.asanyarray(d.array)
                vals = arr.compressed() if np.ma.is_masked(arr) else np.ma.getdata(arr)
                if not np.isfinite(vals).all():
                    nonfinite = True
    F["npvalued"] = npv
    F["npunits"] = npunits
    F["nonstr_units"] = nonstr_units
    F["nl_ident"] = nl_ident
    F["nonfinite"] = nonfinite
    F["scalar_str"] = scalar_str
    F["data_param"] = data_param
    F["inherited"] = bool(isinstance(x, (C.Bounds, C.InteriorRing)) and getattr(x, "inherited_properties", dict)())
    F["coord_name"] = bool(isinstance(x, (C.DimensionCoordinate, C.AuxiliaryCoordinate)) and kw and kw.get("name") not in (None, "c"))
    return F


def nc_diff(a, b, path=""):
    """Paths at which two netCDF-name fingerprints differ."""
    if isinstance(a, dict) and isinstance(b, dict):
        out = []
        for k in sorted(set(a) | set(b)):
            out += nc_diff(a.get(k), b.get(k), f"{path}/{k}")
        return out
    if isinstance(a, list) and isinstance(b, list) and len(a) == len(b):
        out = []
        for i, (u, v) in enumerate(zip(a, b)):
            out += nc_diff(u, v, f"{path}/{i}")
        return out
    return [] if a == b else [path]


def impl_obj(c):
    p = c.payload
    try:
        label, x = build_object(p)
    except fw.HarnessError:
        raise
    except Exception as e:
        import traceback
        raise fw.HarnessError(f"could not build the object of recipe {p}: {traceback.format_exc()[-600:]}")
    C = cfdm()
    c.tags = tuple(c.tags) + ("obj:class:" + label,)
    kw = applicable_kw(x, p["kw"]) if hasattr(x, "creation_commands") else None
    F = object_facts(x, kw)
    res, det, same = _inspect(x)
    extra = dict(label=label, detail={k: v for k, v in det.items() if v}, same=same, kw=kw, facts=F,
                 clash=bool(kw is not None and names_may_clash(x, kw)))
    out = f"repr={res['repr']} str={res['str']} dump={res['dump']} same={int(same)}"
    if kw is None:
        c.extra = extra
        return out + " cc=na"
    text, y, stage, detail = run_commands(x, kw)
    extra["stage"] = stage
    extra["cc_detail"] = detail
    extra["text"] = None if text is None else text[:40000]
    if y is None:
        c.extra = extra
        return out + " " + (stage if stage.startswith("cc=") else "cc=ok " + stage)
    ty = type(y) is type(x)
    eq = both_equal(x, y)
    if eq is None:
        eq = "na"  # equals() itself raises: its totality is property C05, not decidable here
        c.tags = tuple(c.tags) + ("obj:equals-raises(C05)",)
    if eq is False and isinstance(x, (C.Field, C.Domain)):
        # `equals` of fields/domains has open C05 findings (greedy matching of identical constructs on
        # different axes depends on hash order).  The rebuilt container has the same keys, so the independent
        # structural fingerprint decides: if it is identical, the False verdict is C05's defect, not C19's.
        try:
            from harness import fingerprint as _fp
            if _fp.fingerprint(x) == _fp.fingerprint(y):
                eq = "na"
                c.tags = tuple(c.tags) + ("obj:equals-false-fingerprint-equal(C05)",)
        except Exception:
            pass
    nc = nc_names(x) == nc_names(y)
    if not nc:
        extra["nc_diff"] = nc_diff(nc_names(x), nc_names(y))
    if eq is False and F["inherited"]:
        # is the difference exactly the properties the original inherits from its parent?
        try:
            x2, y2 = x.copy(), y.copy()
            x2.set_properties(x.inherited_properties())
            y2.set_properties(x.inherited_properties())
            extra["eq_mod_inherited"] = bool(both_equal(x2, y2))
        except Exception:
            extra["eq_mod_inherited"] = False
    c.extra = extra
    try:
        has = bool(getattr(x, "has_data", lambda: False)()) or bool(getattr(x, "properties", dict)()) or bool(
            getattr(x, "parameters", dict)()) or isinstance(x, (C.Data, C.Field, C.Domain))
    except Exception:
        has = True
    c.nontrivial = has
    return out + f" cc=ok exec=ok type={int(ty)} eq={eq if eq == 'na' else int(bool(eq))} nc={int(nc)}"


def _extra(c):
    if isinstance(c.extra, dict):
        return c.extra
    if isinstance(c.extra, str) and c.extra.startswith("{"):
        try:
            return json.loads(c.extra)
        except ValueError:
            return {}
    return {}


def agree(c):
    if c.stream == "C19.desc":
        if c.impl_out == "refused-unreachable-state":
            return True
        return c.model_out.startswith(c.impl_out + " ")
    if c.stream == "C19.cmds":
        m = re.sub(r" old=\S+", "", c.model_out)
        return c.impl_out == m
    if c.stream == "C19.emit":
        return E.agree_emit(c)
    if c.stream == "C19.dstr":
        return E.agree_dstr(c)
    if c.stream == "C19.cstr":
        return E.agree_cstr(c)
    return True


# =========================================================================== oracle
def _abs_equiv(a, b):
    """`Equiv` of the specification on two abstract containers: keys of cell methods and
    coordinate references are not compared, everything else (incl. netCDF names) literally."""
    def cons(z):
        return sorted(repr(c[:6]) for c in z["cons"])
    for k in ("dom", "nc", "data", "daxes"):
        if a[k] != b[k]:
            return f"{k} differs: {a[k]!r} -> {b[k]!r}"
    if [list(x) for x in a["axes"]] != [list(x) for x in b["axes"]]:
        return f"domain axes differ: {a['axes']} -> {b['axes']}"
    if cons(a) != cons(b):
        return "metadata constructs (key, shape, netCDF names, bounds, axes) differ"
    for t in TYPES:
        if [c[1] for c in a["cons"] if c[0] == t] != [c[1] for c in b["cons"] if c[0] == t]:
            return f"order of {t} constructs differs"
    if [m[1:] for m in a["cms"]] != [m[1:] for m in b["cms"]]:
        return "cell methods differ (as a sequence)"
    if [r[1:] for r in a["refs"]] != [r[1:] for r in b["refs"]]:
        return "coordinate references differ"
    return None


def oracle(c):
    if c.stream == "C19.emit":
        return E.oracle_emit(c)
    if c.stream == "C19.dstr":
        return E.oracle_dstr(c)
    if c.stream == "C19.cstr":
        return E.oracle_cstr(c)
    out = str(c.impl_out)
    ex = _extra(c)
    if c.stream == "C19.desc":
        if "raised" in out:
            return f"inspection raised: {out}; {ex.get('detail')}"
        if not ex.get("same", True):
            return "inspection changed the object"
        return None
    if c.stream == "C19.cmds":
        if out.startswith("raised") or out in ("notlist", "badindent"):
            return f"creation_commands failed: {out}; {ex.get('detail')}"
        if "state=raised" in out or "state=noname" in out:
            return f"executing the creation commands failed: {ex.get('detail')}"
        if ex.get("unknown"):
            return None if not ex["unknown"] else f"unrecognised emitted statements (harness): {ex['unknown'][:3]}"
        if not ex.get("type"):
            return "rebuilt object has another type"
        if not ex.get("equal"):
            return "rebuilt object is not equal to the original"
        if not ex.get("nc"):
            return "netCDF names of the rebuilt object differ"
        return _abs_equiv(norm_abs(ex["orig"]), ex["rebuilt"])
    if c.stream == "C19.obj":
        toks = dict(t.split("=", 1) for t in out.split(" ") if "=" in t)
        if not toks:
            return f"building / inspecting the object raised in the harness: {out}; {str(ex)[:300] if ex else c.extra}"
        for k in ("repr", "str", "dump"):
            if toks.get(k) != "ok":
                return f"{k}() of {ex.get('label')} {toks.get(k)}: {ex.get('detail', {}).get(k)}"
        if toks.get("same") != "1":
            return f"repr/str/dump changed the {ex.get('label')}"
        if toks.get("cc") == "na":
            return None
        if toks.get("cc") != "ok":
            if toks.get("cc") == "raised:ValueError" and ex.get("clash") and "parameter" in str(ex.get("cc_detail")):
                return None  # the documented refusal of clashing names
            return f"creation_commands({ex.get('kw')}) of {ex.get('label')}: {toks.get('cc')}: {ex.get('cc_detail')}"
        if toks.get("exec") != "ok":
            return f"exec of creation_commands({ex.get('kw')}) of {ex.get('label')}: {toks.get('exec')}: {ex.get('cc_detail')}"
        if toks.get("type") != "1":
            return f"rebuilt {ex.get('label')} has another type"
        if toks.get("eq") not in ("1", "na"):
            return f"rebuilt {ex.get('label')} is not equal to the original (kw {ex.get('kw')})"
        if toks.get("nc") != "1":
            return f"netCDF names differ after the round trip of {ex.get('label')} at {ex.get('nc_diff')}"
        return None
    return None


# =========================================================================== known-finding signatures
S_NOAXES_STR = "metadata-construct-without-data-axes:str-dump-KeyError"
S_NOAXES_CC = "metadata-construct-without-data-axes:creation_commands-ValueError"
S_DAXES = "field-data-axes-name-missing-domain-axis:repr-KeyError"
S_DOMREPR = "domain-with-unsized-axis-among-several:repr-TypeError"
S_COORDNAME = "coordinate-creation_commands-ignores-name-keyword"
S_NCDIM = "netcdf-dimension-name-of-non-axis-component-not-recreated"
S_NUMPY = "numpy-valued-property-or-parameter:exec-NameError"
S_SCALARSTR = "scalar-string-data:exec-NameError-or-SyntaxError"
S_REFDATA = "coordinate-reference-data-valued-parameter:creation_commands-TypeError"
S_INHERITED = "bounds-with-inherited-properties:rebuilt-not-equal"
S_NONFINITE = "non-finite-data-value:exec-NameError"
S_NONFINITE_REFTIME = "non-finite-reference-time-value:str-dump-AttributeError"
S_NPUNITS = E.S_NPUNITS
S_NONSTR = E.S_NONSTR
S_NLHEADER = "identity-with-line-break:header-comment-spills"
S_NCNAMES2 = "netcdf-geometry-tiepoint-datum-name-not-recreated"


def _toks(out):
    return dict(t.split("=", 1) for t in str(out).split(" ") if "=" in t)


def _ensure_extra(c):
    """`extra` does not survive the trip from a worker process: recompute it (deterministic)."""
    ex = _extra(c)
    if ex:
        return ex
    c2 = from_payload(c.stream, c.payload)
    c2.impl_out = impl(c2)
    return _extra(c2)


def unsized_domain(shown):
    return shown["dom"] and len(shown["axes"]) >= 2 and any(a[1] is None for a in shown["axes"])


def classify(c):
    """A known-finding signature, or a coarse `unexplained:…` group (never listed in
    known_findings.json) so that a regression is reported once per kind of failure, not once per case."""
    if c.stream in ("C19.emit", "C19.dstr", "C19.cstr"):
        if not (isinstance(c.extra, str) and c.extra.startswith("{")):
            c2 = from_payload(c.stream, c.payload)
            c2.impl_out = impl(c2)
            c.extra = c2.extra
            c.tags = c2.tags
        sig = {"C19.emit": E.classify_emit, "C19.dstr": E.classify_dstr, "C19.cstr": E.classify_cstr}[c.stream](c)
        if sig:
            return sig
        t = E.toks(c.impl_out)
        bad = [f"{k}={str(v).split(':')[0]}" for k, v in t.items() if k != "text" and not str(v).startswith(("ok", "1")) and k != "dims"]
        return f"unexplained:{c.stream}:" + ",".join(bad[:2])
    sig = _classify(c)
    if sig:
        return sig
    out = str(c.impl_out)
    if c.stream == "C19.desc":
        return "unexplained:C19.desc:" + out.replace(" ", ",")
    if c.stream == "C19.cmds":
        if out.startswith("raised") or " " not in out:
            return "unexplained:C19.cmds:creation_commands-" + out
        st = out.split(" state=")[-1]
        return "unexplained:C19.cmds:" + (st if st.startswith(("raised", "noname")) else "rebuilt-differs")
    toks = _toks(out)
    for k in ("repr", "str", "dump", "same", "cc", "exec", "type", "eq", "nc"):
        if k in toks and toks[k] not in ("ok", "1", "na"):
            return f"unexplained:C19.obj:{k}={toks[k]}"
    return "unexplained:C19.obj"


def _classify(c):
    out = str(c.impl_out)
    p = c.payload
    if c.stream == "C19.desc":
        a = norm_abs(p["abs"])
        shown = view_of(a) if p.get("view") else a
        toks = _toks(out)
        if set(toks) != {"repr", "str", "dump"}:
            return None
        model = _toks(c.model_out) if c.model_out else None
        ex = _ensure_extra(c)
        if not ex.get("same", True):
            return None
        sigs = []
        # every failing formatter must be explained by a known cause, and must be the failure
        # that the model of the unpatched code predicts
        if toks["repr"] != "ok":
            if toks["repr"] == "raised:KeyError" and bad_daxes(shown) and (model is None or model.get("repr") == "raised:KeyError"):
                sigs.append(S_DAXES)
            elif toks["repr"] == "raised:TypeError" and unsized_domain(shown) and (model is None or model.get("oldrepr") == "raised:TypeError"):
                sigs.append(S_DOMREPR)
            else:
                return None
        if toks["str"] != "ok" or toks["dump"] != "ok":
            if (has_noaxes(shown) and {toks["str"], toks["dump"]} <= {"ok", "raised:KeyError"}
                    and (model is None or (model.get("oldstr") == toks["str"] and model.get("olddump") == toks["dump"]))):
                sigs.append(S_NOAXES_STR)
            else:
                return None
        return sigs[0] if sigs else None
    if c.stream == "C19.cmds":
        a = norm_abs(p["abs"])
        ex = _ensure_extra(c)
        if has_noaxes(a) and out == "raised:ValueError" and "has not had axes set" in str(ex.get("detail")):
            if c.model_out is None or " old=raised:ValueError " in str(c.model_out):
                return S_NOAXES_CC
        return None
    if c.stream == "C19.obj":
        return classify_obj(c, out, _ensure_extra(c))
    return None


def classify_obj(c, out, ex):
    toks = _toks(out)
    F = ex.get("facts")
    if not toks or not F:
        return None
    det = ex.get("detail", {})
    sigs = []
    nonstr = re.compile(r"is not iterable|can only concatenate str")
    if toks.get("repr") != "ok":
        if toks.get("repr") == "raised:TypeError" and F["unsized_domain"] and "not supported between" in str(det.get("repr")):
            sigs.append(S_DOMREPR)
        elif (toks.get("repr") == "raised:TypeError" and toks.get("str") == "raised:TypeError" and F.get("nonstr_units")
              and F["cls"] in ("DimensionCoordinate", "AuxiliaryCoordinate", "DomainAncillary", "FieldAncillary", "CellMeasure", "Bounds",
                               "Count", "Index", "List", "InteriorRing", "DomainTopology", "CellConnectivity",
                               "InterpolationParameter", "TiePointIndex")
              and nonstr.search(str(det.get("repr"))) and nonstr.search(str(det.get("str")))):
            sigs.append(S_NONSTR)
        else:
            return None
    for k in ("str", "dump"):
        if toks.get(k) != "ok":
            if k == "str" and S_NONSTR in sigs:
                continue
            m = re.search(r"KeyError: '(\w+)'", str(det.get(k)))
            if toks.get(k) == "raised:KeyError" and m and m.group(1) in F["noaxes"]:
                sigs.append(S_NOAXES_STR)
            elif toks.get(k) == "raised:AttributeError" and F.get("nonfinite") and "cftime" in str(det.get(k)):
                sigs.append(S_NONFINITE_REFTIME)
            else:
                return None
    if toks.get("same") != "1":
        return None
    cc = toks.get("cc")
    d = str(ex.get("cc_detail"))
    if cc == "na":
        return sigs[0] if sigs else None
    if cc != "ok":
        if cc == "raised:ValueError" and ex.get("clash") and "parameter" in d:
            return sigs[0] if sigs else None  # the documented refusal of clashing names: not a failure
        if cc == "raised:ValueError" and "has not had axes set" in d and F["noaxes"]:
            sigs.append(S_NOAXES_CC)
        elif cc == "raised:TypeError" and "unexpected keyword argument 'header'" in d and F["data_param"]:
            sigs.append(S_REFDATA)
        elif cc == "badindent" and F.get("nl_ident") and (ex.get("kw") or {}).get("header", True) and re.search(
                r"^\s*#.*\n[^#\s]", str(ex.get("text")), flags=re.M):
            # the spilt part of the header comment starts in column 0
            sigs.append(S_NLHEADER)
        else:
            return None
        return sigs[0]
    e = toks.get("exec")
    if e != "ok":
        kwd = ex.get("kw") or {}
        if e == "noname" and F["coord_name"]:
            sigs.append(S_COORDNAME)
        elif e == "raised:other:NameError" and "name 'np' is not defined" in d and F.get("npunits") and re.search(
                r"Data\(.*(units|calendar)=np\.", str(ex.get("text")) + str(ex.get("cc_detail"))):
            sigs.append(S_NPUNITS)
        elif e in ("raised:other:NameError", "raised:other:SyntaxError") and F.get("nl_ident") and kwd.get("header", True) and re.search(
                r"^\s*#.*\n\s*[^#\s]", str(ex.get("text")), flags=re.M) and "name 'np'" not in d and not re.search(r"name '(nan|inf)'", d):
            sigs.append(S_NLHEADER)
        elif e == "raised:other:NameError" and ("name 'np' is not defined" in d or "name 'array' is not defined" in d) and F["npvalued"]:
            sigs.append(S_NUMPY)
        elif e == "raised:other:NameError" and re.search(r"name '(nan|inf)' is not defined", d) and F.get("nonfinite"):
            sigs.append(S_NONFINITE)
        elif e in ("raised:other:NameError", "raised:other:SyntaxError") and F["scalar_str"]:
            sigs.append(S_SCALARSTR)
        else:
            return None
        return sigs[0]
    if toks.get("type") != "1":
        return None
    if toks.get("eq") == "0":
        if F["inherited"] and ex.get("eq_mod_inherited"):
            sigs.append(S_INHERITED)
        else:
            return None
    if toks.get("nc") == "0":
        diff = ex.get("nc_diff") or []
        ok = diff and all(q.endswith("/nc_get_dimension") and not re.search(r"/domainaxis\d+/nc_get_dimension$", q) for q in diff)
        ok2 = diff and all(q.endswith(("/nc_get_geometry_variable", "/nc_get_subsampled_dimension",
                                       "/nc_get_interpolation_subarea_dimension", "/datum")) for q in diff)
        if ok and F["cls"] != "DomainAxis":
            sigs.append(S_NCDIM)
        elif ok2:
            sigs.append(S_NCNAMES2)
        else:
            return None
    return sigs[0] if sigs else None
